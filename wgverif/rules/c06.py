"""C06 -- matching solutions are physically admissible and correctly classified.

R06.1 the Jouguet condition is d(v+^2)/dT- = 0 and vJ = v+ at that point
R06.2 template: the closed-form vJ is the Chapman-Jouguet point (zero discriminant, v- = cb)
R06.3 classification: detonation branch iff vw > vJ, in both classes
R06.4 v-^2 = min(vw^2, cs-^2) (hybrids leave at the sound speed); template v- = min(cb, vw)
R06.5 weak-detonation branch: root bracketed between Tn and the minimiser of the same residual
R06.6 fastest deflagration / slowest detonation / minimal velocity bookkeeping

Recognition is by role: helper functions are identified as "the function handed to root_scalar / minimize_scalar" (nested function, method,
module-level function, lambda, functools.partial; evaluated with the solver's `args=` bound: `_solver_function`), locals by what
is assigned to them, temperatures as "element k of the tuple returned by findMatching" (through any local helper or unpacking), and
expressions are compared through normal forms / terms.
"""
from __future__ import annotations

import ast
import copy

import sympy as sp

from ..core import AnchorMissing, Check, FuncInfo, Undecided, calls_in, dotted, kwarg, own_nodes, src, walk_guarded
from ..flow import CFG
from ..hydro import HY, TM, SideTyper, attr_side, drop_ite, fn, hydro_extractor, junction_terms, n, th, same_term
from ..nf import Ctx, eqx, has, match, nf, parse_pattern, same
from ..terms import Extractor, is_zero

LEVEL = "other"
PRODUCERS = ("findMatching", "matchDeton", "matchDeflagOrHyb")       # return (v+, v-, T+, T-)
ELEM_SIDE = {2: "+", 3: "-"}


# ------------------------------------------------------------------------------------------------ role helpers


def _pol(test, pos: str, neg: str | None = None, ctx=None):
    """True: `test` holds iff the condition `pos` holds; False: iff it does not (`neg` = spelling of the negated condition); None: unrelated"""
    if isinstance(test, ast.UnaryOp) and isinstance(test.op, ast.Not):
        r = _pol(test.operand, pos, neg, ctx)
        return None if r is None else not r
    if eqx(test, pos, ctx):
        return True
    if neg is not None and eqx(test, neg, ctx):
        return False
    return None


def _only_when(g: CFG, node, pos: str, neg: str | None, want: bool, ctx=None) -> bool:
    """CFG node `node` is reached only through the branch of a test of condition `pos` on which the condition has truth value `want`"""
    for t in g.nodes:
        if g.kind.get(t) != "test":
            continue
        p = _pol(t, pos, neg, ctx)
        if p is None:
            continue
        taken = (p == want)          # polarity of the test on which the condition == want
        if g.must_pass(CFG.ENTRY, node, lambda q: q is t) and not g.reaches(g.branch(t, not taken), node, avoid=lambda q: q is t):
            return True
    return False


def _never_returns_when(g: CFG, pos: str, neg: str | None, want: bool, ctx=None) -> bool:
    """some test of condition `pos`: the branch on which the condition has truth value `want` cannot reach a normal exit (it raises)"""
    for t in g.nodes:
        if g.kind.get(t) != "test":
            continue
        p = _pol(t, pos, neg, ctx)
        if p is None:
            continue
        br = g.branch(t, p == want)
        if br and not g.reaches(br, CFG.EXIT):
            return True
    return False


def _local_func(S, fi, name: str):
    """the nested function `name` visible from fi (its own nested functions, then those of the enclosing functions).  The definition is looked
    up in the function's own tree first, so that it is also found in a written-out copy (`written_out`) whose nested functions are not indexed"""
    f = fi
    while f is not None:
        q = f"{f.module}:{f.qual}.{name}"
        hits = [x for x in own_nodes(f.node) if isinstance(x, ast.FunctionDef) and x.name == name]
        if len(hits) == 1 and not (S.has_func(q) and S.func(q).node is hits[0]):
            return FuncInfo(f.module, f"{f.qual}.{name}", hits[0], f.cls, f)
        if S.has_func(q):
            return S.func(q)
        f = f.parent
    return None


def _nested_funcs(S, fi, depth: int = 2) -> list:
    """the functions defined inside fi, down to `depth` levels (read off fi's own tree: also right for a written-out copy)"""
    out = []
    if depth <= 0:
        return out
    for x in own_nodes(fi.node):
        if isinstance(x, ast.FunctionDef):
            q = f"{fi.module}:{fi.qual}.{x.name}"
            h = S.func(q) if S.has_func(q) and S.func(q).node is x else FuncInfo(fi.module, f"{fi.qual}.{x.name}", x, fi.cls, fi)
            out.append(h)
            out += _nested_funcs(S, h, depth - 1)
    return out


# ------------------------------------------------------------------------------------------------ written-out form of a function
#
# Several rules look at two sibling blocks of one function (the two range-limited root searches of fastestDeflag, the shock-wave and the
# rarefaction-wave contribution of efficiencyFactor).  A maintainer may merge such blocks into one `for` loop over a literal tuple of cases
# (each result stored in its own slot of a small list), re-use one local name for both blocks, or -- after a parametrised closure was written
# out per call site by inline.py -- leave tests between literals (`if 1 == 1:`) behind.  `written_out` undoes these spellings on a copy of the
# function, so that the rules see the sibling blocks again:
#   1. guard clauses `if c: continue` at the top of a `for` body become if/else, `range(<n>)` becomes the tuple (0, .., n-1)
#   2. `for` loops over literal cases are written out case by case                                 (c01.normalised)
#   3. tests between literals are decided, the branch not taken is dropped                         (`if 1 == 1:` / `x if True else y`);
#      a display of plain names indexed by a literal is the element                                (`(a, b)[1]`)
#   4. a local list / tuple display whose slots are only addressed by literal index (`L[0] = ..`, `a, b = L`, `min(L)`, `return L`) becomes
#      one local per slot
#   5. a local that is re-used for unrelated values (no read sees definitions of both uses) is split into one local per use
# Every step preserves the behaviour of the function, so a rule that inspects the written-out copy demands exactly what it demanded before.

_WRITTEN: dict = {}


def written_out(S, fi) -> FuncInfo:
    key = (id(S), fi.name, id(fi.node))
    hit = _WRITTEN.get(key)
    if hit is not None:
        return hit[1]
    node = copy.deepcopy(fi.node)
    changed = False
    if any(isinstance(x, ast.For) for x in own_nodes(node)):
        _continue_guards(node)
        ast.fix_missing_locations(node)
        cur = FuncInfo(fi.module, fi.qual, node, fi.cls, fi.parent)
        from . import c01
        nz = c01.normalised(S, cur)
        if nz is not cur:
            node, changed = copy.deepcopy(nz.node), True
        else:
            node = copy.deepcopy(fi.node)        # nothing written out: keep the loop as it was
    changed = _fold_literal_tests(node) or changed
    changed = _scalarise_slots(node) or changed
    changed = _split_live_ranges(node) or changed
    if changed:
        ast.fix_missing_locations(node)
        out = FuncInfo(fi.module, fi.qual, node, fi.cls, fi.parent)
    else:
        out = fi
    _WRITTEN[key] = (fi.node, out)
    return out


def _jumps(stmts) -> bool:
    return any(isinstance(x, (ast.Break, ast.Continue)) for st in stmts for x in ast.walk(st))


def _negated(test):
    if isinstance(test, ast.UnaryOp) and isinstance(test.op, ast.Not):
        return test.operand
    return ast.copy_location(ast.UnaryOp(op=ast.Not(), operand=test), test)


def _continue_guards(fn) -> bool:
    """`for ..: if c: [stmts;] continue; rest`  ->  `for ..: if c: stmts else: rest`   (guards directly in the loop body, no other jump involved)"""
    changed = [False]

    def loop_body(body):
        body = list(body)
        while body and isinstance(body[-1], ast.Continue):
            body.pop()
            changed[0] = True
        out = []
        for i, st in enumerate(body):
            if isinstance(st, ast.If) and not st.orelse and st.body and isinstance(st.body[-1], ast.Continue) and not _jumps(st.body[:-1]):
                rest = loop_body(body[i + 1:]) if body[i + 1:] else []
                head = st.body[:-1]
                if head:
                    new = ast.If(test=st.test, body=head, orelse=rest)
                else:
                    new = ast.If(test=_negated(st.test), body=rest or [ast.copy_location(ast.Pass(), st)], orelse=[])
                out.append(ast.copy_location(new, st))
                changed[0] = True
                return out
            out.append(st)
        return out or [ast.Pass()]

    def visit(stmts):
        for st in stmts:
            if isinstance(st, (ast.FunctionDef, ast.AsyncFunctionDef, ast.ClassDef)):
                continue
            if isinstance(st, ast.For):
                st.body = loop_body(st.body)
                it = st.iter
                if isinstance(it, ast.Call) and isinstance(it.func, ast.Name) and it.func.id == "range" and not it.keywords and 1 <= len(it.args) <= 2 \
                        and all(isinstance(a_, ast.Constant) and isinstance(a_.value, int) and not isinstance(a_.value, bool) for a_ in it.args):
                    lo, hi = (0, it.args[0].value) if len(it.args) == 1 else (it.args[0].value, it.args[1].value)
                    if 0 < hi - lo <= 8:          # for k in range(2)  ==  for k in (0, 1)
                        st.iter = ast.copy_location(ast.Tuple(elts=[ast.Constant(value=v) for v in range(lo, hi)], ctx=ast.Load()), it)
                        changed[0] = True
            for fld in ("body", "orelse", "finalbody"):
                sub = getattr(st, fld, None)
                if isinstance(sub, list) and sub and isinstance(sub[0], ast.stmt):
                    visit(sub)
            for h in getattr(st, "handlers", []) or []:
                visit(h.body)

    visit(fn.body)
    return changed[0]


def _literal_truth(e):
    """truth value of a test that is made of literals only (True / False / None / numbers / strings and comparisons between them), else None"""
    if isinstance(e, ast.Constant) and (e.value is None or isinstance(e.value, (bool, int, float, str))):
        return bool(e.value)
    if isinstance(e, ast.UnaryOp) and isinstance(e.op, ast.Not):
        v = _literal_truth(e.operand)
        return None if v is None else not v
    if isinstance(e, ast.BoolOp):
        vals = [_literal_truth(v) for v in e.values]
        if None in vals:
            return None
        return all(vals) if isinstance(e.op, ast.And) else any(vals)
    if isinstance(e, ast.Compare) and len(e.ops) == 1:
        def lit(x):
            if isinstance(x, ast.Constant) and (x.value is None or isinstance(x.value, (bool, int, float, str))):
                return True, x.value
            if isinstance(x, ast.UnaryOp) and isinstance(x.op, ast.USub) and isinstance(x.operand, ast.Constant) and isinstance(x.operand.value, (int, float)) \
                    and not isinstance(x.operand.value, bool):
                return True, -x.operand.value
            return False, None
        (oka, a), (okb, b), op = lit(e.left), lit(e.comparators[0]), e.ops[0]
        if not (oka and okb):
            return None
        try:
            if isinstance(op, ast.Eq):
                return bool(a == b)
            if isinstance(op, ast.NotEq):
                return bool(a != b)
            if isinstance(op, (ast.Is, ast.IsNot)):
                if not all(x is None or isinstance(x, bool) for x in (a, b)):
                    return None
                return (a is b) == isinstance(op, ast.Is)
            if isinstance(op, ast.Lt):
                return bool(a < b)
            if isinstance(op, ast.LtE):
                return bool(a <= b)
            if isinstance(op, ast.Gt):
                return bool(a > b)
            if isinstance(op, ast.GtE):
                return bool(a >= b)
        except TypeError:
            return None
    return None


def _pure_path(e) -> bool:
    if isinstance(e, ast.UnaryOp) and isinstance(e.op, ast.USub):
        e = e.operand
    return isinstance(e, (ast.Constant, ast.Name)) or (isinstance(e, ast.Attribute) and _pure_path(e.value))


def _fold_literal_tests(fn) -> bool:
    changed = [False]

    class T(ast.NodeTransformer):
        def visit_If(self, x):
            self.generic_visit(x)
            v = _literal_truth(x.test)
            if v is None:
                return x
            changed[0] = True
            taken = x.body if v else x.orelse
            return taken if taken else ast.copy_location(ast.Pass(), x)

        def visit_IfExp(self, x):
            self.generic_visit(x)
            v = _literal_truth(x.test)
            if v is None:
                return x
            changed[0] = True
            return x.body if v else x.orelse

        def visit_Subscript(self, x):
            # (a, b)[1] -> b   when no element does anything but name a value (dropping the other elements evaluates nothing away)
            self.generic_visit(x)
            d, k = x.value, _cidx(x.slice)
            if isinstance(x.ctx, ast.Load) and isinstance(d, (ast.Tuple, ast.List)) and k is not None and -len(d.elts) <= k < len(d.elts) \
                    and all(_pure_path(e) for e in d.elts):
                changed[0] = True
                return d.elts[k]
            return x

    T().visit(fn)
    return changed[0]


def _scope_walk(fn):
    """(own, nested): the nodes of fn's own scope (comprehensions included, bodies of nested functions / lambdas / classes not) and the names
    that occur inside the nested functions / lambdas / classes"""
    own, nested = [], set()
    stack = list(ast.iter_child_nodes(fn))
    while stack:
        x = stack.pop()
        if isinstance(x, (ast.FunctionDef, ast.AsyncFunctionDef, ast.ClassDef, ast.Lambda)):
            own.append(x)
            for y in ast.walk(x):
                if isinstance(y, ast.Name):
                    nested.add(y.id)
                elif isinstance(y, ast.arg):
                    nested.add(y.arg)
                elif isinstance(y, (ast.Global, ast.Nonlocal)):
                    nested |= set(y.names)
                elif isinstance(y, (ast.FunctionDef, ast.AsyncFunctionDef, ast.ClassDef)) and y is not x:
                    nested.add(y.name)
            continue
        own.append(x)
        stack.extend(ast.iter_child_nodes(x))
    return own, nested


def _fresh(base: str, taken: set) -> str:
    k = 0
    nm = base
    while nm in taken:
        k += 1
        nm = f"{base}_{k}"
    taken.add(nm)
    return nm


def _all_names(fn) -> set:
    out = set()
    for x in ast.walk(fn):
        if isinstance(x, ast.Name):
            out.add(x.id)
        elif isinstance(x, ast.arg):
            out.add(x.arg)
        elif isinstance(x, (ast.FunctionDef, ast.AsyncFunctionDef, ast.ClassDef)):
            out.add(x.name)
    return out


def _scalarise_slots(fn) -> bool:
    """`L = [e0, e1]` (assigned once, at the top level of the function) whose every other occurrence is `L[<literal index>]`, `a, b = L`,
    `min(L)` / `max(L)` / `sum(L)` or `return L`:  one local per slot.  Nested functions may read slots of a table that is never written to."""
    own, nested = _scope_walk(fn)
    own_ids = {id(x) for x in own}
    parent = {}
    for x in ast.walk(fn):
        for c in ast.iter_child_nodes(x):
            parent[id(c)] = x
    # names bound inside a nested function / lambda / class (parameter, assignment, definition, global / nonlocal declaration)
    bound_nested = set()
    for x in ast.walk(fn):
        if id(x) in own_ids or x is fn:
            continue
        if isinstance(x, ast.Name) and isinstance(x.ctx, (ast.Store, ast.Del)):
            bound_nested.add(x.id)
        elif isinstance(x, ast.arg):
            bound_nested.add(x.arg)
        elif isinstance(x, (ast.Global, ast.Nonlocal)):
            bound_nested |= set(x.names)
        elif isinstance(x, (ast.FunctionDef, ast.AsyncFunctionDef, ast.ClassDef)):
            bound_nested.add(x.name)
        elif isinstance(x, ast.ExceptHandler) and x.name:
            bound_nested.add(x.name)
    cands = {}
    for st in fn.body:
        if isinstance(st, ast.Assign) and len(st.targets) == 1 and isinstance(st.targets[0], ast.Name) and isinstance(st.value, (ast.List, ast.Tuple)) \
                and 1 <= len(st.value.elts) <= 8 and not any(isinstance(e, ast.Starred) for e in st.value.elts):
            nm = st.targets[0].id
            cands[nm] = None if nm in cands else st
    params = {a.arg for a in fn.args.posonlyargs + fn.args.args + fn.args.kwonlyargs} | ({fn.args.vararg.arg} if fn.args.vararg else set()) \
        | ({fn.args.kwarg.arg} if fn.args.kwarg else set())
    plans = {}
    for nm, d in cands.items():
        if d is None or nm in bound_nested or nm in params:
            continue
        n_, ok, sites, inner, stored = len(d.value.elts), True, [], False, False
        for x in ast.walk(fn):
            if isinstance(x, (ast.Global, ast.Nonlocal)) and nm in x.names:
                ok = False
            if not (isinstance(x, ast.Name) and x.id == nm) or x is d.targets[0]:
                continue
            p = parent.get(id(x))
            here = id(x) in own_ids
            if isinstance(p, ast.Subscript) and p.value is x and isinstance(p.ctx, (ast.Load, ast.Store)) and _cidx(p.slice) is not None and -n_ <= _cidx(p.slice) < n_:
                sites.append(("slot", p, _cidx(p.slice) % n_))
                stored = stored or isinstance(p.ctx, ast.Store)
                inner = inner or not here
            elif not here:
                ok = False
                break
            elif isinstance(p, ast.Assign) and p.value is x and len(p.targets) == 1 and isinstance(p.targets[0], (ast.Tuple, ast.List)) \
                    and len(p.targets[0].elts) == n_ and not any(isinstance(e, ast.Starred) for e in p.targets[0].elts):
                sites.append(("unpack", p, None))
            elif isinstance(p, ast.Call) and isinstance(p.func, ast.Name) and p.func.id in ("min", "max", "sum") and len(p.args) == 1 and p.args[0] is x \
                    and not p.keywords and (p.func.id != "sum" or n_ >= 1):
                sites.append((p.func.id, p, None))
            elif isinstance(p, ast.Return) and p.value is x:
                sites.append(("return", p, None))          # the display itself is handed out: a display of the slots is the same value
            else:
                ok = False
                break
        # a nested function may read the slots of a table that is never written to (it would otherwise see later writes through the shared list)
        if inner and stored:
            ok = False
        if ok and sites:
            plans[nm] = (d, sites)
    if not plans:
        return False
    taken = _all_names(fn)
    repl = {}            # id(node) -> replacement node / list of statements
    for nm, (d, sites) in plans.items():
        slots = [_fresh(f"{nm}__{i}", taken) for i in range(len(d.value.elts))]
        repl[id(d)] = [ast.copy_location(ast.Assign(targets=[ast.Name(id=s_, ctx=ast.Store())], value=e), d) for s_, e in zip(slots, d.value.elts)]
        for kind, p, k in sites:
            load = lambda: [ast.Name(id=s_, ctx=ast.Load()) for s_ in slots]
            if kind == "slot":
                repl[id(p)] = ast.copy_location(ast.Name(id=slots[k], ctx=type(p.ctx)()), p)
            elif kind == "unpack":
                repl[id(p.value)] = ast.copy_location(ast.Tuple(elts=load(), ctx=ast.Load()), p.value)
            elif kind == "return":
                repl[id(p.value)] = ast.copy_location(type(d.value)(elts=load(), ctx=ast.Load()), p.value)
            elif kind in ("min", "max") and len(slots) > 1:
                p.args = load()
            elif kind in ("min", "max"):
                repl[id(p)] = ast.copy_location(load()[0], p)
            else:
                e = None
                for s_ in load():
                    e = s_ if e is None else ast.BinOp(left=e, op=ast.Add(), right=s_)
                repl[id(p)] = ast.copy_location(e, p)

    class T(ast.NodeTransformer):
        def visit(self, x):
            r = repl.get(id(x))
            if r is not None:
                if isinstance(r, list):
                    return [self.generic_visit(s_) for s_ in r]
                return r
            return self.generic_visit(x)

    T().visit(fn)
    return True


def _split_live_ranges(fn) -> bool:
    """a local (or nested function name) bound by several plain assignments such that no read sees bindings of two groups: one name per group
    (written-out loop bodies and copy-pasted blocks re-use their locals; the rules address a value by the local that holds it)"""
    own, nested = _scope_walk(fn)
    # (the flow graph does not model the exceptional entry of a `finally` block nor a context manager that swallows an exception: a read after
    # such a construct may see more definitions than the graph says -- leave those functions alone)
    if any(isinstance(x, (ast.With, ast.AsyncWith, ast.Match)) or (isinstance(x, ast.Try) and x.finalbody) or isinstance(x, getattr(ast, "TryStar", ())) for x in own):
        return False
    try:
        g = CFG(fn)
    except Exception:
        return False
    bad = {a.arg for a in ast.walk(fn.args) if isinstance(a, ast.arg)} | set(nested)
    stores, loads = {}, {}
    for x in own:
        if isinstance(x, ast.Name):
            (loads if isinstance(x.ctx, ast.Load) else stores).setdefault(x.id, []).append(x)
            if isinstance(x.ctx, ast.Del):
                bad.add(x.id)
        elif isinstance(x, ast.ExceptHandler) and x.name:
            bad.add(x.name)
        elif isinstance(x, (ast.Import, ast.ImportFrom)):
            bad |= {(al.asname or al.name).split(".")[0] for al in x.names}
        elif isinstance(x, (ast.Global, ast.Nonlocal)):
            bad |= set(x.names)
        elif isinstance(x, (ast.comprehension, ast.For, ast.AsyncFor)):
            bad |= {y.id for y in ast.walk(x.target) if isinstance(y, ast.Name)}
        elif isinstance(x, (ast.With, ast.AsyncWith)):
            bad |= {y.id for it in x.items if it.optional_vars is not None for y in ast.walk(it.optional_vars) if isinstance(y, ast.Name)}
        elif isinstance(x, (ast.NamedExpr, ast.AugAssign)):
            bad |= {y.id for y in ast.walk(x.target) if isinstance(y, ast.Name) and isinstance(y.ctx, ast.Store)}
        elif isinstance(x, ast.ClassDef):
            bad.add(x.name)
        elif isinstance(x, ast.MatchAs) and x.name:
            bad.add(x.name)
    defs: dict = {}          # name -> {id(cfg node): (cfg node, [store Name nodes])}
    uses: dict = {}          # name -> {id(cfg node): (cfg node, [load Name nodes])}
    for n_ in g.nodes:
        k = g.kind.get(n_)
        if k == "handler":
            continue
        if k == "def":
            if isinstance(n_, ast.ClassDef):
                continue
            defs.setdefault(n_.name, {})[id(n_)] = (n_, [])
            continue
        if k == "stmt" and isinstance(n_, (ast.Assign, ast.AnnAssign)) and n_.value is not None:
            for t in (n_.targets if isinstance(n_, ast.Assign) else [n_.target]):
                for y in ast.walk(t):
                    if isinstance(y, ast.Name) and isinstance(y.ctx, ast.Store):
                        defs.setdefault(y.id, {}).setdefault(id(n_), (n_, []))[1].append(y)
        roots = [it.context_expr for it in n_.items] if k == "with" else [n_]
        for r in roots:
            for y in ast.walk(r):
                if isinstance(y, ast.Name) and isinstance(y.ctx, ast.Load):
                    uses.setdefault(y.id, {}).setdefault(id(n_), (n_, []))[1].append(y)
    order = {id(n_): i for i, n_ in enumerate(g.nodes)}
    taken = _all_names(fn)
    plans = []
    for nm, dn in defs.items():
        if nm in bad or len(dn) < 2:
            continue
        if {id(y) for y in stores.get(nm, [])} != {id(y) for _, ys in dn.values() for y in ys}:
            continue          # bound in some other way as well
        un = uses.get(nm, {})
        if {id(y) for y in loads.get(nm, [])} != {id(y) for _, ys in un.values() for y in ys}:
            continue          # read at a place the flow graph does not model
        root = {k: k for k in list(dn) + ["ENTRY"]}

        def find(k):
            while root[k] != k:
                k = root[k]
            return k
        ok, reach = True, {}
        for uid, (u, _) in un.items():
            rd = [("ENTRY" if d is CFG.ENTRY else id(d)) for d in g.reaching_defs(u, nm)]
            if not rd or any(d not in root for d in rd):
                ok = False
                break
            reach[uid] = rd[0]
            for d in rd[1:]:
                root[find(d)] = find(rd[0])
        if not ok:
            continue
        groups: dict = {}
        for k in dn:
            groups.setdefault(find(k), []).append(k)
        if len(groups) < 2:
            continue
        ranked = sorted(groups.items(), key=lambda kv: (find("ENTRY") != kv[0], min(order[k] for k in kv[1])))
        names = {r: (nm if i == 0 else _fresh(f"{nm}__r{i + 1}", taken)) for i, (r, _) in enumerate(ranked)}
        plans.append(([(n_, ys, names[find(k)]) for k, (n_, ys) in dn.items()], [(ys, names.get(find(reach[uid]), nm)) for uid, (u, ys) in un.items()]))
    for dlist, ulist in plans:
        for n_, ys, new in dlist:
            if isinstance(n_, (ast.FunctionDef, ast.AsyncFunctionDef)) and not ys:
                n_.name = new
            for y in ys:
                y.id = new
        for ys, new in ulist:
            for y in ys:
                y.id = new
    return bool(plans)


def _callable(S, fi, f):
    """(parameter names, returned expression, scope) of a callable expression used in fi: a lambda, or a nested function with a straight-line body"""
    if isinstance(f, ast.Name):
        d = Ctx(S, fi).local_defs().get(f.id)
        if isinstance(d, ast.Lambda):
            f = d
    if isinstance(f, ast.Lambda):
        return [a.arg for a in f.args.args], f.body, fi
    if isinstance(f, ast.Name):
        h = _local_func(S, fi, f.id)
        if h is not None:
            body = [st for st in h.node.body if not (isinstance(st, ast.Expr) and isinstance(st.value, ast.Constant) and isinstance(st.value.value, str))]
            if body and isinstance(body[-1], ast.Return) and body[-1].value is not None and all(isinstance(st, (ast.Assign, ast.AnnAssign)) for st in body[:-1]):
                return h.params(), Ctx(S, h).resolve(body[-1].value, keep=set(h.params()), helpers=False), h
    return None


# ------------------------------------------------------------------------------------------------ the function a scipy solver evaluates, by role
#
# `root_scalar(f, args=(a, b), ..)` / `minimize_scalar(fun, args=(a, b), ..)` evaluate  x -> f(x, a, b).  The function is identified by its role
# (the argument `f` / `fun` of the call): a nested function, a method `self.m`, a module-level function, a lambda, any of them held in a local or
# wrapped in functools.partial (c03._resolve_callable); the values of `args=` are bound to the parameters that follow the unknown (c03._bind writes
# them as assignments at the top of a copy of the body, expressed in the primary names of the calling routine).  Everything downstream reads one
# ordinary one-parameter function; two solver calls evaluate "the same function" when the definition AND every bound value agree.

SOLVER_ARGS_POS = {"root_scalar": 1, "minimize_scalar": 3}


class _SolverFunction:
    def __init__(self, fi, free, base, skip_first):
        self.fi = fi                      # FuncInfo: bound parameters are assigned at the top of the body
        self.free = free                  # the parameters that are still free (without self / cls of a bound method)
        self.base = base                  # the function as defined
        self.skip_first = skip_first

    def ident(self):
        return id(self.base.node), ast.dump(self.fi.node)


def _stable_reads(S, fo, values) -> bool:
    """every local of the routine that a bound value still reads (after its temporaries were replaced by their definitions) is bound at most once in
    the routine: the value does not depend on where in the routine the solver is called"""
    co = Ctx(S, fo)
    for e in values:
        for y in ast.walk(co.resolve(e)):
            if isinstance(y, ast.Name) and y.id not in ("self", "cls") and len(_stores(fo, y.id)) > 1:
                return False
    return True


def _solver_function(S, fo, call, kw: str = "f", pos: int = 0):
    """the _SolverFunction that the solver call `call` of routine fo evaluates, or None when the callable / its `args=` are not understood"""
    from .c03 import _bind, _definition, _resolve_callable
    f = kwarg(call, kw, pos)
    if f is None:
        return None
    try:
        r = _resolve_callable(S, fo, f)
        if r is None:
            return None
        fi = r.fi
        a = fi.node.args
        if a.vararg is not None or a.kwarg is not None:
            return None
        free = [x.arg for x in a.posonlyargs + a.args][1 if r.skip_first else 0:]
        bound = dict(r.bound)
        short = (dotted(call.func) or "").split(".")[-1]
        extra = kwarg(call, "args", SOLVER_ARGS_POS.get(short))
        if extra is not None:
            extra = _definition(Ctx(S, fo), extra)
            # (scipy wraps a non-tuple into a 1-tuple; only the written-out tuple is decoded)
            if not isinstance(extra, ast.Tuple) or any(isinstance(e, ast.Starred) for e in extra.elts) or len(extra.elts) > len(free) - 1:
                return None
            if extra.elts:
                fi, given = _bind(S, fo, fi, [], dict(zip(free[1:], extra.elts)), r.skip_first)
                free = free[:1] + free[1 + len(extra.elts):]
                bound.update(given)
        return _SolverFunction(fi, free, r.base, r.skip_first) if _stable_reads(S, fo, bound.values()) else None
    except Undecided:
        return None


def _solver_callable(S, fo, call, kw: str = "f", pos: int = 0):
    """(free parameter names, returned expression with the bound values and the function's own temporaries substituted, scope) of the function a
    solver call evaluates when its body is straight-line code ending in one return (the counterpart of `_callable` for a callable by role)"""
    sf = _solver_function(S, fo, call, kw, pos)
    if sf is None:
        return None
    h = sf.fi
    body = [st for st in h.node.body if not (isinstance(st, ast.Expr) and isinstance(st.value, ast.Constant) and isinstance(st.value.value, str))]
    if body and isinstance(body[-1], ast.Return) and body[-1].value is not None and all(isinstance(st, (ast.Assign, ast.AnnAssign)) for st in body[:-1]):
        keep = set(sf.free) | {"self", "cls"}
        return list(sf.free), Ctx(S, h).resolve(body[-1].value, keep=keep, helpers=False), h
    return None


def _cidx(sl):
    if isinstance(sl, ast.Constant) and isinstance(sl.value, int) and not isinstance(sl.value, bool):
        return sl.value
    if isinstance(sl, ast.UnaryOp) and isinstance(sl.op, ast.USub) and isinstance(sl.operand, ast.Constant) and isinstance(sl.operand.value, int):
        return -sl.operand.value
    return None


def _subst(node, bind):
    if not bind:
        return node

    class Sb(ast.NodeTransformer):
        def visit_Name(self, x):
            if isinstance(x.ctx, ast.Load) and x.id in bind:
                return copy.deepcopy(bind[x.id])
            return x
    return Sb().visit(copy.deepcopy(node))


def _stores(fi, name: str) -> list:
    """statements of fi (own scope) that bind `name`"""
    out = []
    for st in own_nodes(fi.node):
        tg = []
        if isinstance(st, ast.Assign):
            tg = st.targets
        elif isinstance(st, (ast.AnnAssign, ast.AugAssign)) and getattr(st, "value", None) is not None:
            tg = [st.target]
        elif isinstance(st, (ast.For, ast.comprehension)):
            tg = [st.target]
        elif isinstance(st, ast.NamedExpr):
            tg = [st.target]
        if any(isinstance(x, ast.Name) and x.id == name for t in tg for x in ast.walk(t)):
            out.append(st)
    return out


def _elem(S, fi, e, bind=None, depth: int = 0):
    """(producer, call, k) when expression e (in function fi) denotes element k of the tuple returned by self.<producer>(...): directly
    `self.findMatching(x)[k]`, through a local helper that unpacks and re-packs the tuple, or through tuple unpacking / a copy"""
    if depth > 6:
        return None
    if isinstance(e, ast.Subscript) and _cidx(e.slice) is not None:
        k, base = _cidx(e.slice), e.value
        while isinstance(base, ast.Call) and isinstance(base.func, ast.Name) and base.func.id in ("list", "tuple") and len(base.args) == 1 and not base.keywords:
            base = base.args[0]
        if isinstance(base, ast.Subscript) and isinstance(base.slice, ast.Slice) and base.slice.upper is None and base.slice.step is None \
                and base.slice.lower is not None and _cidx(base.slice.lower) is not None and _cidx(base.slice.lower) >= 0 and k >= 0:
            # (matching[a:])[k] == matching[a + k]
            return _elem(S, fi, ast.Subscript(value=base.value, slice=ast.Constant(value=_cidx(base.slice.lower) + k), ctx=ast.Load()), bind, depth + 1)
        if isinstance(base, ast.Call):
            f = base.func
            if isinstance(f, ast.Attribute) and isinstance(f.value, ast.Name) and f.value.id == "self" and f.attr in PRODUCERS:
                return (f.attr, _subst(base, bind), k % 4) if -4 <= k < 4 else None
            if isinstance(f, ast.Name) and not base.keywords:
                c = _callable(S, fi, f)
                if c is not None and isinstance(c[1], (ast.List, ast.Tuple)) and -len(c[1].elts) <= k < len(c[1].elts) and len(c[0]) == len(base.args):
                    return _elem(S, c[2], c[1].elts[k], dict(zip(c[0], [_subst(a, bind) for a in base.args])), depth + 1)
                if c is not None and len(c[0]) == len(base.args) and not isinstance(c[1], (ast.List, ast.Tuple)):
                    # the helper hands on (a slice of) the tuple itself
                    return _elem(S, c[2], ast.Subscript(value=c[1], slice=e.slice, ctx=ast.Load()), dict(zip(c[0], [_subst(a, bind) for a in base.args])), depth + 1)
            return None
        if isinstance(base, ast.Name) and not (bind and base.id in bind):
            st = _stores(fi, base.id)
            if len(st) == 1 and isinstance(st[0], ast.Assign) and len(st[0].targets) == 1 and isinstance(st[0].targets[0], ast.Name):
                return _elem(S, fi, ast.Subscript(value=st[0].value, slice=e.slice, ctx=ast.Load()), bind, depth + 1)
        return None
    if isinstance(e, ast.Name) and not (bind and e.id in bind):
        st = _stores(fi, e.id)
        if len(st) != 1 or not isinstance(st[0], ast.Assign) or len(st[0].targets) != 1:
            return None
        t, v = st[0].targets[0], st[0].value
        if isinstance(t, (ast.Tuple, ast.List)):
            pos = [i for i, x in enumerate(t.elts) if isinstance(x, ast.Name) and x.id == e.id]
            if len(pos) == 1 and not any(isinstance(x, ast.Starred) for x in t.elts):
                return _elem(S, fi, ast.Subscript(value=v, slice=ast.Constant(value=pos[0]), ctx=ast.Load()), bind, depth + 1)
            return None
        if isinstance(t, ast.Name):
            return _elem(S, fi, v, bind, depth + 1)
    return None


def _elem_minus_bound(S, scope, ret, bounds):
    """ret is (a spelling of) `<element k of a matching> - <bound>`: ((producer, call, k), bound) else None"""
    for x in ast.walk(ret):
        if isinstance(x, (ast.Subscript, ast.Name)):
            el = _elem(S, scope, x)
            if el is None:
                continue
            for b in bounds:
                if same(ret, ast.BinOp(left=x, op=ast.Sub(), right=parse_pattern(b))):
                    return el, b
    return None


def _side_conflicts(S, fq) -> list:
    """comparisons / differences between a temperature of a matching (element 2 = T+, 3 = T-) and a range bound of the other phase"""
    out = []
    scopes = [fq] + _nested_funcs(S, fq, 2)
    # a parametrised function handed to a solver with `args=`: read per call site, with the bound values in place of its parameters
    for short, kw in (("root_scalar", "f"), ("minimize_scalar", "fun")):
        for c in calls_in(fq.node, short):
            sf = _solver_function(S, fq, c, kw, 0) if kwarg(c, "args", SOLVER_ARGS_POS[short]) is not None else None
            if sf is None:
                continue
            node, cs = copy.deepcopy(sf.fi.node), Ctx(S, sf.fi)
            for r in own_nodes(node):
                if isinstance(r, ast.Return) and r.value is not None:
                    r.value = cs.resolve(r.value, keep=set(sf.free) | {"self", "cls"}, helpers=False)
            scopes.append(FuncInfo(sf.fi.module, sf.fi.qual, ast.fix_missing_locations(node), sf.fi.cls, sf.fi.parent))
    for sc in scopes:
        for x in own_nodes(sc.node):
            pair = None
            if isinstance(x, ast.Compare) and len(x.comparators) == 1:
                pair = (x.left, x.comparators[0])
            elif isinstance(x, ast.BinOp) and isinstance(x.op, ast.Sub):
                pair = (x.left, x.right)
            if pair is None:
                continue
            for a, b in (pair, pair[::-1]):
                sb = attr_side(dotted(b) or "")
                if sb is None:
                    continue
                el = _elem(S, sc, a) if isinstance(a, (ast.Subscript, ast.Name)) else None
                sa = ELEM_SIDE.get(el[2]) if el else None
                if sa and sa != sb:
                    out.append((x, f"`{n(x)}` relates a T{sa} value (element {el[2]} of {el[0]}) to a T{sb} bound"))
    return out


# ------------------------------------------------------------------------------------------------ rules


def r06_1(chk: Check):
    S = chk.src
    ex, fj, vpvm, vpovm = junction_terms(S)
    fo = S.func(f"{HY}.findJouguetVelocity")
    cxo = Ctx(S, fo)
    roots = calls_in(fo.node, "root_scalar")
    # the function whose root is searched, by role (with the values of `args=` bound): every root_scalar call evaluates the same one
    sfs = [_solver_function(S, fo, c) for c in roots]
    if not roots or any(s_ is None for s_ in sfs):
        raise AnchorMissing("findJouguetVelocity: the function handed to the root_scalar call(s) not found")
    same_fn = len({s_.ident() for s_ in sfs}) == 1          # (reported with the root obligation below)
    if len(sfs[0].free) != 1:
        raise AnchorMissing("findJouguetVelocity: the one-parameter function handed to root_scalar not found")
    fd = sfs[0].fi
    chk.touch(fo.name, fd.name)
    exo = hydro_extractor(S)
    outer = {"__module__": "hydrodynamics", "__class__": "Hydrodynamics"}
    for st in fo.node.body:
        # the straight-line prologue (the closure may be defined before or after the data it captures)
        if isinstance(st, ast.FunctionDef) or (isinstance(st, ast.Expr) and isinstance(st.value, ast.Constant)):
            continue
        if not isinstance(st, (ast.Assign, ast.AnnAssign)):
            break
        for e_, g_, o_ in exo.stmt(st, outer, [], 0):
            outer = e_
    Tn = exo.sym("self.Tnucl")
    tm = exo.sym("tm")
    val = exo.single(fd, {sfs[0].free[0]: tm}, outer)
    pH, eH = th("pHighT")(Tn), th("eHighT")(Tn)
    front = {a for a in val.atoms(sp.Function) if isinstance(a, sp.core.function.AppliedUndef) and a.func.__name__.startswith("thermodynamics.") and a.func.__name__.endswith("HighT")}
    chk.ob("R06.1", fo.where(), "the high-T data of the Jouguet condition are p+(Tn), e+(Tn) (undisturbed plasma in front of a detonation)",
           front == {pH, eH}, str(sorted(map(str, front))), key="front-data")
    pLf, eLf = sp.Function("pLf"), sp.Function("eLf")
    N = (pH - pLf(tm)) * (pH + eLf(tm))
    D = (eH - eLf(tm)) * (eH + pLf(tm))
    ref = sp.diff(N, tm) * D - N * sp.diff(D, tm)
    ref = ref.subs({sp.Derivative(pLf(tm), tm): th("dpLowT")(tm), sp.Derivative(eLf(tm), tm): th("deLowT")(tm)})
    ref = ref.replace(pLf, lambda a: th("pLowT")(a)).replace(eLf, lambda a: th("eLowT")(a))
    ok, how = is_zero(val - ref, chk.seed)
    chk.ob("R06.1", fd.where(), "vpDerivNum == N' D - N D' for v+^2 = N/D, N = (p+ - p-)(p+ + e-), D = (e+ - e-)(e+ + p-), with p-' = dpLowT, e-' = deLowT",
           ok, how, key="numerator", how=how)
    # the result object(s) of the root solve, and what counts as "the root"
    RES = {st.targets[0].id for st in own_nodes(fo.node) if isinstance(st, ast.Assign) and st.value in roots and isinstance(st.targets[0], ast.Name)}

    def is_root(name: str, depth=0) -> bool:
        if name.endswith(".root") and name[:-5] in RES:
            return all(isinstance(s_, ast.Assign) and s_.value in roots for s_ in _stores(fo, name[:-5]))
        st = _stores(fo, name) if "." not in name else []
        return bool(st) and depth < 3 and all(isinstance(s_, (ast.Assign, ast.AnnAssign)) and s_.value is not None and dotted(s_.value) is not None
                                               and is_root(dotted(s_.value), depth + 1) for s_ in st)
    # returned value
    rets = [r for r in own_nodes(fo.node) if isinstance(r, ast.Return)]
    okr = None
    how = "return value not understood"
    if len(rets) == 1:
        v = exo.expr(cxo.resolve(rets[0].value), dict(outer))
        if isinstance(v, sp.Basic):
            # the temperature behind the wall at which the low-T data are taken
            tms = {a.args[0] for a in v.atoms(sp.Function) if isinstance(a, sp.core.function.AppliedUndef) and a.func.__name__ in ("thermodynamics.pLowT", "thermodynamics.eLowT")}
            if len(tms) == 1 and isinstance(next(iter(tms)), sp.Symbol) and is_root(next(iter(tms)).name):
                ts = tms.pop()
                Tp, Tm = ex.sym("Tp"), ex.sym("Tm")
                A = drop_ite(vpvm * vpovm).subs({Tp: Tn, Tm: ts}, simultaneous=True)
                okr, how = is_zero(sp.expand(v**2) - A, chk.seed)
            else:
                okr, how = False, f"low-T data are not taken at the root of the Jouguet condition: {sorted(map(str, tms))}"
    chk.ob("R06.1", fo.where(), "the returned vJ satisfies vJ^2 == vpvm*vpovm(Tn, T-sol): it is v+ (= vw) of the detonation at the stationary point", okr, how,
           key="vJ-value", how=how)
    g = CFG(fo.node)
    raises = len(RES) == 1 and _never_returns_when(g, f"{next(iter(RES))}.converged", None, False) if RES else False
    chk.ob("R06.1", fo.where(), "T-sol is the root of vpDerivNum (bracketed or secant) and a non-converged root raises", bool(raises) and same_fn,
           "" if same_fn else "the root searches evaluate different functions (or the same function with different bound arguments)", key="root")
    okb = False
    for c in roots:
        b = kwarg(c, "bracket")
        if b is not None and isinstance(b, (ast.List, ast.Tuple)) and len(b.elts) == 2 and eqx(b.elts[0], "self.Tnucl", cxo) and isinstance(b.elts[1], ast.Name):
            # upper end: a local that is always capped by TMaxHydro
            st = _stores(fo, b.elts[1].id)
            okb = bool(st) and all(isinstance(s_, ast.Assign) and isinstance(s_.value, ast.Call) and eqx(s_.value.func, "min") and any(eqx(a, "self.TMaxHydro") for a in s_.value.args) for s_ in st)
    chk.ob("R06.1", fo.where(), "the bracket starts at Tn (T- >= Tn for detonations)", okb, key="bracket")
    chk.floor("R06.1", 5)


def r06_2(chk: Check):
    S = chk.src
    fjv = S.func(f"{TM}.findJouguetVelocity")
    fdt = S.func(f"{TM}.detonationVAndT")
    chk.touch(fjv.name, fdt.name)
    ex = hydro_extractor(S)
    cb = sp.Symbol("cb", positive=True)
    al = sp.Symbol("alpha", positive=True)
    pj = [p for p in fjv.params() if p != "self"]
    if len(pj) != 1:
        raise AnchorMissing("template findJouguetVelocity(alN): parameter list changed")
    ps = [p for p in ex.paths(fjv, {pj[0]: al}) if p.raised is None]
    vJ = ps[-1].value
    sub = {ex.sym("self.cb"): cb, ex.sym("self.cb2"): cb**2, ex.sym("self.alN"): al}
    vJ = vJ.subs(sub)
    want = cb * (1 + sp.sqrt(3 * al * (1 - cb**2 + 3 * cb**2 * al))) / (1 + 3 * cb**2 * al)
    ok, how = is_zero(vJ - want, chk.seed)
    chk.ob("R06.2", fjv.where(), "template vJ == cb (1 + sqrt(3 a (1 - cb^2 + 3 cb^2 a)))/(1 + 3 cb^2 a)", ok, how, key="vJ-closed-form", how=how)
    pdt = [p for p in fdt.params() if p != "self"]
    vw = ex.sym("vw")
    pd = [p for p in ex.paths(fdt, {pdt[0]: vw} if len(pdt) == 1 else None) if p.raised is None]
    if len(pd) != 1:
        raise Undecided("detonationVAndT: path")
    vp, vm, Tp, Tm = pd[0].value
    # v- = (part + sqrt(disc)) / (2 v+): the radicand is the discriminant, `part` the rational part (read off the returned term, not a local)
    rads = [a for a in vm.atoms(sp.Pow) if a.exp == sp.Rational(1, 2)]
    if len(rads) != 1:
        raise Undecided(f"detonationVAndT: v- is not of the form (part + sqrt(disc))/(2 v+): {vm}")
    r_ = sp.Symbol("r__", positive=True)
    vm_r = vm.xreplace({rads[0]: r_})
    coef = sp.simplify(sp.diff(vm_r, r_))
    part = sp.simplify(2 * vp * vm_r.subs(r_, 0))
    disc_ok = is_zero(rads[0].base - (part**2 - 4 * ex.sym("self.cb2") * vp**2), chk.seed)[0] and not coef.has(r_)
    disc = rads[0].base.subs(sub).subs(vw, want)
    ok, how = is_zero(sp.simplify(disc), chk.seed)
    chk.ob("R06.2", fdt.where(), "at vw = vJ the discriminant of the detonation branch vanishes (vJ is where the branch begins)", bool(ok) and bool(disc_ok), how,
           key="discriminant", how=how)
    vmJ = vm.subs(sub).subs(vw, want)
    ok, how = is_zero(sp.simplify(vmJ**2 - cb**2), chk.seed)
    if ok is None:
        ok, how = is_zero(sp.simplify(sp.expand(vmJ**2 - cb**2)), chk.seed)
    chk.ob("R06.2", fdt.where(), "at vw = vJ the detonation leaves at the sound speed: v- == cb (Chapman-Jouguet point)", ok, how, key="CJ", how=how)
    chk.ob("R06.2", fdt.where(), "template detonation: v+ = vw, T+ = Tnucl", vp == vw and Tp == ex.sym("self.Tnucl"), f"{vp}, {Tp}", key="deton-front")
    # branch sign: '+' root (weak detonation: v- > cb... the larger root)
    plus = is_zero(coef - 1 / (2 * vp), chk.seed)[0] and disc_ok
    chk.ob("R06.2", fdt.where(), "template detonation takes the '+' root (weak branch, v- >= cb)", bool(plus), str(vm)[:120], key="weak-root")
    chk.floor("R06.2", 5)


def _branch_calls(g: CFG, fi, short: str) -> list:
    """CFG nodes of fi containing a call of self.<short>"""
    return [x for x in g.nodes if g.kind.get(x) not in ("def", "handler") and not isinstance(x, (ast.FunctionDef, ast.ClassDef))
            and any(isinstance(c, ast.Call) and eqx(c.func, f"self.{short}") for c in ast.walk(x))]


def r06_3(chk: Check):
    S = chk.src
    fm = S.func(f"{HY}.findMatching")
    chk.touch(fm.name)
    vw = [p for p in fm.params() if p != "self"][0]
    g = CFG(fm.node)
    COND, NEG = f"{vw} > self.vJ", f"{vw} <= self.vJ"
    det, dfl = _branch_calls(g, fm, "matchDeton"), _branch_calls(g, fm, "matchDeflagOrHyb")
    ok = bool(det) and bool(dfl) and all(_only_when(g, x, COND, NEG, True) for x in det) and all(_only_when(g, x, COND, NEG, False) for x in dfl)
    chk.ob("R06.3", fm.where(), "Hydrodynamics.findMatching takes the detonation branch iff vw > vJ", ok, key="class|Hydrodynamics")
    ft = S.func(f"{TM}.findMatching")
    chk.touch(ft.name)
    vwt = [p for p in ft.params() if p != "self"][0]
    gt = CFG(ft.node)
    det = _branch_calls(gt, ft, "detonationVAndT")
    dfl = _branch_calls(gt, ft, "_shooting") + _branch_calls(gt, ft, "_findTm")
    ok = bool(det) and bool(dfl) and all(_only_when(gt, x, f"{vwt} > self.vJ", f"{vwt} <= self.vJ", True) for x in det) \
        and all(_only_when(gt, x, f"{vwt} > self.vJ", f"{vwt} <= self.vJ", False) for x in dfl)
    chk.ob("R06.3", ft.where(), "template findMatching takes the detonation branch iff vw > vJ", ok, key="class|template")
    fe = S.func("equationOfMotion:EOM.solveWall")
    ge = CFG(fe.node)
    ce = Ctx(S, fe)
    # the reported velocity: the `wallVelocity` handed to results.setWallVelocities
    rep = [kwarg(c, "wallVelocity", 0) for c in calls_in(fe.node, "setWallVelocities")]
    rep = [a for a in rep if a is not None and not (isinstance(a, ast.Constant) and a.value is None)]
    okc = False
    if len(rep) == 1:
        WV = n(rep[0])
        POS, NEG = f"{WV} > self.hydrodynamics.vJ", f"{WV} <= self.hydrodynamics.vJ"
        lab = [x for x in ge.nodes if isinstance(x, ast.Assign) and eqx(x.value, "ESolutionType.DETONATION")]
        okc = len(lab) == 1 and _only_when(ge, lab[0], POS, NEG, True, ce)
        if not lab:
            # conditional expression: label = DETONATION if v > vJ else <other>
            sel = [x.value for x in ge.nodes if isinstance(x, ast.Assign) and isinstance(x.value, ast.IfExp) and has(x.value, "ESolutionType.DETONATION")]
            okc = len(sel) == 1 and ((_pol(sel[0].test, POS, NEG, ce) is True and eqx(sel[0].body, "ESolutionType.DETONATION") and not has(sel[0].orelse, "ESolutionType.DETONATION"))
                                     or (_pol(sel[0].test, POS, NEG, ce) is False and eqx(sel[0].orelse, "ESolutionType.DETONATION") and not has(sel[0].body, "ESolutionType.DETONATION")))
    chk.ob("R06.3", fe.where(), "the wall solver labels a solution DETONATION iff its velocity exceeds vJ", okc, key="class|EOM")
    fw = S.func("equationOfMotion:EOM.wallPressure")
    wv = [p for p in fw.params() if p != "self"][0]
    gw = CFG(fw.node)
    okw = any(isinstance(t, ast.Compare) and _pol(t, f"{wv} > self.hydrodynamics.vJ", f"{wv} <= self.hydrodynamics.vJ", Ctx(S, fw)) is not None for t in own_nodes(fw.node))
    chk.ob("R06.3", fw.where(), "the pressure iteration switches algorithm at the same threshold", okw, key="class|wallPressure")
    chk.floor("R06.3", 4)


def _is_vm(e, vwname: str, cx) -> bool:
    return e is not None and (eqx(e, f"min(self.cb, {vwname})", cx) or eqx(e, f"min({vwname}, self.cb)", cx))


def _vm_args(S, f_, cx, vwname: str) -> tuple[int, list]:
    """the values handed as v- (parameter `vm`) to the template's matching helpers inside f_: (count, the ones that are not min(cb, vw))"""
    HELP = {"_findTm": 0, "_eqWall": 1, "getVp": 0}
    bad, cnt = [], 0
    for c in own_nodes(f_.node):
        if isinstance(c, ast.Call) and isinstance(c.func, ast.Attribute) and isinstance(c.func.value, ast.Name) and c.func.value.id == "self" and c.func.attr in HELP:
            a = kwarg(c, "vm", HELP[c.func.attr])
            if a is None:
                continue
            cnt += 1
            if not _is_vm(a, vwname, cx):
                bad.append(n(c))
    return cnt, bad


def r06_4(chk: Check):
    S = chk.src
    ft = S.func(f"{TM}.findMatching")
    ct = Ctx(S, ft)
    vw = [p for p in ft.params() if p != "self"][0]
    # v- of the deflagration / hybrid branch: element 1 of the returned (v+, v-, T+, T-), and the v- handed to _findTm
    rets = [r for r in own_nodes(ft.node) if isinstance(r, ast.Return) and isinstance(r.value, ast.Tuple) and len(r.value.elts) == 4
            and not all(isinstance(e, ast.Constant) and e.value is None for e in r.value.elts)]
    cnt, bad = _vm_args(S, ft, ct, vw)
    ok = len(rets) >= 1 and all(_is_vm(r.value.elts[1], vw, ct) for r in rets) and cnt >= 1 and not bad
    chk.ob("R06.4", ft.where(), "template: v- = min(cb, vw)", ok, "; ".join(bad), key="vm|template")
    for name in ("solveAlpha", "_shooting", "matchDeflagOrHybInitial"):
        f_ = S.func(f"{TM}.{name}")
        chk.touch(f_.name)
        cx = Ctx(S, f_)
        pw = [p for p in f_.params() if p != "self"][0]
        cnt, bad = _vm_args(S, f_, cx, pw)
        ok = cnt >= 1 and not bad
        if name == "solveAlpha":
            # ... and the (vm, branch) argument tuple of the root solve over _eqWall
            rs = [c for c in calls_in(f_.node, "root_scalar")]
            arg = kwarg(rs[0], "args", 1) if len(rs) == 1 else None
            arg = cx.resolve(arg) if arg is not None else None
            ok = ok and isinstance(arg, ast.Tuple) and len(arg.elts) >= 1 and _is_vm(arg.elts[0], pw, cx)
        if name == "_shooting":
            # no helper takes v- here: it enters through alpha_+ = (v+/v- - 1)(v+ v-/cb^2 - 1)/(1 - v+^2)/3 handed to wFromAlpha
            pv = [p for p in f_.params() if p != "self"][1]
            wf = [c for c in calls_in(f_.node, "wFromAlpha")]
            a = kwarg(wf[0], "al", 0) if len(wf) == 1 else None
            ok = a is not None and bool(same_term(S, "hydrodynamicsTemplateModel", "HydrodynamicsTemplateModel", cx.resolve(a),
                                                  f"({pv} / min(self.cb, {pw}) - 1) * ({pv} * min(self.cb, {pw}) / self.cb2 - 1) / (1 - {pv}**2) / 3"))
        chk.ob("R06.4", f_.where(), f"template {name}: v- = min(cb, vw)", ok, "; ".join(bad), key=f"vm|{name}")
    # full solver: the matching residual (R02.2) and the post-solve value (R05.1) use min(vw^2, csqLowT(T-)); here: both sites agree
    fo = S.func(f"{HY}.matchDeflagOrHyb")
    co = Ctx(S, fo)
    VW = [p for p in fo.params() if p != "self"][0]
    forms = {}
    # (a) after the solve: the returned v- (element 1) is sqrt(max(min(vw^2, csqLowT(T-)), 0)) with T- the returned element 3
    rets = [r for r in own_nodes(fo.node) if isinstance(r, ast.Return) and isinstance(r.value, ast.Tuple) and len(r.value.elts) == 4]
    if len(rets) == 1 and isinstance(rets[0].value.elts[3], ast.Name):
        TmN = rets[0].value.elts[3].id
        forms["post-solve"] = eqx(rets[0].value.elts[1], f"np.sqrt(max(min({VW}**2, self.thermodynamics.csqLowT({TmN})), 0))", co)
    # (b) inside the residual handed to the 2x2 solver: min(vw^2, csqLowT(T-)) with T- = element 1 of the inverse-mapped unknowns
    rc = [c for c in calls_in(fo.node, "root") if (dotted(c.func) or "") in ("root", "scipy.optimize.root", "optimize.root")]
    fres = _local_func(S, fo, kwarg(rc[0], "fun", 0).id) if len(rc) == 1 and isinstance(kwarg(rc[0], "fun", 0), ast.Name) else None
    if fres is not None and len(fres.params()) == 1:
        cr = Ctx(S, fres)
        X = fres.params()[0]
        mins = [c for c in ast.walk(fres.node) if isinstance(c, ast.Call) and eqx(c.func, "min") and has(c, "self.thermodynamics.csqLowT")]
        forms["residual"] = len(mins) >= 1 and all(eqx(c, f"min({VW}**2, self.thermodynamics.csqLowT(self._inverseMappingT({X})[1]))", cr) for c in mins)
        if not forms["residual"]:
            # unpacked form: (Tp, Tm) = self._inverseMappingT(x)
            for st in own_nodes(fres.node):
                if isinstance(st, ast.Assign) and isinstance(st.targets[0], (ast.Tuple, ast.List)) and len(st.targets[0].elts) == 2 and isinstance(st.targets[0].elts[1], ast.Name) \
                        and eqx(st.value, f"self._inverseMappingT({X})", cr):
                    forms["residual"] = len(mins) >= 1 and all(eqx(c, f"min({VW}**2, self.thermodynamics.csqLowT({st.targets[0].elts[1].id}))", cr) for c in mins)
    chk.ob("R06.4", fo.where(), "both sites of matchDeflagOrHyb set v-^2 = min(vw^2, csqLowT(T-))", forms.get("post-solve") is True and forms.get("residual") is True,
           str(forms), key="vm|both-sites")
    chk.floor("R06.4", 5)


def r06_5(chk: Check):
    S = chk.src
    fo = S.func(f"{HY}.matchDeton")
    chk.touch(fo.name)
    cx = Ctx(S, fo)
    g = CFG(fo.node)
    mins = calls_in(fo.node, "minimize_scalar")
    roots = calls_in(fo.node, "root_scalar")
    # (by role: the function handed to each solver with the solver's `args=` bound -- the same definition evaluated with the same bound values)
    fmin = _solver_function(S, fo, mins[0], "fun", 0) if len(mins) == 1 else None
    froot = _solver_function(S, fo, roots[0], "f", 0) if len(roots) == 1 else None
    ok = fmin is not None and froot is not None and fmin.ident() == froot.ident() and len(fmin.free) == 1
    chk.ob("R06.5", fo.where(), "the detonation root and the bracketing minimisation use the same residual function", ok, key="same-residual")
    M = [st.targets[0].id for st in own_nodes(fo.node) if isinstance(st, ast.Assign) and mins and st.value is mins[0] and isinstance(st.targets[0], ast.Name)]
    R = [st.targets[0].id for st in own_nodes(fo.node) if isinstance(st, ast.Assign) and roots and st.value is roots[0] and isinstance(st.targets[0], ast.Name)]
    b = kwarg(roots[0], "bracket") if roots else None
    ok = b is not None and len(M) == 1 and (eqx(b, f"[self.Tnucl, {M[0]}.x]", cx) or eqx(b, f"(self.Tnucl, {M[0]}.x)", cx))
    chk.ob("R06.5", fo.where(), "the root is bracketed by [Tn, argmin residual]: the weak (lower-temperature) branch", ok, n(b) if b is not None else "",
           key="weak-bracket")
    bm = kwarg(mins[0], "bounds", 2) if mins else None
    ok = bm is not None and (eqx(bm, "[self.Tnucl, self.TMaxHydro]", cx) or eqx(bm, "(self.Tnucl, self.TMaxHydro)", cx))
    chk.ob("R06.5", fo.where(), "the minimisation runs over [Tn, TMaxHydro]", ok, key="min-bounds")
    r1 = r2 = r3 = False
    if len(M) == 1 and len(R) == 1:
        r1 = _never_returns_when(g, f"{M[0]}.fun > 0", f"{M[0]}.fun <= 0", True)
        r2 = _never_returns_when(g, f"{M[0]}.success", None, False)
        r3 = _never_returns_when(g, f"{R[0]}.converged", None, False)
    chk.ob("R06.5", fo.where(), "no sign change (minimum residual > 0), failed minimisation and non-converged root all raise", r1 and r2 and r3,
           f"minimum > 0 raises: {r1}; failed minimisation raises: {r2}; non-converged root raises: {r3}", key="raises")
    chk.floor("R06.5", 4)


def _root_vars(S, fq) -> list:
    """[(variable assigned `root_scalar(F, ...).root`, the call, F)] of fq"""
    out = []
    calls = calls_in(fq.node, "root_scalar")
    for c in calls:
        var = None
        for st in own_nodes(fq.node):
            if isinstance(st, ast.Assign) and len(st.targets) == 1 and isinstance(st.targets[0], ast.Name):
                v = st.value
                if isinstance(v, ast.Attribute) and v.attr == "root" and v.value is c:
                    var = st.targets[0].id
                elif v is c:
                    # result object kept in a local: R = root_scalar(...); the velocity is R.root
                    var = f"{st.targets[0].id}.root"
        out.append((var, c, kwarg(c, "f", 0)))
    return out


def r06_6(chk: Check):
    S = chk.src
    # (read in its written-out form: a loop over the two phases is written out case by case, tests between literals left behind by a closure
    # that was evaluated per call site are decided, result slots and re-used locals become one local per root search)
    ff = written_out(S, S.func(f"{HY}.fastestDeflag"))
    chk.touch(ff.name)
    cf = Ctx(S, ff)
    BOUNDS = ("self.TMaxLowT", "self.TMaxHighT")
    rets = sorted([r for r in own_nodes(ff.node) if isinstance(r, ast.Return)], key=lambda r: r.lineno)
    # the two range-limited velocities: roots of T-(vw) - TMaxLowT and of T+(vw) - TMaxHighT
    kinds = {}
    shown = []
    for var, c, F in _root_vars(S, ff):
        cl = _solver_callable(S, ff, c) if F is not None else None
        hit = _elem_minus_bound(S, cl[2], cl[1], BOUNDS) if cl is not None and len(cl[0]) == 1 else None
        if hit is not None:
            (prod, call, k), bound = hit
            shown.append(f"{prod}[{k}] - {bound}")
            if prod == "findMatching" and eqx(kwarg(call, "vwTry", 0), cl[0][0]):
                kinds[(k, bound)] = var if (k, bound) not in kinds else None
        else:
            shown.append(n(cl[1]) if cl else "?")
    okc = set(kinds) == {(3, "self.TMaxLowT"), (2, "self.TMaxHighT")} and len(shown) == 2
    V1, V2 = kinds.get((3, "self.TMaxLowT")), kinds.get((2, "self.TMaxHighT"))
    early = [r for r in rets if eqx(r.value, "self.vJ")]
    # (the two roots must live in two variables: one variable overwritten by the second search keeps only the last limit found)
    # (a plain copy `vmax1 = <the root's local>` between the search and the return is looked through)
    roots_kept = {v.split(".")[0] for v in (V1, V2) if v}
    final = [r for r in rets if r not in early and V1 and V2 and V1 != V2
             and any(same_term(S, "hydrodynamics", "Hydrodynamics", v, f"min({V1}, {V2})") for v in (r.value, cf.resolve(r.value, keep=roots_kept, helpers=False)))]
    chk.ob("R06.6", ff.where(), "fastestDeflag returns the smaller of the two range-limited velocities", len(final) >= 1,
           "; ".join(n(r.value) for r in rets if r not in early), key="fastest|min")
    # vmax1 from the T- root against TMaxLowT, vmax2 from the T+ root against TMaxHighT  (sides: R02.4); here: flags
    g = CFG(ff.node)
    flags = set()
    nstores = 0
    for x in g.nodes:
        if isinstance(x, ast.Assign) and isinstance(x.targets[0], ast.Subscript) and eqx(x.targets[0].value, "self.doesPhaseTraceLimitvmax") and eqx(x.value, "True"):
            nstores += 1
            k = _cidx(x.targets[0].slice)
            for ph in ("Low", "High"):
                GEN = f"self.thermodynamics.freeEnergy{ph}.maxPossibleTemperature[1]"
                if _only_when(g, x, GEN, None, False) or _only_when(g, x, GEN, None, False, cf):
                    flags.add((k, ph))
    chk.ob("R06.6", ff.where(), "doesPhaseTraceLimitvmax[k] is raised only when phase k's upper range end is not a genuine end of the phase "
           "(index 0 = high-T, 1 = low-T)", flags == {(1, "Low"), (0, "High")} and nstores == 2, str(sorted(flags)), key="fastest|flags")
    chk.ob("R06.6", ff.where(), "the two velocities are the roots of T-(vw) = TMaxLowT and T+(vw) = TMaxHighT", okc, "; ".join(shown), key="fastest|roots")
    chk.ob("R06.6", ff.where(), "vJ is returned when both temperatures stay inside their ranges just below vJ", len(early) == 1, key="fastest|vJ")
    other = [r for r in rets if r not in final and r not in early]
    chk.ob("R06.6", ff.where(), "fastestDeflag has no other exit: a velocity limited by one phase range is never returned before the other range was examined",
           not other, "; ".join(f"line {r.lineno}: return {n(r.value)}" for r in other), key="fastest|exits")
    for q in ("fastestDeflag", "slowestDeton"):
        fq = written_out(S, S.func(f"{HY}.{q}"))
        conf = SideTyper(fq.node).conflicts() + _side_conflicts(S, fq)
        chk.ob("R06.6", fq.where(), f"{q}: T- is compared with the low-T range and T+ with the high-T range", not conf,
               "; ".join(sorted({f"line {c.lineno}: {m}" for c, m in conf}))[:300], key=f"sides|{q}")
    fe = S.func("equationOfMotion:EOM.findWallVelocityDeflagrationHybrid")
    chk.touch(fe.name)
    ce = Ctx(S, fe)
    call = [c for c in calls_in(fe.node, "solveWall")]
    lo = kwarg(call[0], "wallVelocityMin", 0) if len(call) == 1 else None
    hi = kwarg(call[0], "wallVelocityMax", 1) if len(call) == 1 else None
    ends = [ce.resolve(a) if a is not None else None for a in (lo, hi)]
    m = {"vmin": n(ends[0]) if ends[0] is not None else "", "vmax": n(ends[1]) if ends[1] is not None else ""}

    def is_top(e):
        return e is not None and bool(same_term(S, "equationOfMotion", "EOM", e, "min(self.hydrodynamics.vJ, self.hydrodynamics.fastestDeflag())"))

    def is_bottom(e):
        return e is not None and bool(same_term(S, "equationOfMotion", "EOM", e, "self.hydrodynamics.vMin"))
    ok = any(is_top(e) for e in ends) and any(is_bottom(e) for e in ends)
    chk.ob("R06.6", fe.where(), "the wall solver searches [vMin, min(vJ, fastestDeflag())]", ok, str(m), key="window")
    chk.ob("R06.6", fe.where(), "and passes that window to solveWall in (min, max) order", is_bottom(ends[0]) and is_top(ends[1]), key="window-order")
    fs = S.func(f"{HY}.slowestDeton")
    chk.touch(fs.name)
    rets = [r for r in own_nodes(fs.node) if isinstance(r, ast.Return)]
    rv = _root_vars(S, fs)
    ok = False
    shown = [n(r.value) for r in rets]
    if len(rv) == 1 and rv[0][0]:
        V, c, F = rv[0]
        cl = _solver_callable(S, fs, c) if F is not None else None
        hit = _elem_minus_bound(S, cl[2], cl[1], BOUNDS) if cl is not None and len(cl[0]) == 1 else None
        okF = hit is not None and hit[0][0] == "findMatching" and hit[0][2] == 3 and hit[1] == "self.TMaxLowT" and eqx(kwarg(hit[0][1], "vwTry", 0), cl[0][0])
        ex = Extractor(S)
        env = {"__module__": "hydrodynamics", "__class__": "Hydrodynamics"}
        margin = False
        cs = Ctx(S, fs)
        for r in rets:
            v = cs.resolve(r.value, keep={V.split(".")[0]}) if r.value is not None else None
            while isinstance(v, ast.Call) and eqx(v.func, "float") and len(v.args) == 1:
                v = v.args[0]
            if isinstance(v, ast.Call) and eqx(v.func, "min") and len(v.args) == 2 and any(eqx(a, "1") for a in v.args):
                o = [a for a in v.args if not eqx(a, "1")]
                if len(o) == 1:
                    try:
                        d = ex.expr(o[0], dict(env)) - ex.expr(parse_pattern(V), dict(env))
                        margin = margin or (isinstance(d, sp.Basic) and d.is_number and d > 0)
                    except Exception:
                        pass
        ok = okF and margin and any(eqx(r.value, "1") for r in rets) and any(eqx(r.value, "self.vJ") for r in rets)
    chk.ob("R06.6", fs.where(), "slowestDeton returns 1, vJ or the range-limited root (plus its safety margin, capped at 1)", ok, str(shown), key="slowest")
    roots = calls_in(fs.node, "root_scalar")
    ok = False
    if len(roots) == 1:
        b = kwarg(roots[0], "bracket")
        b = Ctx(S, fs).resolve(b) if b is not None else None
        if isinstance(b, (ast.List, ast.Tuple)) and len(b.elts) == 2:
            try:
                ex = Extractor(S)
                env = {"__module__": "hydrodynamics", "__class__": "Hydrodynamics"}
                d = ex.expr(b.elts[0], dict(env)) - ex.sym("self.vJ")
                ok = isinstance(d, sp.Basic) and d.is_number and bool(d > 0)
            except Exception:
                ok = False
    chk.ob("R06.6", fs.where(), "its root is searched above vJ only", ok, key="slowest|bracket")
    fi = S.func(f"{HY}.__init__")
    d = [st for st in own_nodes(fi.node) if isinstance(st, ast.Assign) and eqx(st.targets[0], "self.vMin")]
    ok = len(d) == 1 and same_term(S, "hydrodynamics", "Hydrodynamics", Ctx(S, fi).resolve(d[0].value), "max(self.vBracketLow, self.minVelocity())")
    chk.ob("R06.6", fi.where(), "vMin = max(vBracketLow, minVelocity())", ok, key="vMin")
    fmn = S.func(f"{HY}.minVelocity")
    chk.touch(fmn.name)
    cm = Ctx(S, fmn)
    roots = calls_in(fmn.node, "root_scalar")
    ok = False
    if len(roots) == 1:
        cl = _solver_callable(S, fmn, roots[0]) if kwarg(roots[0], "f", 0) is not None else None
        b = kwarg(roots[0], "bracket")
        ok = cl is not None and len(cl[0]) == 1 and eqx(cl[1], f"self.strongestShock({cl[0][0]}) - self.Tnucl", Ctx(S, cl[2])) \
            and b is not None and (eqx(b, "(self.vBracketLow, self.vJ)", cm) or eqx(b, "[self.vBracketLow, self.vJ]", cm))
    chk.ob("R06.6", fmn.where(), "minVelocity is the root of strongestShock(vw) - Tnucl on (vBracketLow, vJ); 0 when there is none", ok, key="minVelocity")
    chk.floor("R06.6", 13)


def rules(chk: Check) -> None:
    for grp in (r06_1, r06_2, r06_3, r06_4, r06_5, r06_6):
        chk.stage(grp, chk)
    # R06.7: the sound speeds that classify a wall (v- = min(vw, cs-), the Jouguet condition) are those of their own phase, frozen at
    # that phase's own range ends (branch rules of csqHighT / csqLowT shared with C10 R10.1)
    from ..core import Remap
    from . import c10
    chk.stage(c10.rules, Remap(chk, {"R10.1": "R06.7"}, only=lambda r, k, w: "|csq" in k))
    chk.floor("R06.7", 8)
    # R06.8: every branch that depends on the side of the Jouguet velocity is decided with the model's own vJ
    from .shared import own_jouguet_velocity
    chk.stage(own_jouguet_velocity, chk, "R06.8")
    from .shared import jouguet_compared_with_wall_velocity
    chk.stage(jouguet_compared_with_wall_velocity, chk, "R06.8")
    from .shared import per_object_state
    chk.stage(per_object_state, chk, "R06.8", ("Hydrodynamics", "HydrodynamicsTemplateModel", "Thermodynamics", "FreeEnergy", "InterpolatableFunction"))
    # R06.9: the template's shooting bracket excludes the region of negative enthalpy by cutting its UPPER end; tiny offsets of bracket ends point inward
    # (shared with C15 R15.9 / C05 R05.7): an admissible deflagration is not lost to a bracket on the unphysical side
    from ..core import Remap as _Remap9
    from . import c15 as _c15
    from .shared import bracket_offsets_inward
    chk.stage(_c15.r15_9, _Remap9(chk, {"R15.9": "R06.9"}))
    chk.stage(bracket_offsets_inward, chk, "R06.9", ("hydrodynamics", "hydrodynamicsTemplateModel"), 1)
