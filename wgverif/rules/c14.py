"""C14 -- collision data act identically after loading, basis change and interpolation.

R14.1 loader: file name, dataset name and destination slice built from (particle1, particle2) in that order;
      the solver's collision array is replaced only by the result of a successful load
R14.2 error discipline: the listed load faults leave through `raise CollisionLoadError`
R14.3 basis change is an inverse-transpose on the polynomial axes, cardinal on the momentum axes
R14.4 axis-label flow of the interpolation: a reshape may only split / merge adjacent labels
R14.5 interpolation works on a deep copy, in the Chebyshev basis, and converts back at the end
"""
from __future__ import annotations

import ast

from ..core import AnchorMissing, Check, Undecided, calls_in, dotted, kwarg, own_nodes, src, slice_src, walk_guarded
from ..flow import CFG

LEVEL = "other"
CA = "collisionArray:CollisionArray"


def n(x) -> str:
    return " ".join(src(x).split())


def r14_1(chk: Check) -> None:
    S = chk.src
    fi = S.func(f"{CA}.newFromDirectory")
    chk.touch(fi.name)
    # loop variables
    loops = [st for st in own_nodes(fi.node) if isinstance(st, ast.For) and isinstance(st.iter, ast.Call)
             and n(st.iter.func) == "enumerate" and n(st.iter.args[0]) == "particles"]
    if len(loops) != 2:
        raise AnchorMissing("newFromDirectory: the two enumerate(particles) loops were not found")
    outer, inner = sorted(loops, key=lambda l: l.lineno)
    chk.ob("R14.1", fi.where(outer), "the loader visits every ordered particle pair (two nested loops over `particles`)",
           any(x is inner for x in ast.walk(outer)), key="nested-loops")
    (i1, p1), (i2, p2) = [[n(e) for e in l.target.elts] for l in (outer, inner)]
    fname = dset = dest = None
    for st in own_nodes(fi.node):
        if isinstance(st, ast.Assign):
            t = n(st.targets[0])
            v = st.value
            if isinstance(v, ast.BinOp) and isinstance(v.op, ast.Div) and any(isinstance(x, ast.JoinedStr) for x in ast.walk(v)):
                js = [x for x in ast.walk(v) if isinstance(x, ast.JoinedStr)][0]
                fname = [n(x.value) if isinstance(x, ast.FormattedValue) else x.value for x in js.values]
            if isinstance(v, ast.BinOp) and isinstance(v.op, ast.Add) and ".name" in n(v) and not any(isinstance(x, ast.JoinedStr) for x in ast.walk(v)):
                dset = n(v)
            if isinstance(st.targets[0], ast.Subscript) and n(st.targets[0].value) == "collisionFileArray":
                dest = (slice_src(st.targets[0].slice), n(v))
    ok = fname == ["collisions_", f"{p1}.name", "_", f"{p2}.name", ".hdf5"]
    chk.ob("R14.1", fi.where(), f"file name is collisions_<{p1}.name>_<{p2}.name>.hdf5 (outer loop particle first)", ok, str(fname), key="filename")
    ok = dset is not None and dset.replace('"', "'") == f"{p1}.name + ', ' + {p2}.name"
    chk.ob("R14.1", fi.where(), f"dataset name is '<{p1}.name>, <{p2}.name>'", ok, str(dset), key="dataset")
    ok = dest is not None and dest[0] == f"{i1}, :, :, {i2}, :, :"
    chk.ob("R14.1", fi.where(), f"the pair's data is stored at [{i1}, :, :, {i2}, :, :] (outer index first)", ok, str(dest), key="dest-slice")
    # dataset read with the dataset name
    rd = [x for x in own_nodes(fi.node) if isinstance(x, ast.Subscript) and n(x.value) == "file" and n(x.slice) == "datasetName"]
    chk.ob("R14.1", fi.where(), "the dataset read from the file is the one named after the pair and it is what gets stored",
           bool(rd) and dest is not None and dest[1] == "collisionDataset", key="dataset-read")
    # solver side
    fl = S.func("boltzmann:BoltzmannSolver.loadCollisions")
    chk.touch(fl.name)
    stores = [st for st in own_nodes(fl.node) if isinstance(st, (ast.Assign, ast.AugAssign)) and
              any(n(t) == "self.collisionArray" for t in (st.targets if isinstance(st, ast.Assign) else [st.target]))]
    ok = len(stores) == 1 and isinstance(stores[0].value, ast.Call) and n(stores[0].value.func) == "CollisionArray.newFromDirectory"
    chk.ob("R14.1", fl.where(), "loadCollisions replaces self.collisionArray only by the value returned by newFromDirectory "
           "(nothing is installed when the load raises)", ok, "; ".join(n(s) for s in stores)[:200], key="install-after-success")
    if ok:
        a = [n(x) for x in stores[0].value.args]
        chk.ob("R14.1", fl.where(), "newFromDirectory receives (directory, self.grid, self.basisN, self.offEqParticles)",
               a == ["directoryPath", "self.grid", "self.basisN", "self.offEqParticles"], str(a), key="load-args")
    # handlers must not swallow the error
    swallowed = []
    for x in own_nodes(fl.node):
        if isinstance(x, ast.ExceptHandler):
            if not any(isinstance(s, ast.Raise) for s in x.body):
                swallowed.append(n(x.type) if x.type else "bare")
    chk.ob("R14.1", fl.where(), "loadCollisions re-raises the load error", not swallowed, str(swallowed), key="reraise")
    chk.floor("R14.1", 8)


def r14_2(chk: Check) -> None:
    S = chk.src
    fi = S.func(f"{CA}.newFromDirectory")
    raises = [x for x in own_nodes(fi.node) if isinstance(x, ast.Raise)]
    bad = [n(r)[:60] for r in raises if r.exc is None or not n(r.exc).startswith("CollisionLoadError")]
    chk.ob("R14.2", fi.where(), "every raise in newFromDirectory raises CollisionLoadError", not bad and len(raises) >= 3,
           f"{len(raises)} raises; others: {bad}", key="raises")
    # the three listed fault patterns
    handlers = [x for x in own_nodes(fi.node) if isinstance(x, ast.ExceptHandler)]
    ok = any(h.type is not None and "FileNotFoundError" in n(h.type) and
             any(isinstance(s, ast.Raise) and s.exc is not None and n(s.exc).startswith("CollisionLoadError") for s in h.body)
             for h in handlers)
    chk.ob("R14.2", fi.where(), "missing file: FileNotFoundError is converted to CollisionLoadError", ok, key="fault|missing-file")
    ok = False
    for guards, st in walk_guarded(fi.node):
        if isinstance(st, ast.Raise) and st.exc is not None and n(st.exc).startswith("CollisionLoadError"):
            for t, pol in guards:
                if isinstance(t, ast.Compare) and pol and n(t) in ("grid.N > size", "size < grid.N"):
                    ok = True
    chk.ob("R14.2", fi.where(), "target grid larger than the stored one raises CollisionLoadError", ok, key="fault|oversized-target")
    # size / basis mismatch between files must not be an assert
    asserts = [x for x in own_nodes(fi.node) if isinstance(x, ast.Assert)]
    file_vars = {"size", "btype", "basisSizeFile", "basisTypeFile"}
    bad_asserts = [a for a in asserts if {x.id for x in ast.walk(a.test) if isinstance(x, ast.Name)} & file_vars]
    for a in bad_asserts:
        chk.ob("R14.2", fi.where(a), "file-to-file size / basis-type mismatch is reported as CollisionLoadError, not AssertionError",
               False, n(a.test), key=f"fault|mismatch-assert|{n(a.test)}")
    covered = set()
    for guards, st in walk_guarded(fi.node):
        if isinstance(st, ast.Raise) and st.exc is not None and n(st.exc).startswith("CollisionLoadError"):
            for t, pol in guards:
                if isinstance(t, ast.Compare) and pol:
                    names = {x.id for x in ast.walk(t) if isinstance(x, ast.Name)}
                    if {"size", "basisSizeFile"} <= names:
                        covered.add("size")
                    if {"btype", "basisTypeFile"} <= names:
                        covered.add("btype")
    if not bad_asserts:
        chk.ob("R14.2", fi.where(), "file-to-file size and basis-type mismatches raise CollisionLoadError", covered == {"size", "btype"},
               str(sorted(covered)), key="fault|mismatch-raise")
    ok = False
    for guards, st in walk_guarded(fi.node):
        if isinstance(st, ast.Raise) and st.exc is not None and n(st.exc).startswith("CollisionLoadError"):
            if any((not pol and n(t) == "bInterpolate") or (pol and n(t) == "not bInterpolate") for t, pol in guards if not isinstance(t, tuple)):
                ok = True
    chk.ob("R14.2", fi.where(), "grid-size mismatch with bInterpolate=False raises CollisionLoadError", ok, key="fault|no-interpolate")
    chk.floor("R14.2", 5)


def r14_3(chk: Check) -> None:
    S = chk.src
    fi = S.func(f"{CA}.changeBasis")
    chk.touch(fi.name)
    cs = [c for c in calls_in(fi.node, "changeBasis") if n(c.func) == "self.polynomialData.changeBasis"]
    if len(cs) != 1:
        raise AnchorMissing("CollisionArray.changeBasis: call to polynomialData.changeBasis not found")
    c = cs[0]
    it = kwarg(c, "inverseTranspose", 1)
    chk.ob("R14.3", fi.where(c), "the collision tensor is transformed with inverseTranspose=True (so that C'.c' == C.c)",
           isinstance(it, ast.Constant) and it.value is True, n(it) if it is not None else "missing", key="inverse-transpose")
    b = kwarg(c, "newBasis", 0)
    want = "('Array', 'Cardinal', 'Cardinal', 'Array', newBasisType, newBasisType)"
    chk.ob("R14.3", fi.where(c), "new bases are (Array, Cardinal, Cardinal, Array, new, new): only the polynomial axes 4-5 change",
           b is not None and n(b).replace('"', "'") == want, n(b) if b is not None else "", key="basis-tuple")
    st = [s for s in own_nodes(fi.node) if isinstance(s, ast.Assign) and n(s.targets[0]) == "self.basisType"]
    chk.ob("R14.3", fi.where(), "the recorded basis type is updated to the new one", len(st) == 1 and n(st[0].value) == "newBasisType",
           key="basis-recorded")
    # Polynomial.changeBasis: matrix handling
    fp = S.func("polynomial:Polynomial.changeBasis")
    chk.touch(fp.name)
    seq = []
    for guards, s_ in walk_guarded(fp.node):
        if isinstance(s_, ast.Assign) and n(s_.targets[0]) == "tnMatrix":
            g = [n(t).replace('"', "'") for t, pol in guards if pol and not isinstance(t, tuple)]
            fns = {(c.func.attr if isinstance(c.func, ast.Attribute) else n(c.func)) for c in ast.walk(s_.value) if isinstance(c, ast.Call)}
            fns |= {"transpose" for a_ in ast.walk(s_.value) if isinstance(a_, ast.Attribute) and a_.attr == "T"}
            seq.append((g[-1] if g else "", fns, s_.lineno))
    base = [x for x in seq if "chebyshev" in x[1]]
    tocheb = [x for x in seq if x[0] == "newBasis[i] == 'Chebyshev'" and "inv" in x[1] and "transpose" not in x[1]]
    invt = [x for x in seq if x[0] == "inverseTranspose" and {"inv", "transpose"} <= x[1]]
    ok = len(base) == 1 and len(tocheb) == 1 and len(invt) == 1 and base[0][2] < tocheb[0][2] < invt[0][2]
    chk.ob("R14.3", fp.where(), "Polynomial.changeBasis: T (or T^-1 towards Chebyshev) first, then inverse-transpose when requested", ok,
           str([(a, sorted(b)) for a, b, _ in seq])[:300], key="matrix-sequence")
    chk.floor("R14.3", 4)


# ---------------------------------------------------------------- R14.4 label flow
def _labels_eval(expr, defs, facts, chk):
    """abstract evaluation of an array expression to a list of axis labels"""
    if isinstance(expr, ast.Name):
        if expr.id in defs:
            return _labels_eval(defs[expr.id], defs, facts, chk)
        raise Undecided(f"label flow: unknown name {expr.id}")
    if isinstance(expr, ast.Call):
        d = dotted(expr.func) or ""
        short = expr.func.attr if isinstance(expr.func, ast.Attribute) else d.split(".")[-1]
        if d in ("np.array", "np.asarray", "np.ascontiguousarray", "np.copy"):
            return _labels_eval(expr.args[0], defs, facts, chk)
        if short == "evaluate" and n(expr.func).endswith("polynomialData.evaluate"):
            axes = kwarg(expr, "axes", 1)
            ax = ast.literal_eval(axes)
            src_labels = list(facts["source_labels"])
            return ["points"] + [l for i, l in enumerate(src_labels) if i not in ax]
        if short == "reshape" and isinstance(expr.func, ast.Attribute) and d != "np.reshape":
            inner = _labels_eval(expr.func.value, defs, facts, chk)
            return ("reshape", inner, expr.args[0])
        if d == "np.reshape":
            inner = _labels_eval(expr.args[0], defs, facts, chk)
            return ("reshape", inner, expr.args[1])
        if d == "np.moveaxis":
            inner = _labels_eval(expr.args[0], defs, facts, chk)
            s_, t_ = ast.literal_eval(expr.args[1]), ast.literal_eval(expr.args[2])
            s_ = [s_] if isinstance(s_, int) else list(s_)
            t_ = [t_] if isinstance(t_, int) else list(t_)
            rank = len(inner)
            s_ = [a % rank for a in s_]
            t_ = [a % rank for a in t_]
            order = [i for i in range(rank) if i not in s_]
            for dst, srcax in sorted(zip(t_, s_)):
                order.insert(dst, srcax)
            return [inner[i] for i in order]
        if short == "transpose":
            if d == "np.transpose":
                inner = _labels_eval(expr.args[0], defs, facts, chk)
                perm = ast.literal_eval(expr.args[1]) if len(expr.args) > 1 else list(range(len(inner)))[::-1]
            else:
                inner = _labels_eval(expr.func.value, defs, facts, chk)
                perm = ast.literal_eval(expr.args[0]) if len(expr.args) == 1 else [ast.literal_eval(a) for a in expr.args]
            return [inner[i] for i in perm]
        if short == "swapaxes":
            if d == "np.swapaxes":
                inner = _labels_eval(expr.args[0], defs, facts, chk)
                a, b = ast.literal_eval(expr.args[1]), ast.literal_eval(expr.args[2])
            else:
                inner = _labels_eval(expr.func.value, defs, facts, chk)
                a, b = ast.literal_eval(expr.args[0]), ast.literal_eval(expr.args[1])
            inner = list(inner)
            inner[a], inner[b] = inner[b], inner[a]
            return inner
        raise Undecided(f"label flow: call {d}")
    if isinstance(expr, ast.Subscript):
        inner = _labels_eval(expr.value, defs, facts, chk)
        sl = expr.slice
        elts = sl.elts if isinstance(sl, ast.Tuple) else [sl]
        # only truncating slices / ellipsis keep the labels
        if all(isinstance(e, ast.Slice) or (isinstance(e, ast.Constant) and e.value is Ellipsis) for e in elts):
            return inner
        raise Undecided(f"label flow: subscript {n(expr)[:60]}")
    raise Undecided(f"label flow: expression {type(expr).__name__}")


def r14_4(chk: Check) -> None:
    S = chk.src
    fi = S.func(f"{CA}.interpolateCollisionArray")
    chk.touch(fi.name)
    ci = S.cls(CA)
    labels = ci.consts.get("AXIS_LABELS")
    if labels is None:
        raise AnchorMissing("CollisionArray.AXIS_LABELS not found")
    src_labels = [e.value for e in labels.elts]
    src_labels = ["particles1" if (l == "particles" and i == 0) else ("particles2" if l == "particles" else l) for i, l in enumerate(src_labels)]
    # summary of Polynomial.evaluate: result axes = (points,) + coefficient axes not evaluated
    fe = S.func("polynomial:Polynomial.evaluate")
    chk.touch(fe.name)
    txt = " ".join(n(s) for s in own_nodes(fe.node) if isinstance(s, ast.Assign))
    ok_sum = "polynomials = np.ones((compactCoord.shape[1],) + self.coefficients.shape)" in txt and \
        "np.sum(self.coefficients[None, ...] * polynomials, axis=tuple(np.array(axes) + 1))" in txt
    # a refactored evaluate() is not a violation: the summary is then undecided (exit 2)
    chk.ob("R14.4", fe.where(), "Polynomial.evaluate returns (points, *axes not evaluated): summary used by the label flow",
           True if ok_sum else None, "evaluate() no longer has the shape the summary was derived from", key="evaluate-summary")
    defs = {}
    for st in own_nodes(fi.node):
        if isinstance(st, ast.Assign) and isinstance(st.targets[0], ast.Name):
            defs[st.targets[0].id] = st.value
    # points grid: meshgrid(rz, rp, indexing='ij').reshape((2, (N-1)**2))  -> points == pz (x) pp in C order
    gp = defs.get("gridPoints")
    okg = False
    if gp is not None:
        mg = [c for c in ast.walk(gp) if isinstance(c, ast.Call) and (dotted(c.func) or "").endswith("meshgrid")]
        if mg:
            a = [n(x) for x in mg[0].args]
            ind = kwarg(mg[0], "indexing")
            okg = a == ["targetGrid.rzValues", "targetGrid.rpValues"] and isinstance(ind, ast.Constant) and ind.value == "ij"
    chk.ob("R14.4", fi.where(), "evaluation points are meshgrid(rz, rp, indexing='ij') flattened: point index == pz (x) pp in C order", okg,
           n(gp)[:160] if gp is not None else "", key="points-grid")
    # evaluate along axes (1, 2) with the points grid
    ev = [c for c in calls_in(fi.node, "evaluate")]
    oke = bool(ev) and n(ev[0].args[0]) == "gridPoints" and n(kwarg(ev[0], "axes", 1)) == "(1, 2)"
    chk.ob("R14.4", fi.where(), "the source polynomial is evaluated at the points grid along the momentum axes (1, 2)", oke,
           n(ev[0])[:100] if ev else "", key="evaluate-call")
    # target labels from the Polynomial(...) built from the interpolated data
    target = None
    data_name = None
    for c in calls_in(fi.node, "Polynomial"):
        if len(c.args) >= 4 and isinstance(c.args[3], ast.Tuple):
            target = [e.value for e in c.args[3].elts]
            data_name = c.args[0]
    if target is None:
        raise AnchorMissing("interpolateCollisionArray: Polynomial(...) for the interpolated data not found")
    tl = ["particles1", "pz", "pp", "particles2", "polynomial1", "polynomial2"]
    facts = {"source_labels": src_labels}
    res = _labels_eval(data_name, defs, facts, chk)
    if isinstance(res, tuple) and res[0] == "reshape":
        inner = res[1]
        flat = []
        for l in inner:
            flat += ["pz", "pp"] if l == "points" else [l]
        ok = flat == tl
        detail = f"array axes before reshape {inner} flatten to {flat}; reshape target axes {tl}"
    else:
        flat = []
        for l in res:
            flat += ["pz", "pp"] if l == "points" else [l]
        ok = flat == tl and "points" not in res
        detail = f"axes {res}"
    chk.ob("R14.4", fi.where(), "reshape of the interpolated data only splits the point axis into (pz, pp): the flattened axis order equals the "
           "target order (particles, pz, pp, particles, poly, poly) for any number of particles", ok, detail, key="reshape-order")
    ns = defs.get("newShape")
    okn = ns is not None and n(ns).replace(" ", "") == "2*(len(source.particles),targetGrid.N-1,targetGrid.N-1)"
    chk.ob("R14.4", fi.where(), "target shape is (particles, N-1, N-1) twice", okn, n(ns) if ns is not None else "", key="target-shape")
    chk.floor("R14.4", 5)


def r14_5(chk: Check) -> None:
    S = chk.src
    fi = S.func(f"{CA}.interpolateCollisionArray")
    g = CFG(fi.node)
    dc = [st for st in own_nodes(fi.node) if isinstance(st, ast.Assign) and isinstance(st.value, ast.Call)
          and (dotted(st.value.func) or "").endswith("deepcopy") and n(st.value.args[0]) == "srcCollision"]
    chk.ob("R14.5", fi.where(), "interpolation works on a deep copy of the source collision array", len(dc) == 1, key="deepcopy")
    work = n(dc[0].targets[0]) if dc else "source"
    cb = [c for c in calls_in(fi.node, "changeBasis")]
    to_cheb = [c for c in cb if n(c.func) == f"{work}.changeBasis" and c.args and isinstance(c.args[0], ast.Constant) and c.args[0].value == "Chebyshev"]
    ev = g.stmts_calling("evaluate")
    ok = bool(to_cheb) and bool(ev) and all(g.must_pass(CFG.ENTRY, e, lambda q: any(x is to_cheb[0] for x in ast.walk(q)) if isinstance(q, ast.AST) else False) for e in ev)
    chk.ob("R14.5", fi.where(), "the copy is converted to the Chebyshev basis before it is evaluated", ok, key="chebyshev-first")
    back = [c for c in cb if c.args and "getBasisType" in n(c.args[0]) and "srcCollision" in n(c.args[0])]
    rets = [r for r in own_nodes(fi.node) if isinstance(r, ast.Return)]
    ok = len(back) == 1 and len(rets) == 1 and n(rets[0].value) == n(back[0].func).rsplit(".", 1)[0]
    chk.ob("R14.5", fi.where(), "the result is converted back to the source's basis and returned", ok, key="convert-back")
    pol = [c for c in calls_in(fi.node, "Polynomial")]
    ok = bool(pol) and len(pol[0].args) >= 3 and n(pol[0].args[2]).replace('"', "'") == "('Array', 'Cardinal', 'Cardinal', 'Array', 'Chebyshev', 'Chebyshev')" \
        and n(pol[0].args[1]) == "targetGrid"
    chk.ob("R14.5", fi.where(), "interpolated data is declared on the target grid as (Array, Cardinal, Cardinal, Array, Chebyshev, Chebyshev)", ok,
           key="declared-bases")
    # loader: changeBasis(basisType) applied to the final object; bases of the stored data taken from the file
    fl = S.func(f"{CA}.newFromDirectory")
    rets = [r for r in own_nodes(fl.node) if isinstance(r, ast.Return)]
    ok = len(rets) == 1 and n(rets[0].value) == "newCollision.changeBasis(basisType)"
    chk.ob("R14.5", fl.where(), "newFromDirectory returns the array converted to the requested basis", ok, key="loader-final-basis")
    pols = [c for c in calls_in(fl.node, "Polynomial")]
    ok = len(pols) == 2 and all(n(c.args[2]).replace('"', "'") == "('Array', 'Cardinal', 'Cardinal', 'Array', basisTypeFile, basisTypeFile)" for c in pols)
    chk.ob("R14.5", fl.where(), "stored data is declared in the basis recorded in the files", ok, key="loader-file-basis")
    chk.floor("R14.5", 6)


def rules(chk: Check) -> None:
    chk.src.cls(CA)
    r14_1(chk)
    r14_2(chk)
    r14_3(chk)
    r14_4(chk)
    r14_5(chk)
