"""C14 -- collision data act identically after loading, basis change and interpolation.

R14.1 loader: file name, dataset name and destination slice built from (particle1, particle2) in that order;
      the solver's collision array is replaced only by the result of a successful load
R14.2 error discipline: the listed load faults leave through `raise CollisionLoadError`
R14.3 basis change is an inverse-transpose on the polynomial axes, cardinal on the momentum axes
R14.4 axis-label flow of the interpolation: a reshape may only split / merge adjacent labels
R14.5 interpolation works on a deep copy, in the Chebyshev basis, and converts back at the end

Recognition is spelling-independent: the functions are read through the forward substitution of c12 (`Flat`: every local, also
inside one loop iteration, is replaced by its definition; simple extracted helpers are looked through), variables are identified
by their ROLE (loop variables of the enumerate(particles) loops, the `with h5py.File(...) as f` handle, the values read from the
file's metadata, the parameters of the public methods) and arguments are bound by keyword or position.
The evaluation points may be written without meshgrid: np.repeat(rz, len(rp)) over np.tile(rp, len(rz)) is the C-order flattened ij pair
(`_Product`); the reverse pairing is the Fortran order and stays a violation.
"""
from __future__ import annotations

import ast

from ..core import AnchorMissing, Check, Undecided, calls_in, dotted, kwarg, own_nodes, src, walk_guarded
from ..flow import CFG
from ..nf import NF, Ctx, eqx, match, nf, same
from .c12 import Flat

LEVEL = "other"
CA = "collisionArray:CollisionArray"


def n(x) -> str:
    return " ".join(src(x).split())


def _short(call) -> str:
    return (dotted(call.func) or "").split(".")[-1] if isinstance(call, ast.Call) else ""


def _params(fi) -> list:
    return [p for p in fi.params() if p not in ("self", "cls")]


def _str_parts(e: ast.AST) -> list:
    """a string expression as a list of literal pieces and ('expr', normal form) pieces: f-strings and `+` chains coincide"""
    out: list = []

    def add(x):
        if isinstance(x, str) and out and isinstance(out[-1], str):
            out[-1] += x
        elif x != "":
            out.append(x)

    def walk(x):
        if isinstance(x, ast.JoinedStr):
            for v in x.values:
                walk(v)
        elif isinstance(x, ast.FormattedValue):
            if x.conversion not in (-1, 115) or x.format_spec is not None:
                add(("fmt", nf(x.value), x.conversion, n(x.format_spec) if x.format_spec is not None else ""))
            elif isinstance(x.value, ast.JoinedStr) or (isinstance(x.value, ast.Constant) and isinstance(x.value.value, str)):
                walk(x.value)
            else:
                add(("expr", nf(x.value)))
        elif isinstance(x, ast.Constant) and isinstance(x.value, str):
            add(x.value)
        elif isinstance(x, ast.BinOp) and isinstance(x.op, ast.Add):
            walk(x.left)
            walk(x.right)
        elif isinstance(x, ast.Call) and eqx(x.func, "str") and len(x.args) == 1 and not x.keywords:
            add(("expr", nf(x.args[0])))
        else:
            add(("expr", nf(x)))
    walk(e)
    return out


def _whole(sl: ast.AST) -> bool:
    """x[:] / x[...] / x[()]: all of the dataset"""
    return (isinstance(sl, ast.Slice) and sl.lower is None and sl.upper is None and sl.step is None) or (isinstance(sl, ast.Constant) and sl.value is Ellipsis) \
        or (isinstance(sl, ast.Tuple) and not sl.elts)


def _is_load_error(r: ast.Raise) -> bool:
    e = r.exc
    if isinstance(e, ast.Call):
        e = e.func
    return e is not None and (dotted(e) or "").split(".")[-1] == "CollisionLoadError"


def _facts(t: ast.AST, pol: bool):
    """atomic (test, polarity) facts implied by taking the branch (t, pol): conjuncts of a true `and`, disjuncts of a false `or`"""
    while isinstance(t, ast.UnaryOp) and isinstance(t.op, ast.Not):
        t, pol = t.operand, not pol
    if isinstance(t, ast.BoolOp) and ((pol and isinstance(t.op, ast.And)) or (not pol and isinstance(t.op, ast.Or))):
        for v in t.values:
            yield from _facts(v, pol)
    else:
        yield t, pol


def _true_when(t: ast.AST, pol: bool, pos: list, neg: list) -> bool:
    """the branch (t, pol) is taken exactly when one of the conditions `pos` holds (`neg` are spellings of the negation)"""
    while isinstance(t, ast.UnaryOp) and isinstance(t.op, ast.Not):
        t, pol = t.operand, not pol
    return any(eqx(t, p) for p in (pos if pol else neg))


def r14_1(chk: Check) -> None:
    S = chk.src
    fi = S.func(f"{CA}.newFromDirectory")
    chk.touch(fi.name)
    prm = _params(fi)
    if len(prm) < 4:
        raise AnchorMissing("newFromDirectory: expected the parameters (directoryPath, grid, basisType, particles, ...)")
    P_DIR, P_GRID, P_BASIS, P_PARTICLES = prm[:4]
    F = Flat(S, fi)
    # loop variables
    loops = [st for st in own_nodes(fi.node) if isinstance(st, ast.For) and eqx(F.iters.get(id(st)), f"enumerate({P_PARTICLES})")
             and isinstance(st.target, ast.Tuple) and len(st.target.elts) == 2 and all(isinstance(e, ast.Name) for e in st.target.elts)]
    if len(loops) != 2:
        raise AnchorMissing("newFromDirectory: the two enumerate(particles) loops were not found")
    outer, inner = sorted(loops, key=lambda l: l.lineno)
    chk.ob("R14.1", fi.where(outer), "the loader visits every ordered particle pair (two nested loops over `particles`)",
           any(x is inner for x in ast.walk(outer)), key="nested-loops")
    (i1, p1), (i2, p2) = [[e.id for e in l.target.elts] for l in (outer, inner)]
    # the file that is opened: `with h5py.File(<path>, "r") as <handle>`
    opened = [(st, v) for st, v in F.events if isinstance(st, ast.With) and isinstance(v, ast.Call) and (dotted(v.func) or "").endswith("File")]
    fname = None
    handle = None
    if len(opened) == 1:
        st, v = opened[0]
        path = v.args[0] if v.args else kwarg(v, "name")
        while isinstance(path, ast.Call) and (eqx(path.func, "str") or _short(path) in ("fspath", "Path")) and len(path.args) == 1:
            path = path.args[0]
        if isinstance(path, ast.BinOp) and isinstance(path.op, ast.Div) and eqx(path.left, P_DIR):
            fname = _str_parts(path.right)
        elif isinstance(path, ast.Call) and _short(path) == "joinpath" and isinstance(path.func, ast.Attribute) and eqx(path.func.value, P_DIR) and len(path.args) == 1:
            fname = _str_parts(path.args[0])
        hv = [it.optional_vars for it in st.items if it.optional_vars is not None]
        handle = hv[0].id if len(hv) == 1 and isinstance(hv[0], ast.Name) else None
    if handle is None:
        raise AnchorMissing("newFromDirectory: `with h5py.File(...) as <handle>` not found")
    ok = fname == ["collisions_", ("expr", f"{p1}.name"), "_", ("expr", f"{p2}.name"), ".hdf5"]
    chk.ob("R14.1", fi.where(), f"file name is collisions_<{p1}.name>_<{p2}.name>.hdf5 (outer loop particle first)", ok, str(fname), key="filename")
    # what is stored where: <array>[i1, :, :, i2, :, :] = <dataset read from the handle>
    stores = [v for st, v in F.events if isinstance(v, ast.Assign) and isinstance(v.targets[0], ast.Subscript) and isinstance(v.targets[0].value, ast.Name)
              and any(isinstance(x, ast.Name) and x.id == handle for x in ast.walk(v.value))]
    dset, dest, reads = None, None, []
    if len(stores) == 1:
        dest = stores[0].targets[0]
        reads = [x for x in ast.walk(stores[0].value) if isinstance(x, ast.Subscript) and eqx(x.value, handle)]
        if len(reads) == 1:
            dset = _str_parts(reads[0].slice)
    ok = dset == [("expr", f"{p1}.name"), ", ", ("expr", f"{p2}.name")]
    chk.ob("R14.1", fi.where(), f"dataset name is '<{p1}.name>, <{p2}.name>'", ok, str(dset), key="dataset")
    ok = False
    if dest is not None:
        idx = list(dest.slice.elts) if isinstance(dest.slice, ast.Tuple) else [dest.slice]
        while idx and _whole(idx[-1]) and isinstance(idx[-1], ast.Slice):     # trailing `:` are implied
            idx.pop()
        ok = len(idx) == 4 and eqx(idx[0], i1) and eqx(idx[3], i2) and all(isinstance(x, ast.Slice) and _whole(x) for x in idx[1:3])
    chk.ob("R14.1", fi.where(), f"the pair's data is stored at [{i1}, :, :, {i2}, :, :] (outer index first)", ok, n(dest) if dest is not None else "", key="dest-slice")
    # dataset read with the dataset name: the stored value is that dataset (all of it), nothing else
    ok = False
    if len(stores) == 1 and len(reads) == 1:
        v = stores[0].value
        while isinstance(v, ast.Call) and (dotted(v.func) or "") in ("np.array", "np.asarray", "numpy.array", "numpy.asarray") and len(v.args) == 1:
            v = v.args[0]
        ok = (isinstance(v, ast.Subscript) and v.value is reads[0] and _whole(v.slice)) or v is reads[0]
    chk.ob("R14.1", fi.where(), "the dataset read from the file is the one named after the pair and it is what gets stored", ok, key="dataset-read")
    # solver side
    fl = S.func("boltzmann:BoltzmannSolver.loadCollisions")
    chk.touch(fl.name)
    cl = Ctx(S, fl)
    pl = _params(fl)
    stores = [st for st in own_nodes(fl.node) if isinstance(st, (ast.Assign, ast.AugAssign, ast.AnnAssign)) and
              any(eqx(t, "self.collisionArray") for t in (st.targets if isinstance(st, ast.Assign) else [st.target]))]
    val = cl.resolve(stores[0].value) if len(stores) == 1 and getattr(stores[0], "value", None) is not None else None
    ok = isinstance(val, ast.Call) and eqx(val.func, "CollisionArray.newFromDirectory")
    chk.ob("R14.1", fl.where(), "loadCollisions replaces self.collisionArray only by the value returned by newFromDirectory "
           "(nothing is installed when the load raises)", ok, "; ".join(n(s) for s in stores)[:200], key="install-after-success")
    if ok:
        want = [pl[0] if pl else "directoryPath", "self.grid", "self.basisN", "self.offEqParticles"]
        got = [kwarg(val, p_, i) for i, p_ in enumerate((P_DIR, P_GRID, P_BASIS, P_PARTICLES))]
        extra = kwarg(val, prm[4], 4) if len(prm) > 4 else None
        chk.ob("R14.1", fl.where(), "newFromDirectory receives (directory, self.grid, self.basisN, self.offEqParticles)",
               all(g is not None and eqx(g, w, cl) for g, w in zip(got, want)) and (extra is None or eqx(extra, "True", cl)), str([n(g) if g is not None else None for g in got]),
               key="load-args")
    # every normal exit of loadCollisions has installed a freshly loaded array: no early return leaves an array from an earlier load in place
    # (for another particle list / other files in the same directory) without raising
    gl = CFG(fl.node)
    inst = [gl.node_of(st) for st in stores]
    okx = bool(inst) and all(x is not None for x in inst) and gl.must_pass(CFG.ENTRY, CFG.EXIT, lambda q: any(q is x for x in inst))
    chk.ob("R14.1", fl.where(), "loadCollisions returns normally only after installing the array it has just loaded (the solver never keeps an array "
           "that was loaded for other particles or files)", okx, key="install-on-every-exit")
    # handlers must not swallow the error
    swallowed = []
    for x in own_nodes(fl.node):
        if isinstance(x, ast.ExceptHandler):
            g = CFG(ast.FunctionDef(name="h", args=fl.node.args, body=x.body, decorator_list=[], lineno=x.lineno))
            if g.reaches([CFG.ENTRY], CFG.EXIT):
                swallowed.append(n(x.type) if x.type else "bare")
    chk.ob("R14.1", fl.where(), "loadCollisions re-raises the load error", not swallowed, str(swallowed), key="reraise")
    chk.floor("R14.1", 9)


def r14_2(chk: Check) -> None:
    S = chk.src
    fi = S.func(f"{CA}.newFromDirectory")
    prm = _params(fi)
    P_GRID = prm[1]
    P_INTERP = prm[4] if len(prm) > 4 else "bInterpolate"
    F = Flat(S, fi)
    raises = [x for x in own_nodes(fi.node) if isinstance(x, ast.Raise)]
    bad = [n(r)[:60] for r in raises if r.exc is None or not _is_load_error(r)]
    chk.ob("R14.2", fi.where(), "every raise in newFromDirectory raises CollisionLoadError", not bad and len(raises) >= 3,
           f"{len(raises)} raises; others: {bad}", key="raises")
    # the three listed fault patterns
    handlers = [x for x in own_nodes(fi.node) if isinstance(x, ast.ExceptHandler)]
    ok = any(h.type is not None and any(isinstance(x, ast.Name) and x.id == "FileNotFoundError" for x in ast.walk(h.type)) and
             any(isinstance(s, ast.Raise) and s.exc is not None and _is_load_error(s) for s in h.body)
             for h in handlers)
    chk.ob("R14.2", fi.where(), "missing file: FileNotFoundError is converted to CollisionLoadError", ok, key="fault|missing-file")

    def is_size(e):   # the basis size recorded in the file being read
        return isinstance(e, ast.Subscript) and eqx(e.slice, "'Basis Size'") and isinstance(e.value, ast.Attribute) and e.value.attr == "attrs"

    def is_type(e):   # the basis type recorded in the file being read
        return any(isinstance(x, ast.Subscript) and eqx(x.slice, "'Basis Type'") and isinstance(x.value, ast.Attribute) and x.value.attr == "attrs" for x in ast.walk(e)) \
            and not any(is_size(x) for x in ast.walk(e))

    def first_file(name, pred):   # a local that remembers the value read from an earlier file
        return isinstance(name, ast.Name) and any(pred(v) for v in F.defs.get(name.id, []))

    guarded = []   # (resolved test, polarity) lists of every raise CollisionLoadError
    for guards, st in walk_guarded(fi.node):
        if isinstance(st, ast.Raise) and st.exc is not None and _is_load_error(st):
            guarded.append([f_ for t, pol in guards if isinstance(t, ast.AST) and not isinstance(t, ast.ExceptHandler) for f_ in _facts(F.tests.get(id(t), t), pol)])
    ok = False
    for gl in guarded:
        for t, pol in gl:
            while isinstance(t, ast.UnaryOp) and isinstance(t.op, ast.Not):
                t, pol = t.operand, not pol
            if isinstance(t, ast.Compare) and len(t.ops) == 1:
                a, b, op = t.left, t.comparators[0], type(t.ops[0])
                if is_size(a) and eqx(b, f"{P_GRID}.N"):
                    a, b, op = b, a, {ast.Lt: ast.Gt, ast.Gt: ast.Lt, ast.LtE: ast.GtE, ast.GtE: ast.LtE}.get(op, op)
                if eqx(a, f"{P_GRID}.N") and is_size(b) and ((pol and op is ast.Gt) or (not pol and op is ast.LtE)):
                    ok = True
    chk.ob("R14.2", fi.where(), "target grid larger than the stored one raises CollisionLoadError", ok, key="fault|oversized-target")
    # size / basis mismatch between files must not be an assert
    bad_asserts = []
    for a in [x for x in own_nodes(fi.node) if isinstance(x, ast.Assert)]:
        env = F.before.get(id(a))
        t = F.res(a.test, env) if env is not None else a.test
        if any(is_size(x) for x in ast.walk(t)):
            bad_asserts.append((a, "size == basisSizeFile"))
        elif is_type(t) and isinstance(t, ast.Compare):
            bad_asserts.append((a, "btype == basisTypeFile"))
    for a, label in bad_asserts:
        chk.ob("R14.2", fi.where(a), "file-to-file size / basis-type mismatch is reported as CollisionLoadError, not AssertionError",
               False, n(a.test), key=f"fault|mismatch-assert|{label}")
    covered = set()
    for gl in guarded:
        for t, pol in gl:
            while isinstance(t, ast.UnaryOp) and isinstance(t.op, ast.Not):
                t, pol = t.operand, not pol
            if isinstance(t, ast.Compare) and len(t.ops) == 1 and ((pol and isinstance(t.ops[0], ast.NotEq)) or (not pol and isinstance(t.ops[0], ast.Eq))):
                for a, b in ((t.left, t.comparators[0]), (t.comparators[0], t.left)):
                    if is_size(a) and first_file(b, is_size):
                        covered.add("size")
                    if is_type(a) and first_file(b, is_type):
                        covered.add("btype")
    if not bad_asserts:
        chk.ob("R14.2", fi.where(), "file-to-file size and basis-type mismatches raise CollisionLoadError", covered == {"size", "btype"},
               str(sorted(covered)), key="fault|mismatch-raise")
    ok = any(_true_when(t, pol, [f"not {P_INTERP}", f"{P_INTERP} == False", f"{P_INTERP} is False"], [P_INTERP, f"{P_INTERP} == True", f"{P_INTERP} is True"])
             for gl in guarded for t, pol in gl)
    chk.ob("R14.2", fi.where(), "grid-size mismatch with bInterpolate=False raises CollisionLoadError", ok, key="fault|no-interpolate")
    chk.floor("R14.2", 5)


def _matrix_chain(e: ast.AST, P_NEW: str, P_INV: str) -> bool:
    """e is  M2 = (transpose(inv(M1)) if inverseTranspose else M1),  M1 = (inv(M0) if newBasis[i] == 'Chebyshev' else M0),  M0 = T_n(x)"""
    if not (isinstance(e, ast.IfExp) and eqx(e.test, P_INV)):
        return False
    m1, it = e.orelse, e.body
    ok_it = (isinstance(it, ast.Call) and eqx(it.func, "np.transpose") and len(it.args) == 1 and isinstance(it.args[0], ast.Call)
             and eqx(it.args[0].func, "np.linalg.inv") and len(it.args[0].args) == 1 and same(it.args[0].args[0], m1)) \
        or (isinstance(it, ast.Call) and eqx(it.func, "np.linalg.inv") and len(it.args) == 1 and isinstance(it.args[0], ast.Call)
            and eqx(it.args[0].func, "np.transpose") and len(it.args[0].args) == 1 and same(it.args[0].args[0], m1))
    if not ok_it or not isinstance(m1, ast.IfExp):
        return False
    tt = m1.test
    b = isinstance(tt, ast.Compare) and len(tt.ops) == 1 and isinstance(tt.ops[0], ast.Eq)
    if b:
        lhs, rhs = (tt.left, tt.comparators[0]) if eqx(tt.comparators[0], "'Chebyshev'") else (tt.comparators[0], tt.left)
        b = eqx(rhs, "'Chebyshev'") and isinstance(lhs, ast.Subscript) and isinstance(lhs.slice, ast.Name) \
            and any(isinstance(x, ast.Name) and x.id == P_NEW for x in ast.walk(lhs.value))
    m0, inv = m1.orelse, m1.body
    return bool(b) and isinstance(inv, ast.Call) and eqx(inv.func, "np.linalg.inv") and len(inv.args) == 1 and same(inv.args[0], m0) \
        and any(isinstance(c, ast.Call) and _short(c) == "chebyshev" for c in ast.walk(m0)) and not any(isinstance(c, ast.Call) and _short(c) in ("inv", "transpose") for c in ast.walk(m0))


def r14_3(chk: Check) -> None:
    S = chk.src
    fi = S.func(f"{CA}.changeBasis")
    chk.touch(fi.name)
    cx = Ctx(S, fi)
    prm = _params(fi)
    if len(prm) != 1:
        raise AnchorMissing("CollisionArray.changeBasis: expected the single parameter newBasisType")
    P = prm[0]
    cs = [c for c in calls_in(fi.node, "changeBasis") if eqx(c.func, "self.polynomialData.changeBasis", cx)]
    if len(cs) != 1:
        raise AnchorMissing("CollisionArray.changeBasis: call to polynomialData.changeBasis not found")
    c = cs[0]
    it = kwarg(c, "inverseTranspose", 1)
    chk.ob("R14.3", fi.where(c), "the collision tensor is transformed with inverseTranspose=True (so that C'.c' == C.c)",
           it is not None and eqx(it, "True", cx), n(it) if it is not None else "missing", key="inverse-transpose")
    b = kwarg(c, "newBasis", 0)
    want = f"('Array', 'Cardinal', 'Cardinal', 'Array', {P}, {P})"
    chk.ob("R14.3", fi.where(c), "new bases are (Array, Cardinal, Cardinal, Array, new, new): only the polynomial axes 4-5 change",
           b is not None and eqx(b, want, cx), n(b) if b is not None else "", key="basis-tuple")
    st = [s for s in own_nodes(fi.node) if isinstance(s, ast.Assign) and any(eqx(t, "self.basisType") for t in s.targets)]
    chk.ob("R14.3", fi.where(), "the recorded basis type is updated to the new one", len(st) == 1 and eqx(st[0].value, P, cx),
           key="basis-recorded")
    # Polynomial.changeBasis: matrix handling
    fp = S.func("polynomial:Polynomial.changeBasis")
    chk.touch(fp.name)
    pp = _params(fp)
    if len(pp) != 2:
        raise AnchorMissing("Polynomial.changeBasis: expected the parameters (newBasis, inverseTranspose)")
    G = Flat(S, fp)
    upd = [v for st_, v in G.events if isinstance(v, ast.Assign) and eqx(v.targets[0], "self.coefficients")]
    ok = len(upd) == 1 and any(_matrix_chain(x, pp[0], pp[1]) for x in ast.walk(upd[0].value))
    chk.ob("R14.3", fp.where(), "Polynomial.changeBasis: T (or T^-1 towards Chebyshev) first, then inverse-transpose when requested", ok,
           n(upd[0].value)[:300] if upd else "", key="matrix-sequence")
    chk.floor("R14.3", 4)


# ---------------------------------------------------------------- R14.4 label flow
def _lit(e):
    """value of an integer / tuple-of-integers expression (constant arithmetic is folded)"""
    if isinstance(e, (ast.Tuple, ast.List)):
        return [_lit(x) for x in e.elts]
    v = NF()._const(e) if e is not None else None
    if v is not None and v.denominator == 1:
        return int(v)
    raise Undecided(f"label flow: `{n(e)[:40] if e is not None else None}` is not a literal")


def _labels_eval(expr, facts):
    """abstract evaluation of a resolved array expression to a list of axis labels"""
    if isinstance(expr, ast.Call):
        d = dotted(expr.func) or ""
        short = expr.func.attr if isinstance(expr.func, ast.Attribute) else d.split(".")[-1]
        is_np = d.split(".")[0] in ("np", "numpy")
        if d in ("np.array", "np.asarray", "np.ascontiguousarray", "np.copy"):
            return _labels_eval(expr.args[0], facts)
        if short == "evaluate" and isinstance(expr.func, ast.Attribute) and isinstance(expr.func.value, ast.Attribute) and expr.func.value.attr == "polynomialData":
            ax = _lit(kwarg(expr, "axes", 1))
            src_labels = list(facts["source_labels"])
            facts["evaluate"] = expr
            return ["points"] + [l for i, l in enumerate(src_labels) if i not in ax]
        if short == "reshape" and not is_np:
            inner = _labels_eval(expr.func.value, facts)
            shape = expr.args[0] if len(expr.args) == 1 else (ast.Tuple(elts=list(expr.args), ctx=ast.Load()) if expr.args else kwarg(expr, "shape"))
            return ("reshape", inner, shape)
        if short == "reshape" and is_np:
            inner = _labels_eval(kwarg(expr, "a", 0), facts)
            return ("reshape", inner, kwarg(expr, "shape", 1) or kwarg(expr, "newshape"))
        if short == "moveaxis" and is_np:
            inner = _labels_eval(kwarg(expr, "a", 0), facts)
            s_, t_ = _lit(kwarg(expr, "source", 1)), _lit(kwarg(expr, "destination", 2))
            s_ = [s_] if isinstance(s_, int) else list(s_)
            t_ = [t_] if isinstance(t_, int) else list(t_)
            rank = len(inner)
            s_ = [a % rank for a in s_]
            t_ = [a % rank for a in t_]
            order = [i for i in range(rank) if i not in s_]
            for dst, srcax in sorted(zip(t_, s_)):
                order.insert(dst, srcax)
            return [inner[i] for i in order]
        if short == "transpose":
            if is_np:
                inner = _labels_eval(kwarg(expr, "a", 0), facts)
                axes = kwarg(expr, "axes", 1)
                perm = _lit(axes) if axes is not None else list(range(len(inner)))[::-1]
            else:
                inner = _labels_eval(expr.func.value, facts)
                perm = (_lit(expr.args[0]) if len(expr.args) == 1 else [_lit(a) for a in expr.args]) if expr.args else list(range(len(inner)))[::-1]
                perm = list(perm) if not isinstance(perm, int) else [perm]
            return [inner[i] for i in perm]
        if short == "swapaxes":
            if is_np:
                inner = _labels_eval(kwarg(expr, "a", 0), facts)
                a, b = _lit(kwarg(expr, "axis1", 1)), _lit(kwarg(expr, "axis2", 2))
            else:
                inner = _labels_eval(expr.func.value, facts)
                a, b = _lit(kwarg(expr, "axis1", 0)), _lit(kwarg(expr, "axis2", 1))
            inner = list(inner)
            inner[a], inner[b] = inner[b], inner[a]
            return inner
        raise Undecided(f"label flow: call {d or n(expr.func)[:40]}")
    if isinstance(expr, ast.Subscript):
        inner = _labels_eval(expr.value, facts)
        sl = expr.slice
        elts = sl.elts if isinstance(sl, ast.Tuple) else [sl]
        # only truncating slices / ellipsis keep the labels
        if all(isinstance(e, ast.Slice) or (isinstance(e, ast.Constant) and e.value is Ellipsis) for e in elts) and not isinstance(inner, tuple):
            return inner
        raise Undecided(f"label flow: subscript {n(expr)[:60]}")
    raise Undecided(f"label flow: expression {type(expr).__name__} `{n(expr)[:40]}`")


def _evaluate_summary(S) -> bool:
    """Polynomial.evaluate returns (points, *axes not evaluated): it starts from ones((npoints,) + coefficients.shape) and sums
    coefficients[None, ...] * polynomials over the evaluated axes shifted by one"""
    fe = S.func("polynomial:Polynomial.evaluate")
    prm = _params(fe)
    if len(prm) != 2:
        return False
    COORD, AXES = prm

    def choose(t):     # a 2-d array of points and explicit axes are given
        if eqx(t, f"{AXES} is None"):
            return False
        if isinstance(t, ast.Compare) and len(t.ops) == 1 and isinstance(t.ops[0], ast.Eq) and eqx(t.comparators[0], "1") and isinstance(t.left, ast.Call) \
                and eqx(t.left.func, "len") and isinstance(t.left.args[0], ast.Attribute) and t.left.args[0].attr == "shape":
            return False
        return None
    G = Flat(S, fe, choose=choose)
    if len(G.returns) != 1:
        return False
    ret = G.returns[0][1]
    if isinstance(ret, ast.Call) and (dotted(ret.func) or "") in ("np.array", "np.asarray") and len(ret.args) == 1:
        ret = ret.args[0]
    b = match(ret, f"np.sum(self.coefficients[None, ...] * __P, axis=tuple(np.array({AXES}) + 1))")
    if b is None:
        return False
    first = G.defs.get(b["P"], [None])[0]
    return first is not None and (eqx(first, f"np.ones((np.asarray({COORD}).shape[1],) + self.coefficients.shape)")
                                  or eqx(first, f"np.ones(({COORD}.shape[1],) + self.coefficients.shape)"))


def _np_call(e: ast.AST, *names: str) -> bool:
    return isinstance(e, ast.Call) and (dotted(e.func) or "") in {f"{m}.{k}" for m in ("np", "numpy") for k in names}


def _unwrap_array(e: ast.AST) -> ast.AST:
    while _np_call(e, "array", "asarray", "asanyarray", "ascontiguousarray") and len(e.args) == 1 and not e.keywords:
        e = e.args[0]
    return e


def _c_order(call: ast.Call, pos=None) -> bool:
    o = kwarg(call, "order", pos)
    return o is None or eqx(o, "'C'")


def _flat_shape(sh) -> bool:
    """-1 / (-1,): one axis"""
    return sh is not None and (eqx(sh, "-1") or eqx(sh, "(-1,)") or eqx(sh, "[-1]"))


def _row_shape(sh) -> bool:
    """(1, -1): the same elements in the same order as a 1 x n row"""
    return sh is not None and (eqx(sh, "(1, -1)") or eqx(sh, "[1, -1]"))


def _reshape_parts(e: ast.AST):
    """(array, shape, C order?) of array.reshape(shape) / array.reshape(a, b) / np.reshape(array, shape)"""
    if _np_call(e, "reshape"):
        return kwarg(e, "a", 0), kwarg(e, "shape", 1) or kwarg(e, "newshape"), _c_order(e, 2)
    if isinstance(e, ast.Call) and isinstance(e.func, ast.Attribute) and e.func.attr == "reshape":
        sh = e.args[0] if len(e.args) == 1 else (ast.Tuple(elts=list(e.args), ctx=ast.Load()) if e.args else kwarg(e, "shape"))
        return e.func.value, sh, _c_order(e)
    return None


class _Product:
    """The flattened pair of coordinate arrays of a product grid that is written without meshgrid: row 0 holds every element of `first` repeated
    len(second) times in a block (np.repeat), row 1 holds `second` as a whole, len(first) times over (np.tile) -- element i * len(second) + j is
    (first[i], second[j]), which is meshgrid(first, second, indexing='ij') flattened in C order.  One object per row: `kind` says how the row is
    built ('repeat' / 'tile'), `array` which coordinate array it holds and `count` how often (an expression)."""

    def __init__(self, kind: str, array: ast.AST, count: ast.AST):
        self.kind, self.array, self.count = kind, array, count


def _repeat_or_tile(e: ast.AST):
    """_Product row of np.repeat(a, n) / a.repeat(n) (no axis: element-wise blocks of the flattened array) or np.tile(a, n) / np.tile(a, (n,))"""
    if not isinstance(e, ast.Call):
        return None
    if _np_call(e, "repeat"):
        a, cnt, ax = kwarg(e, "a", 0), kwarg(e, "repeats", 1), kwarg(e, "axis", 2)
        if a is not None and cnt is not None and (ax is None or eqx(ax, "None") or eqx(ax, "0")) and len(e.args) + len(e.keywords) <= 3:
            return _Product("repeat", a, cnt)
        return None
    if isinstance(e.func, ast.Attribute) and e.func.attr == "repeat" and not _np_call(e, "repeat") and dotted(e.func.value) not in ("np", "numpy", "itertools"):
        cnt, ax = kwarg(e, "repeats", 0), kwarg(e, "axis", 1)
        if cnt is not None and (ax is None or eqx(ax, "None") or eqx(ax, "0")) and len(e.args) + len(e.keywords) <= 2:
            return _Product("repeat", e.func.value, cnt)
        return None
    if _np_call(e, "tile") and len(e.args) + len(e.keywords) == 2:
        a, reps = kwarg(e, "A", 0), kwarg(e, "reps", 1)
        if a is None or reps is None:
            return None
        if isinstance(reps, (ast.Tuple, ast.List)):
            if len(reps.elts) != 1:
                return None
            reps = reps.elts[0]
        return _Product("tile", a, reps)
    return None


def _grid_row(e: ast.AST):
    """(meshgrid call, k, flattened, kept as 1 x n row) when e is component k of a meshgrid(...) result, possibly flattened in C order;
    (_Product row, k, True, kept as 1 x n row) for the repeat / tile spelling of a flattened component (k: 0 for repeat, 1 for tile)"""
    e = _unwrap_array(e)
    rt = _repeat_or_tile(e)
    if rt is not None:
        return rt, 0 if rt.kind == "repeat" else 1, True, False
    if isinstance(e, ast.Subscript) and isinstance(e.slice, ast.Constant) and isinstance(e.slice.value, int) and not isinstance(e.slice.value, bool):
        m = _unwrap_array(e.value)
        if isinstance(m, ast.Call) and _short(m) == "meshgrid" and e.slice.value in (0, 1):
            return m, e.slice.value, False, False
        return None
    if isinstance(e, ast.Call):
        inner, as_row = None, False
        rp = _reshape_parts(e)
        if rp is not None:
            if rp[0] is not None and rp[2] and (_flat_shape(rp[1]) or _row_shape(rp[1])):
                inner, as_row = rp[0], _row_shape(rp[1])
        elif isinstance(e.func, ast.Attribute) and e.func.attr in ("ravel", "flatten") and not _np_call(e, "ravel") and len(e.args) + len(e.keywords) <= 1 and _c_order(e, 0):
            inner = e.func.value
        elif _np_call(e, "ravel") and len(e.args) == 1 and _c_order(e, 1):
            inner = e.args[0]
        r = _grid_row(inner) if inner is not None else None
        return (r[0], r[1], True, as_row) if r is not None else None
    return None


def _grid_rows(e: ast.AST):
    """the rows of a (2, ...) array built from a meshgrid(...) result: [(meshgrid call, k, flattened, 1 x n row)], None when the construction
    is not understood"""
    e = _unwrap_array(e)
    if isinstance(e, ast.Call) and _short(e) == "meshgrid":
        return [(e, 0, False, False), (e, 1, False, False)] if len(e.args) == 2 else None
    if isinstance(e, (ast.Tuple, ast.List)):
        rows = [_grid_row(x) for x in e.elts]
        return rows if rows and all(r is not None for r in rows) else None
    if _np_call(e, "stack", "vstack", "concatenate"):
        kind = _short(e)
        seq = kwarg(e, "tup", 0) if kind == "vstack" else kwarg(e, "arrays", 0)
        ax = kwarg(e, "axis", 1) if kind != "vstack" else None
        if seq is None or (ax is not None and not eqx(ax, "0")):
            return None
        rows = _grid_rows(seq)
        if rows is None:
            return None
        # np.stack puts a new leading axis in front of equal-shaped pieces; np.vstack / np.concatenate join rows that are already there
        if kind == "stack":
            return rows if not any(r[3] for r in rows) else None
        if kind == "vstack":
            return [r[:3] + (False,) for r in rows] if all(r[2] for r in rows) else None
        return [r[:3] + (False,) for r in rows] if all(r[2] and r[3] for r in rows) else None
    if _np_call(e, "flip") and kwarg(e, "axis", 1) is not None and eqx(kwarg(e, "axis", 1), "0"):
        rows = _grid_rows(kwarg(e, "m", 0))
        return rows[::-1] if rows is not None else None
    rp = _reshape_parts(e)
    if rp is not None:
        inner, sh, okc = rp
        rows = _grid_rows(inner) if inner is not None else None
        # (2, n, n) -> (2, n * n) in C order flattens each component separately
        if rows is None or not isinstance(sh, (ast.Tuple, ast.List)) or len(sh.elts) != 2 or not eqx(sh.elts[0], "2") or len(rows) != 2 or any(r[3] for r in rows):
            return None
        return [(m, k, okc, False) for m, k, _, _ in rows]      # any other memory order interleaves the components differently: not "flattened in C order"
    return None


def _length_of(e: ast.AST, P_GRID: str, attr: str) -> bool:
    """e is the number of points of the target grid's coordinate array `attr` (rzValues / rpValues: N - 1 points each)"""
    a = f"{P_GRID}.{attr}"
    return any(eqx(e, t) for t in (f"{P_GRID}.N - 1", f"len({a})", f"{a}.size", f"{a}.shape[0]"))


def _product_row(r, k: int, P_GRID: str) -> bool:
    """row k of the points array is the flattened component k of the (rz, rp) product grid in C order, written without meshgrid:
    np.repeat(rz, len(rp)) for k = 0, np.tile(rp, len(rz)) for k = 1"""
    p, kk, flat, as_row = r
    if not isinstance(p, _Product) or kk != k or not flat or as_row:
        return False
    if k == 0:
        return p.kind == "repeat" and eqx(p.array, f"{P_GRID}.rzValues") and _length_of(p.count, P_GRID, "rpValues")
    return p.kind == "tile" and eqx(p.array, f"{P_GRID}.rpValues") and _length_of(p.count, P_GRID, "rzValues")


def _product_grid(gp: ast.AST, P_GRID: str) -> bool:
    """gp is the (2, n) array [np.repeat(rz, len(rp)), np.tile(rp, len(rz))]: the C-order flattened ij-meshgrid pair without meshgrid.  The reverse
    pairing (tile of rz, repeat of rp) enumerates the points in Fortran order and is not accepted."""
    rows = _grid_rows(gp)
    return rows is not None and len(rows) == 2 and _product_row(rows[0], 0, P_GRID) and _product_row(rows[1], 1, P_GRID)


def _points_grid(gp: ast.AST, P_GRID: str) -> bool:
    """gp is meshgrid(rz, rp, indexing='ij') with each of the two components flattened in C order, rz component first"""
    mg = {nf(c): c for c in ast.walk(gp) if isinstance(c, ast.Call) and _short(c) == "meshgrid"}
    if not mg:
        return _product_grid(gp, P_GRID)
    if len(mg) != 1:
        return False
    (m,) = mg.values()
    ind = kwarg(m, "indexing")
    if not (len(m.args) == 2 and eqx(m.args[0], f"{P_GRID}.rzValues") and eqx(m.args[1], f"{P_GRID}.rpValues") and ind is not None and eqx(ind, "'ij'")
            and all(k.arg == "indexing" for k in m.keywords)):
        return False
    rows = _grid_rows(gp)
    if rows is not None:
        # a row may also be written without meshgrid (np.repeat / np.tile): it must then be that same component
        return [r[1:] for r in rows] == [(0, True, False), (1, True, False)] and all(not isinstance(r[0], _Product) or _product_row(r, k, P_GRID) for k, r in enumerate(rows))
    # a construction that is not decoded: the (single) meshgrid result is used as a whole
    occurrences = [c for c in ast.walk(gp) if isinstance(c, ast.Call) and _short(c) == "meshgrid"]
    picked = [x for x in ast.walk(gp) if isinstance(x, ast.Subscript) and isinstance(_unwrap_array(x.value), ast.Call) and _short(_unwrap_array(x.value)) == "meshgrid"]
    return len(occurrences) == 1 and not picked


def r14_4(chk: Check) -> None:
    S = chk.src
    fi = S.func(f"{CA}.interpolateCollisionArray")
    chk.touch(fi.name)
    prm = _params(fi)
    if len(prm) != 2:
        raise AnchorMissing("interpolateCollisionArray: expected the parameters (srcCollision, targetGrid)")
    P_SRC, P_GRID = prm
    ci = S.cls(CA)
    labels = ci.consts.get("AXIS_LABELS")
    if labels is None:
        raise AnchorMissing("CollisionArray.AXIS_LABELS not found")
    src_labels = [e.value for e in labels.elts]
    src_labels = ["particles1" if (l == "particles" and i == 0) else ("particles2" if l == "particles" else l) for i, l in enumerate(src_labels)]
    # summary of Polynomial.evaluate: result axes = (points,) + coefficient axes not evaluated
    fe = S.func("polynomial:Polynomial.evaluate")
    chk.touch(fe.name)
    ok_sum = _evaluate_summary(S)
    # a refactored evaluate() is not a violation: the summary is then undecided (exit 2)
    chk.ob("R14.4", fe.where(), "Polynomial.evaluate returns (points, *axes not evaluated): summary used by the label flow",
           True if ok_sum else None, "evaluate() no longer has the shape the summary was derived from", key="evaluate-summary")
    G = Flat(S, fi)
    # target labels from the Polynomial(...) built from the interpolated data
    pols = {nf(c): c for vals in G.defs.values() for v in vals for c in ast.walk(v) if isinstance(c, ast.Call) and _short(c) == "Polynomial"}
    pols.update({nf(c): c for _, v in G.returns for c in ast.walk(v) if isinstance(c, ast.Call) and _short(c) == "Polynomial"})
    target = [c for c in pols.values() if isinstance(kwarg(c, "direction", 3), ast.Tuple)]
    if len(target) != 1:
        raise AnchorMissing("interpolateCollisionArray: Polynomial(...) for the interpolated data not found")
    data = kwarg(target[0], "coefficients", 0)
    tl = ["particles1", "pz", "pp", "particles2", "polynomial1", "polynomial2"]
    facts = {"source_labels": src_labels}
    res = _labels_eval(data, facts)
    ev = facts.get("evaluate")
    # points grid: meshgrid(rz, rp, indexing='ij').reshape((2, (N-1)**2))  -> points == pz (x) pp in C order
    gp = kwarg(ev, "compactCoord", 0) if ev is not None else None
    okg = gp is not None and _points_grid(gp, P_GRID)
    chk.ob("R14.4", fi.where(), "evaluation points are meshgrid(rz, rp, indexing='ij') flattened: point index == pz (x) pp in C order", okg,
           n(gp)[:160] if gp is not None else "", key="points-grid")
    # evaluate along axes (1, 2) with the points grid
    oke = ev is not None and gp is not None and eqx(kwarg(ev, "axes", 1), "(1, 2)") and len(calls_in(fi.node, "evaluate")) == 1
    chk.ob("R14.4", fi.where(), "the source polynomial is evaluated at the points grid along the momentum axes (1, 2)", oke,
           n(ev)[:100] if ev is not None else "", key="evaluate-call")
    shape = None
    if isinstance(res, tuple) and res[0] == "reshape":
        inner, shape = res[1], res[2]
        flat = []
        for l in inner:
            flat += ["pz", "pp"] if l == "points" else [l]
        ok = flat == tl and not isinstance(inner, tuple)
        detail = f"array axes before reshape {inner} flatten to {flat}; reshape target axes {tl}"
    else:
        flat = []
        for l in res:
            flat += ["pz", "pp"] if l == "points" else [l]
        ok = flat == tl and "points" not in res
        detail = f"axes {res}"
    chk.ob("R14.4", fi.where(), "reshape of the interpolated data only splits the point axis into (pz, pp): the flattened axis order equals the "
           "target order (particles, pz, pp, particles, poly, poly) for any number of particles", ok, detail, key="reshape-order")
    okn = False
    if shape is not None:
        for who in (f"copy.deepcopy({P_SRC})", f"deepcopy({P_SRC})", P_SRC):
            L, N1 = f"len({who}.particles)", f"{P_GRID}.N - 1"
            okn = okn or eqx(shape, f"2 * ({L}, {N1}, {N1})") or eqx(shape, f"({L}, {N1}, {N1}, {L}, {N1}, {N1})") or eqx(shape, f"({L}, {N1}, {N1}) * 2") \
                or eqx(shape, f"({L}, {N1}, {N1}) + ({L}, {N1}, {N1})")
    chk.ob("R14.4", fi.where(), "target shape is (particles, N-1, N-1) twice", okn, n(shape) if shape is not None else "", key="target-shape")
    chk.floor("R14.4", 5)


def _returned_after_change(S, fi, arg_ok) -> bool:
    """the function returns an object on which changeBasis(<arg>) has been called last: `x.changeBasis(a); return x` or
    `return x.changeBasis(a)` (changeBasis returns the object itself)"""
    g = CFG(fi.node)
    cx = Ctx(S, fi)
    rets = [r for r in own_nodes(fi.node) if isinstance(r, ast.Return)]
    if len(rets) != 1 or rets[0].value is None:
        return False
    v = rets[0].value
    if isinstance(v, ast.Call) and isinstance(v.func, ast.Attribute) and v.func.attr == "changeBasis" and isinstance(v.func.value, ast.Name):
        a = kwarg(v, "newBasisType", 0)
        return a is not None and arg_ok(a, cx) and len(v.args) + len(v.keywords) == 1
    if not isinstance(v, ast.Name):
        return False
    obj = v.id
    cb = [c for c in calls_in(fi.node, "changeBasis") if eqx(c.func, f"{obj}.changeBasis")]
    good = [g.node_of(c) for c in cb if kwarg(c, "newBasisType", 0) is not None and arg_ok(kwarg(c, "newBasisType", 0), cx)]
    other = [g.node_of(c) for c in cb if g.node_of(c) not in good]
    rebinds = [q for q in g.nodes if isinstance(q, ast.Assign) and any(isinstance(t, ast.Name) and t.id == obj for t in q.targets)]
    return bool(good) and g.must_pass(CFG.ENTRY, rets[0], lambda q: any(q is x for x in good)) \
        and not any(g.reaches([b], rets[0], avoid=lambda q: any(q is x for x in good)) for b in other + rebinds)


def r14_5(chk: Check) -> None:
    S = chk.src
    fi = S.func(f"{CA}.interpolateCollisionArray")
    P_SRC, P_GRID = _params(fi)[:2]
    g = CFG(fi.node)
    cx = Ctx(S, fi)
    G = Flat(S, fi)

    def is_copy(e):
        return isinstance(e, ast.Call) and _short(e) == "deepcopy" and len(e.args) == 1 and eqx(e.args[0], P_SRC)

    def at(node, expr):    # the expression as it stands at the statement containing `node`
        st = g.node_of(node)
        env = G.before.get(id(st)) if st is not None else None
        return G.res(expr, env) if env is not None else expr
    dc = [c for c in calls_in(fi.node, "deepcopy")]
    evs = [c for c in calls_in(fi.node, "evaluate")]
    ok = len(dc) == 1 and is_copy(cx.resolve(dc[0])) and bool(evs) \
        and all(isinstance(c.func.value, ast.Attribute) and is_copy(at(c, c.func.value.value)) for c in evs)
    chk.ob("R14.5", fi.where(), "interpolation works on a deep copy of the source collision array", ok, key="deepcopy")
    cb = [c for c in calls_in(fi.node, "changeBasis") if isinstance(c.func, ast.Attribute)]
    to_cheb = [g.node_of(c) for c in cb if is_copy(at(c, c.func.value)) and kwarg(c, "newBasisType", 0) is not None and eqx(at(c, kwarg(c, "newBasisType", 0)), "'Chebyshev'")]
    other = [g.node_of(c) for c in cb if is_copy(at(c, c.func.value)) and g.node_of(c) not in to_cheb]
    ev = [g.node_of(c) for c in evs]
    ok = bool(to_cheb) and bool(ev) and all(e is not None and g.must_pass(CFG.ENTRY, e, lambda q: any(q is x for x in to_cheb))
                                            and not any(g.reaches([b], e, avoid=lambda q: any(q is x for x in to_cheb)) for b in other) for e in ev)
    chk.ob("R14.5", fi.where(), "the copy is converted to the Chebyshev basis before it is evaluated", ok, key="chebyshev-first")
    ok = _returned_after_change(S, fi, lambda a, c: eqx(a, f"{P_SRC}.getBasisType()", c) or eqx(a, f"{P_SRC}.basisType", c))
    chk.ob("R14.5", fi.where(), "the result is converted back to the source's basis and returned", ok, key="convert-back")
    pol = [c for c in calls_in(fi.node, "Polynomial")]
    ok = len(pol) == 1 and eqx(kwarg(pol[0], "basis", 2), "('Array', 'Cardinal', 'Cardinal', 'Array', 'Chebyshev', 'Chebyshev')", cx) \
        and eqx(kwarg(pol[0], "grid", 1), P_GRID, cx)
    chk.ob("R14.5", fi.where(), "interpolated data is declared on the target grid as (Array, Cardinal, Cardinal, Array, Chebyshev, Chebyshev)", ok,
           key="declared-bases")
    # loader: changeBasis(basisType) applied to the final object; bases of the stored data taken from the file
    fl = S.func(f"{CA}.newFromDirectory")
    P_BASIS = _params(fl)[2]
    ok = _returned_after_change(S, fl, lambda a, c: eqx(a, P_BASIS, c))
    chk.ob("R14.5", fl.where(), "newFromDirectory returns the array converted to the requested basis", ok, key="loader-final-basis")
    L = Flat(S, fl)
    pols = [c for c in calls_in(fl.node, "Polynomial")]
    ok = len(pols) >= 1
    cl = Ctx(S, fl)
    for c in pols:
        b = kwarg(c, "basis", 2)
        m = match(cl.resolve(b), "('Array', 'Cardinal', 'Cardinal', 'Array', __B, __B)") if b is not None else None
        # __B remembers the basis type read from the files' metadata
        ok = ok and m is not None and any(any(isinstance(x, ast.Subscript) and eqx(x.slice, "'Basis Type'") for x in ast.walk(v)) for v in L.defs.get(m["B"], []))
    chk.ob("R14.5", fl.where(), "stored data is declared in the basis recorded in the files", ok, key="loader-file-basis")
    chk.floor("R14.5", 6)


def r14_6(chk: Check) -> None:
    """the buffer that collects the per-pair blocks is allocated once: before the pair loops, or inside them under a guard that only the first
    file passes -- re-allocating it later wipes the blocks already stored"""
    S = chk.src
    fi = S.func(f"{CA}.newFromDirectory")
    chk.touch(fi.name)
    loops = [x for x in ast.walk(fi.node) if isinstance(x, ast.For) and isinstance(x.iter, ast.Call) and _short(x.iter) == "enumerate"
             and isinstance(x.target, ast.Tuple) and isinstance(x.target.elts[0], ast.Name)]
    outer = [l for l in loops if any(m is not l and any(y is m for y in ast.walk(l)) for m in loops)]
    inner = [m for l in outer for m in loops if m is not l and any(y is m for y in ast.walk(l))]
    if len(outer) != 1 or len(inner) != 1:
        raise AnchorMissing("newFromDirectory: the two nested enumerate(particles) loops not found")
    i, j = outer[0].target.elts[0].id, inner[0].target.elts[0].id
    stores = [st for st in ast.walk(inner[0]) if isinstance(st, ast.Assign) and isinstance(st.targets[0], ast.Subscript)
              and isinstance(st.targets[0].value, ast.Name) and {i, j} <= {x.id for x in ast.walk(st.targets[0].slice) if isinstance(x, ast.Name)}]
    if len(stores) != 1:
        raise AnchorMissing("newFromDirectory: the per-pair store buffer[i, ..., j, ...] = dataset not found")
    B = stores[0].targets[0].value.id
    in_loop = {id(y) for y in ast.walk(outer[0])}
    allocs = []
    for guards, st in walk_guarded(fi.node):
        if isinstance(st, (ast.Assign, ast.AnnAssign)) and n(st.targets[0] if isinstance(st, ast.Assign) else st.target) == B and st.value is not None \
                and isinstance(st.value, ast.Call) and _short(st.value) in ("zeros", "empty", "full", "zeros_like", "empty_like"):
            allocs.append((guards, st))
    if not allocs:
        raise AnchorMissing(f"newFromDirectory: the allocation of the pair buffer `{B}` not found")
    bad = []
    for guards, st in allocs:
        if id(st) not in in_loop:
            continue          # allocated once, before the loops
        first_only = False
        for t, pol in guards:
            if isinstance(t, tuple):
                continue
            conj = list(t.values) if isinstance(t, ast.BoolOp) and isinstance(t.op, ast.And) and pol else [t]
            if pol and any(eqx(c, f'"{B}" not in locals()') or eqx(c, f"{B} is None") for c in conj):
                first_only = True
            if pol and any(eqx(c, f"{i} == 0") for c in conj) and any(eqx(c, f"{j} == 0") for c in conj):
                first_only = True
            if pol and any(eqx(c, f"{i} + {j} == 0") or eqx(c, f"({i}, {j}) == (0, 0)") for c in conj):
                first_only = True
            if (not pol) and (eqx(t, f'"{B}" in locals()') or eqx(t, f"{B} is not None")):
                first_only = True
        if not first_only:
            bad.append(f"line {st.lineno}: `{B} = {_short(st.value)}(...)` inside the pair loops under guards {[n(t) for t, _ in guards if not isinstance(t, tuple)][-2:]}")
    chk.ob("R14.1", fi.where(allocs[0][1]), "the buffer receiving the per-pair blocks is allocated once (before the pair loops, or under a guard only the "
           "first file passes): blocks stored for earlier pairs are never wiped", not bad, "; ".join(bad)[:300], key="alloc-once")


def rules(chk: Check) -> None:
    chk.src.cls(CA)
    for grp in (r14_1, r14_6, r14_2, r14_3, r14_4, r14_5):
        chk.stage(grp, chk)
    from .shared import called_for_effect_mutates
    chk.stage(called_for_effect_mutates, chk, "R14.3", "changeBasis")
