"""C12 -- Boltzmann solution reflects the physics, not the discretisation choices.

R12.1 both derivative modes differentiate the same background profiles (sibling branches)
R12.2 source is homogeneous linear in the three profile derivatives; _dfeq == d/dx _feq
R12.3 one linear system: deltaF = solve(operator, source) from one assembly; reshapes share order and factor list
R12.4 axis roles of every factor in the Liouville and collision products; matrices built for the right direction/basis
R12.5 the background is boosted on a deep copy
R12.6 deltaF is converted to grid values on every polynomial axis before z-dependent point-wise weights are applied

How the code is recognised (nothing below depends on the spelling of a local variable, on temporaries, on extracted simple
helpers, on keyword vs positional arguments or on the order of commutative operands):

  * `Flat` substitutes every local of buildLinearEquations forward by its definition, once per derivative mode.  What the
    function returns -- (operator, source, liouville, collision), a public tuple -- is then an expression over public API
    only (self.background.*, self.grid.*, Polynomial(...), findiff.FinDiff(...)), except for the quantities assigned inside
    the two derivative-mode branches, which are kept symbolic (their two definitions are compared by R12.1).
  * arithmetic is compared as sympy terms (terms.Extractor) after the non-arithmetic leaves have been given a ROLE from
    the public API they are read from (temperature profile, velocity profile, wall velocity, masses, statistics, momenta,
    compactification Jacobians); the three profile derivatives are identified by the slot they occupy in the source term.
"""
from __future__ import annotations

import ast
import copy
from fractions import Fraction
from typing import Callable, Optional

import sympy as sp

from ..core import AnchorMissing, Check, Undecided, calls_in, dotted, kwarg, own_nodes, src
from ..flow import CFG
from ..nf import Ctx, eqx, has, match, nf, same
from ..terms import Extractor, WHERE, is_zero

LEVEL = "other"
BS = "boltzmann:BoltzmannSolver"
# role labels of the three profile derivatives (stable parts of obligation keys) -> background attribute they differentiate
PROFILES = {"dTemperaturedChi": "temperatureProfile", "dvdChi": "velocityProfile", "dMsqdChi": "fieldProfiles"}
PROFILE_LABEL = {"dTemperaturedChi": "temperatureFull", "dvdChi": "vFull", "dMsqdChi": "msqFull"}
# Polynomial(coefficients, grid, basis, direction, endpoints): arguments are read with kwarg(call, name, position)


def n(x) -> str:
    return " ".join(src(x).split())


# ------------------------------------------------------------------------------------------------ forward substitution


def _bound_names(t: ast.AST) -> set:
    return {x.id for x in ast.walk(t) if isinstance(x, ast.Name)}


def assigned_names(stmts) -> set:
    """names (re)bound anywhere inside the statements (not inside nested defs / lambdas / comprehensions)"""
    out = set()
    stack = list(stmts)
    while stack:
        x = stack.pop()
        if isinstance(x, (ast.FunctionDef, ast.AsyncFunctionDef, ast.ClassDef)):
            out.add(x.name)
            continue
        if isinstance(x, (ast.Lambda, ast.ListComp, ast.SetComp, ast.DictComp, ast.GeneratorExp)):
            continue
        if isinstance(x, ast.Assign):
            for t in x.targets:
                out |= {y.id for y in ast.walk(t) if isinstance(y, ast.Name) and isinstance(y.ctx, ast.Store)}
        elif isinstance(x, (ast.AugAssign, ast.AnnAssign)):
            if isinstance(x.target, ast.Name):
                out.add(x.target.id)
        elif isinstance(x, (ast.For, ast.AsyncFor)):
            out |= _bound_names(x.target)
        elif isinstance(x, (ast.With, ast.AsyncWith)):
            for it in x.items:
                if it.optional_vars is not None:
                    out |= _bound_names(it.optional_vars)
        elif isinstance(x, ast.NamedExpr):
            out |= _bound_names(x.target)
        elif isinstance(x, ast.ExceptHandler) and x.name:
            out.add(x.name)
        stack.extend(ast.iter_child_nodes(x))
    return out


class _Subst(ast.NodeTransformer):
    """replace free local names by their current definitions (names bound by comprehensions / lambdas are left alone)"""

    def __init__(self, env: dict, bound=frozenset()):
        self.env, self.bound = env, bound

    def visit_Name(self, x):
        if isinstance(x.ctx, ast.Load) and x.id in self.env and x.id not in self.bound:
            return copy.deepcopy(self.env[x.id])
        return x

    def _scoped(self, x, names):
        return _Subst(self.env, self.bound | frozenset(names)).generic_visit(x)

    def _comp(self, x):
        names = set()
        for g in x.generators:
            names |= _bound_names(g.target)
        return self._scoped(x, names)

    visit_ListComp = visit_SetComp = visit_GeneratorExp = visit_DictComp = _comp

    def visit_Lambda(self, x):
        a = x.args
        names = {p.arg for p in a.posonlyargs + a.args + a.kwonlyargs}
        if a.vararg:
            names.add(a.vararg.arg)
        if a.kwarg:
            names.add(a.kwarg.arg)
        return self._scoped(x, names)


class Flat:
    """Forward substitution through the body of one function.

    Every local is replaced by its definition at the point of use, so that what the function returns / stores / calls is an
    expression over its parameters and `self` only; simple extracted helpers are looked through (Ctx.resolve).
      choose(test) -> True / False / None   decides an `if` (the test is already resolved); an undecided `if` forks and the
                                            two environments are merged with conditional expressions
      hold                                  names assigned inside a decided `if` stay symbolic afterwards; their definitions
                                            are kept in `held` (substitute them with full())
    Names assigned inside loops / handlers are opaque (they stand for themselves)."""

    def __init__(self, S, fi, choose: Optional[Callable] = None, hold: bool = False, keep_calls=frozenset()):
        self.S, self.fi = S, fi
        self.cx = Ctx(S, fi)
        self.choose = choose or (lambda t: None)
        self.hold = hold
        self.keep_calls = set(keep_calls)
        a = fi.node.args
        self.params = [p.arg for p in a.posonlyargs + a.args + a.kwonlyargs]
        self.names = assigned_names(fi.node.body) | set(self.params)
        self.env: dict = {}
        self.defs: dict = {}       # name -> [resolved value of every assignment, in order]
        self.held: dict = {}       # name -> resolved definition inside the decided branch
        self.decided: list = []    # the `if` statements decided by choose
        self.events: list = []     # (statement, resolved expression) of expression statements and non-local stores
        self.returns: list = []    # (statement, resolved value)
        self.before: dict = {}     # id(simple statement) -> environment just before it
        self.tests: dict = {}      # id(test expression of an if / while) -> resolved test
        self.iters: dict = {}      # id(for statement) -> resolved iterable
        self._block(fi.node.body, self.env)

    # -- expressions
    def res(self, e, env=None):
        if e is None:
            return None
        r = self.cx.resolve(e, keep=self.names, helpers=True, keep_calls=self.keep_calls)
        return _Subst(self.env if env is None else env).visit(r)

    def full(self, e):
        """copy of a resolved expression with the held names replaced by their definitions"""
        out = copy.deepcopy(e)
        for _ in range(4):
            if not any(isinstance(x, ast.Name) and x.id in self.held for x in ast.walk(out)):
                break
            out = _Subst(self.held).visit(out)
        return out

    # -- statements
    def _opaque(self, names, env):
        for nm in names:
            env[nm] = ast.Name(id=nm, ctx=ast.Load())

    def _bind(self, t, v, env, st):
        if isinstance(t, ast.Name):
            env[t.id] = v
            self.defs.setdefault(t.id, []).append(v)
        elif isinstance(t, (ast.Tuple, ast.List)):
            if any(isinstance(e, ast.Starred) for e in t.elts):
                self._opaque(_bound_names(t), env)
                return
            same_len = isinstance(v, (ast.Tuple, ast.List)) and len(v.elts) == len(t.elts)
            for i, e in enumerate(t.elts):
                self._bind(e, v.elts[i] if same_len else ast.Subscript(value=copy.deepcopy(v), slice=ast.Constant(value=i), ctx=ast.Load()), env, st)
        else:
            self.events.append((st, ast.Assign(targets=[self._target(t, env)], value=v, lineno=getattr(st, "lineno", 0))))

    def _target(self, t, env):
        """a store target `root[...]...` / `root.attr...`: indices are resolved, the object stored into keeps its name"""
        if isinstance(t, ast.Subscript):
            return ast.Subscript(value=self._target(t.value, env), slice=self.res(t.slice, env), ctx=ast.Load())
        if isinstance(t, ast.Attribute):
            return ast.Attribute(value=self._target(t.value, env), attr=t.attr, ctx=ast.Load())
        if isinstance(t, ast.Name):
            return ast.Name(id=t.id, ctx=ast.Load())
        return self.res(t, env)

    def _block(self, body, env) -> bool:
        for st in body:
            if self._stmt(st, env):
                return True
        return False

    def _stmt(self, st, env) -> bool:
        """True when the statement ends the block (return / raise)"""
        if isinstance(st, (ast.FunctionDef, ast.AsyncFunctionDef, ast.ClassDef)):
            return False
        if not isinstance(st, (ast.If, ast.For, ast.While, ast.Try, ast.With, ast.AsyncFor, ast.AsyncWith, ast.Match)):
            self.before[id(st)] = dict(env)
        if isinstance(st, ast.Assign):
            v = self.res(st.value, env)
            for t in st.targets:
                self._bind(t, v, env, st)
        elif isinstance(st, ast.AnnAssign):
            if st.value is not None:
                self._bind(st.target, self.res(st.value, env), env, st)
        elif isinstance(st, ast.AugAssign):
            cur = self.res(ast.copy_location(_load(st.target), st.target), env)
            v = ast.BinOp(left=cur, op=st.op, right=self.res(st.value, env))
            self._bind(st.target, v, env, st)
        elif isinstance(st, ast.Expr):
            self.events.append((st, self.res(st.value, env)))
        elif isinstance(st, ast.Return):
            self.returns.append((st, self.res(st.value, env)))
            return True
        elif isinstance(st, ast.Raise):
            return True
        elif isinstance(st, ast.If):
            t = self.res(st.test, env)
            self.tests[id(st.test)] = t
            c = self.choose(t)
            if c is None and isinstance(t, ast.Constant) and isinstance(t.value, bool):
                return self._block(st.body if t.value else st.orelse, env)     # a flag whose value is known
            if c is not None:
                self.decided.append(st)
                end = self._block(st.body if c else st.orelse, env)
                if self.hold:
                    for nm in assigned_names(st.body) | assigned_names(st.orelse):
                        if nm in env:
                            self.held[nm] = env[nm]
                            env[nm] = ast.Name(id=nm, ctx=ast.Load())
                return end
            e1, e2 = dict(env), dict(env)
            t1, t2 = self._block(st.body, e1), self._block(st.orelse, e2)
            if t1 and t2:
                return True
            if t1 or t2:
                src_env = e2 if t1 else e1
                env.clear()
                env.update(src_env)
                return False
            for k in set(e1) | set(e2):
                a, b = e1.get(k), e2.get(k)
                if a is not None and b is not None and (a is b or nf(a) == nf(b)):
                    env[k] = a
                else:
                    und = ast.Name(id=k, ctx=ast.Load())
                    env[k] = ast.IfExp(test=copy.deepcopy(t), body=a if a is not None else und, orelse=b if b is not None else und)
        elif isinstance(st, (ast.For, ast.AsyncFor, ast.While)):
            names = assigned_names([st])
            self._opaque(names, env)
            if isinstance(st, ast.While):
                self.tests[id(st.test)] = self.res(st.test, env)
            else:
                self.iters[id(st)] = self.res(st.iter, env)
            e1 = dict(env)
            self._block(st.body, e1)
            self._block(st.orelse, e1)
            self._opaque(names, env)
        elif isinstance(st, (ast.With, ast.AsyncWith)):
            for it in st.items:
                self.events.append((st, self.res(it.context_expr, env)))
                if it.optional_vars is not None:
                    self._opaque(_bound_names(it.optional_vars), env)
            return self._block(st.body, env)
        elif isinstance(st, ast.Try):
            names = set()
            for h in st.handlers:
                names |= assigned_names(h.body)
            end = self._block(st.body, env)
            if not end:
                end = self._block(st.orelse, env)
            for h in st.handlers:
                e1 = dict(env)
                self._opaque(assigned_names(st.body), e1)
                self._block(h.body, e1)
            self._opaque(names, env)
            if st.finalbody:
                end = self._block(st.finalbody, env) or end
            return end
        return False


def _load(t):
    t = copy.deepcopy(t)
    for x in ast.walk(t):
        if hasattr(x, "ctx"):
            x.ctx = ast.Load()
    return t


# ------------------------------------------------------------------------------------------------ roles of leaves


def _is_bcast(e) -> bool:
    if isinstance(e, ast.Constant) and (e.value is None or e.value is Ellipsis):
        return True
    if isinstance(e, ast.Slice) and e.lower is None and e.upper is None and e.step is None:
        return True
    return isinstance(e, ast.Attribute) and dotted(e) in ("np.newaxis", "numpy.newaxis")


def _pure_bcast(sub: ast.Subscript) -> bool:
    sl = sub.slice
    return all(_is_bcast(e) for e in (sl.elts if isinstance(sl, ast.Tuple) else [sl]))


def _kept_axes(sub: ast.Subscript):
    sl = sub.slice
    elts = sl.elts if isinstance(sl, ast.Tuple) else [sl]
    kept = []
    for i, e in enumerate(elts):
        if (isinstance(e, ast.Constant) and e.value is None) or (isinstance(e, ast.Attribute) and dotted(e) in ("np.newaxis", "numpy.newaxis")):
            continue
        if isinstance(e, ast.Slice) and e.lower is None and e.upper is None and e.step is None:
            kept.append(i)
        else:
            return None, len(elts)
    return tuple(kept), len(elts)


def _array_leaves(e: ast.AST) -> list:
    """the non-constant leaves of an arithmetic expression"""
    if isinstance(e, ast.BinOp):
        return _array_leaves(e.left) + _array_leaves(e.right)
    if isinstance(e, ast.UnaryOp):
        return _array_leaves(e.operand)
    if isinstance(e, ast.Constant):
        return []
    if isinstance(e, ast.Call) and (dotted(e.func) or "") in ARITH_FUNCS:
        return [x for a in e.args for x in _array_leaves(a)]
    return [e]


def _replace(e: ast.AST, old: ast.AST, new: ast.AST) -> ast.AST:
    """e with the node `old` replaced by `new` (e itself is left untouched)"""
    if e is old:
        return new
    if isinstance(e, ast.BinOp):
        return ast.BinOp(left=_replace(e.left, old, new), op=e.op, right=_replace(e.right, old, new))
    if isinstance(e, ast.UnaryOp):
        return ast.UnaryOp(op=e.op, operand=_replace(e.operand, old, new))
    if isinstance(e, ast.Call) and (dotted(e.func) or "") in ARITH_FUNCS:
        return ast.Call(func=e.func, args=[_replace(a, old, new) for a in e.args], keywords=e.keywords)
    return e


ARITH_FUNCS = {"np.sqrt", "numpy.sqrt", "math.sqrt", "np.exp", "numpy.exp", "np.abs", "abs"}


def _tuple_index(leaf: ast.AST, method: str) -> Optional[int]:
    """k of  <recv>.method(...)[k]  inside the leaf"""
    for x in ast.walk(leaf):
        if isinstance(x, ast.Subscript) and isinstance(x.value, ast.Call) and isinstance(x.value.func, ast.Attribute) and x.value.func.attr == method \
                and isinstance(x.slice, ast.Constant) and isinstance(x.slice.value, int):
            return x.slice.value
    return None


class Roles:
    """Gives every non-arithmetic leaf of a resolved expression a role symbol, from the public API the leaf is read from."""

    MARKS = (("T", "temperatureProfile"), ("V", "velocityProfile"), ("VW", "velocityWall"), ("MSQ", "msqVacuum"), ("STAT", "statistics"),
             ("CM", "collisionMultiplier"), ("XYZ", "getCoordinates"), ("JAC", "getCompactificationDerivatives"), ("PZ", "pzValues"), ("PP", "ppValues"))

    def __init__(self, held=()):
        self.held = set(held)
        self.leaves: dict = {}     # nf(leaf) -> (symbol, leaf node)
        self.by_role: dict = {}    # role -> [symbols]
        self.held_of: dict = {}    # role of a held quantity -> the held local names it is made of

    def classify(self, leaf: ast.AST) -> str:
        hn = {x.id for x in ast.walk(leaf) if isinstance(x, ast.Name) and x.id in self.held}
        if hn:
            # a quantity assigned inside the decided branch: H_<name> (the local itself), HS_<name> (an index / call applied to it)
            role = ("H_" if isinstance(leaf, ast.Name) else "HS_") + next(iter(hn)) if len(hn) == 1 else "D_" + "_".join(sorted(hn))
            self.held_of[role] = sorted(hn)
            return role
        attrs = {x.attr for x in ast.walk(leaf) if isinstance(x, ast.Attribute)}
        hit = [r for r, a in self.MARKS if a in attrs]
        if len(hit) != 1:
            return "U"
        r = hit[0]
        if r == "XYZ":
            k = _tuple_index(leaf, "getCoordinates")
            return {0: "XI", 1: "PZ", 2: "PP"}.get(k, "U")
        if r == "JAC":
            k = _tuple_index(leaf, "getCompactificationDerivatives")
            return f"JAC{k}" if k in (0, 1, 2) else "U"
        return r

    def symbol(self, leaf: ast.AST) -> str:
        key = nf(leaf)
        if key in self.leaves:
            return self.leaves[key][0]
        role = self.classify(leaf)
        have = self.by_role.setdefault(role, [])
        sym = role if not have else f"{role}__{len(have) + 1}"
        have.append(sym)
        self.leaves[key] = (sym, leaf)
        return sym

    def abstract(self, e: ast.AST) -> ast.AST:
        """copy of e in which every maximal non-arithmetic sub-expression is replaced by its role symbol"""
        if isinstance(e, ast.BinOp) and isinstance(e.op, (ast.Add, ast.Sub, ast.Mult, ast.Div, ast.Pow)):
            return ast.BinOp(left=self.abstract(e.left), op=e.op, right=self.abstract(e.right))
        if isinstance(e, ast.UnaryOp) and isinstance(e.op, (ast.USub, ast.UAdd)):
            return ast.UnaryOp(op=e.op, operand=self.abstract(e.operand))
        if isinstance(e, ast.Constant) and isinstance(e.value, (int, float)) and not isinstance(e.value, bool):
            return e
        if isinstance(e, ast.Attribute) and dotted(e) in ("np.pi", "numpy.pi", "math.pi"):
            return e
        if isinstance(e, ast.Call):
            d = dotted(e.func) or ""
            if d in ARITH_FUNCS or d.split(".")[-1] in ("_dfeq", "_feq"):
                return ast.Call(func=e.func, args=[self.abstract(a) for a in e.args], keywords=[ast.keyword(arg=k.arg, value=self.abstract(k.value)) for k in e.keywords])
        if isinstance(e, ast.Subscript) and _pure_bcast(e) and not (isinstance(e.value, ast.Name) and e.value.id in self.held):
            inner = e.value
            if isinstance(inner, (ast.BinOp, ast.UnaryOp)) or (isinstance(inner, ast.Call) and (dotted(inner.func) or "") in ARITH_FUNCS):
                # (1 / x)[None, :, None] == 1 / x[None, :, None]: with a single array operand the index can be moved onto it
                arrays = _array_leaves(inner)
                if len(arrays) == 1:
                    inner = _replace(inner, arrays[0], ast.Subscript(value=arrays[0], slice=e.slice, ctx=ast.Load()))
                return self.abstract(inner)
        return ast.Name(id=self.symbol(e), ctx=ast.Load())


# ------------------------------------------------------------------------------------------------ the model of buildLinearEquations


def _mode_choice(arm: str):
    """decides `self.derivatives == "Spectral"` (and its spellings) for one derivative mode"""
    def choose(t):
        if not (isinstance(t, ast.Compare) and len(t.ops) == 1 and isinstance(t.ops[0], (ast.Eq, ast.NotEq))):
            return None
        a, b = t.left, t.comparators[0]
        if eqx(b, "self.derivatives"):
            a, b = b, a
        if not (eqx(a, "self.derivatives") and isinstance(b, ast.Constant) and isinstance(b.value, str)):
            return None
        is_spec = b.value == "Spectral"
        eq = isinstance(t.ops[0], ast.Eq)
        taken = "spectral" if is_spec == eq else "fd"      # the mode in which the test is true
        return taken == arm
    return choose


class Model:
    def __init__(self, S):
        self.S = S
        self.fi = S.func(f"{BS}.buildLinearEquations")
        self.flat = {arm: Flat(S, self.fi, choose=_mode_choice(arm), hold=True, keep_calls={"_feq", "_dfeq"}) for arm in ("spectral", "fd")}
        if not all(f.decided for f in self.flat.values()):
            raise AnchorMissing("buildLinearEquations: no branch on self.derivatives")
        self.ret = {}
        for arm, f in self.flat.items():
            if len(f.returns) != 1 or not isinstance(f.returns[0][1], ast.Tuple) or len(f.returns[0][1].elts) != 4:
                raise AnchorMissing("buildLinearEquations: expected one `return operator, source, liouville, collision`")
            self.ret[arm] = f.returns[0][1].elts
        self.ex = Extractor(S)
        self.env0 = {"__module__": "boltzmann", "__class__": "BoltzmannSolver"}

    def term(self, roles: Roles, e: ast.AST):
        a = roles.abstract(e)
        ast.fix_missing_locations(a)
        return self.ex.expr(a, self.env0)


def _unreshape(e: ast.AST):
    """(inner, shape, order) of np.reshape(inner, shape, order=..) / inner.reshape(shape, order=..) / inner.ravel() / inner.flatten()"""
    if not isinstance(e, ast.Call):
        return None
    d = dotted(e.func) or ""
    if d in ("np.reshape", "numpy.reshape"):
        shape = kwarg(e, "shape", 1) or kwarg(e, "newshape")
        return (e.args[0] if e.args else kwarg(e, "a"), shape, kwarg(e, "order", 2))
    if isinstance(e.func, ast.Attribute) and e.func.attr == "reshape":
        shape = e.args[0] if len(e.args) == 1 else (ast.Tuple(elts=list(e.args), ctx=ast.Load()) if e.args else kwarg(e, "shape"))
        return (e.func.value, shape, kwarg(e, "order"))
    if isinstance(e.func, ast.Attribute) and e.func.attr in ("ravel", "flatten") and len(e.args) + len(e.keywords) <= 1:
        return (e.func.value, None, kwarg(e, "order", 0))
    return None


def _order(o) -> Optional[str]:
    if o is None:
        return "C"
    return o.value if isinstance(o, ast.Constant) and isinstance(o.value, str) else None


# ------------------------------------------------------------------------------------------------ R12.2 (run first: it identifies the derivative roles)


def _stat_ok(x: ast.IfExp) -> bool:
    return bool(match(x, '-1 if __p.statistics == "Fermion" else 1') or match(x, '1 if __p.statistics != "Fermion" else -1'))


def r12_2(chk: Check, M: Model) -> dict:
    """returns {role label: local name} of the three profile derivatives"""
    S, fi, ex = chk.src, M.fi, M.ex
    f_feq, f_dfeq = S.func(f"{BS}._feq"), S.func(f"{BS}._dfeq")
    chk.touch(f_feq.name, f_dfeq.name)
    a, b = ex.single(f_feq), ex.single(f_dfeq)
    if not (isinstance(a, sp.Basic) and a.func == WHERE and isinstance(b, sp.Basic) and b.func == WHERE):
        raise Undecided("_feq/_dfeq: expected np.where(overflow, 0, value)")
    pa, pb = [p for p in f_feq.params() if p not in ("self", "cls")], [p for p in f_dfeq.params() if p not in ("self", "cls")]
    if len(pa) != 2 or len(pb) != 2:
        raise AnchorMissing("_feq/_dfeq: expected the parameters (x, statistics)")
    x, s = ex.sym(pa[0]), ex.sym(pa[1])
    b = b.subs({ex.sym(pb[0]): x, ex.sym(pb[1]): s}, simultaneous=True)
    chk.ob("R12.2", f_feq.where(), "_feq / _dfeq: the overflow branch returns 0", a.args[1] == 0 and b.args[1] == 0,
           f"{a.args[1]}, {b.args[1]}", key="feq|overflow")
    for stat in (1, -1):
        ok, how = is_zero((sp.diff(a.args[2], x) - b.args[2]).subs(s, stat), chk.seed)
        chk.ob("R12.2", f_dfeq.where(), f"_dfeq == d/dx _feq for statistics = {stat:+d}", ok, how, key=f"dfeq|{stat}", how=how)
    for stat, nm in ((1, "Bose-Einstein 1/(e^x - 1)"), (-1, "Fermi-Dirac 1/(e^x + 1)")):
        ok, how = is_zero(a.args[2].subs(s, stat) - 1 / (sp.exp(x) - stat), chk.seed)
        chk.ob("R12.2", f_feq.where(), f"_feq is {nm}", ok, how, key=f"feq|{stat}", how=how)
    # statistics sign convention at both construction sites
    for fn_ in ("buildLinearEquations", "checkLinearization"):
        f2 = S.func(f"{BS}.{fn_}")
        oks = [_stat_ok(x_) for x_ in ast.walk(f2.node) if isinstance(x_, ast.IfExp) and any(isinstance(y, ast.Attribute) and y.attr == "statistics" for y in ast.walk(x_.test))]
        chk.ob("R12.2", f2.where(), f"{fn_}: statistics = -1 for fermions, +1 for bosons", bool(oks) and all(oks), key=f"stat|{fn_}")
    # ---- source term: the vector handed back at position 1, before it is flattened
    out: dict = {}
    results = []
    seen = set()
    for arm in ("spectral", "fd"):
        F = M.flat[arm]
        u = _unreshape(M.ret[arm][1])
        if u is None:
            raise AnchorMissing("buildLinearEquations: the returned source is not a flattened array (np.reshape / .reshape / .ravel)")
        inner = u[0]
        if nf(inner) in seen:
            continue
        seen.add(nf(inner))
        results.append(_source_checks(chk, M, F, inner))
    where = fi.where(M.flat["spectral"].returns[0][0])
    first = results[0]
    agree = all(r["slots"] == first["slots"] for r in results)
    hom = all(r["hom"][0] for r in results)
    chk.ob("R12.2", where, "source vanishes when dv/dchi = dT/dchi = dm^2/dchi = 0 (homogeneous background => zero deviation)",
           hom, first["hom"][1], key="source|homogeneous", how=first["hom"][1])
    chk.ob("R12.2", where, "source is linear in the three profile derivatives", all(r["lin"] for r in results), key="source|linear")
    okf = all(r["formula"][0] for r in results) and agree
    chk.ob("R12.2", where, "source == (f_eq'/T) dchi/dxi [P_w P_pl gamma_pl^2 dv + P_w E_pl dT/T + (1/2) dm^2 u_w.u_pl]", okf, first["formula"][1],
           key="source|formula", how=first["formula"][1])
    # kinematic building blocks: the sub-expression (or local) holding each of them has its defining form; a block that has been
    # fused into a larger expression is covered by the full identity above
    for nm in ("gammaWall", "momentumWall", "gammaPlasma", "energyPlasma", "momentumPlasma", "uwBaruPl", "energy"):
        found = all(nm in r["blocks"] for r in results)
        chk.ob("R12.2", fi.where(), f"`{nm}` has its defining Lorentz-boost form", found or okf,
               "" if found or okf else "no sub-expression of buildLinearEquations has this value and the source differs from its reference form", key=f"kin|{nm}",
               how="term-identity" if found else "source-identity")
    chk.ob("R12.2", fi.where(), "f_eq' is evaluated at E_pl/T with the particle statistics", all(r["dfeq"][0] for r in results), first["dfeq"][1], key="dfeq|arg")
    chk.floor("R12.2", 16)
    M.slot_syms = {}
    if first["slots"] and agree:
        for label, sym_ in first["slots"].items():
            names = first["roles"].held_of.get(sym_.split("__")[0], [])
            if len(names) == 1:
                out[label] = names[0]
                M.slot_syms[label] = sym_
    if len(out) != 3:
        # the source differs from its reference form (reported above): fall back on what each slot differentiates in the spectral branch,
        # so that the remaining rules can still be decided
        F = M.flat["spectral"]
        by_attr = {}
        for role, names in first["roles"].held_of.items():
            if len(names) == 1 and names[0] in F.held and role in first["roles"].by_role:
                marks = _profile_marks(F.full(F.held[names[0]]))
                if len(marks) == 1:
                    by_attr.setdefault(next(iter(marks)), []).append((names[0], first["roles"].by_role[role][0]))
        out = {label: by_attr[attr][0][0] for label, attr in PROFILES.items() if len(by_attr.get(attr, [])) == 1}
        M.slot_syms = {label: by_attr[attr][0][1] for label, attr in PROFILES.items() if len(by_attr.get(attr, [])) == 1}
    M.refs = first["refs"]
    M.roles_src = first["roles"]
    return out


def _refs(sym: Callable) -> dict:
    """reference forms over the role symbols"""
    T, V, VW, MSQ, PZ, PP = (sym(k) for k in ("T", "V", "VW", "MSQ", "PZ", "PP"))
    r = {"T": T, "V": V, "VW": VW}
    r["energy"] = sp.sqrt(MSQ + PZ**2 + PP**2)
    r["gammaWall"] = 1 / sp.sqrt(1 - VW**2)
    r["momentumWall"] = r["gammaWall"] * (PZ - VW * r["energy"])
    r["gammaPlasma"] = 1 / sp.sqrt(1 - V**2)
    r["energyPlasma"] = r["gammaPlasma"] * (r["energy"] - V * PZ)
    r["momentumPlasma"] = r["gammaPlasma"] * (PZ - V * r["energy"])
    r["uwBaruPl"] = r["gammaWall"] * r["gammaPlasma"] * (VW - V)
    r["dchidxi"] = 1 / sym("JAC0")
    r["drzdpz"] = 1 / sym("JAC1")
    return r


def _source_checks(chk: Check, M: Model, F: Flat, inner: ast.AST) -> dict:
    ex = M.ex
    roles = Roles(F.held)
    term = M.term(roles, inner)
    res = {"roles": roles, "slots": {}, "blocks": set(), "refs": _refs(ex.sym)}
    if not isinstance(term, sp.Basic):
        raise Undecided("buildLinearEquations: the source is not an arithmetic term")
    R = res["refs"]
    slots = [ex.sym(s_) for role, syms in roles.by_role.items() for s_ in syms if role in roles.held_of]
    zero = term.subs({k: 0 for k in slots})
    ok, how = is_zero(zero, chk.seed) if slots else (False, "no profile derivative enters the source")
    res["hom"] = (bool(ok), how)
    res["lin"] = bool(slots) and all(sp.diff(term, a_, b_) == 0 or is_zero(sp.diff(term, a_, b_), chk.seed)[0] for a_ in slots for b_ in slots)
    # the f_eq' factor: one application of _dfeq
    dfs = [f for f in term.atoms(sp.Function) if isinstance(f, sp.core.function.AppliedUndef) and f.func.__name__.split(".")[-1] == "_dfeq"]
    okd, detail = False, f"{len(dfs)} applications of _dfeq"
    DF = sp.Symbol("dfEq__", real=True)
    if len(dfs) == 1 and len(dfs[0].args) == 2:
        z1, h1 = is_zero(dfs[0].args[0] - R["energyPlasma"] / R["T"], chk.seed)
        okd = bool(z1) and dfs[0].args[1] == ex.sym("STAT")
        detail = f"{dfs[0]}"[:160]
        DF = dfs[0]
    res["dfeq"] = (okd, detail)
    pref = (DF / R["T"]) * R["dchidxi"]
    coefs = {"dvdChi": pref * R["momentumWall"] * R["momentumPlasma"] * R["gammaPlasma"] ** 2,
             "dTemperaturedChi": pref * R["momentumWall"] * R["energyPlasma"] / R["T"],
             "dMsqdChi": pref * sp.Rational(1, 2) * R["uwBaruPl"]}
    okf, hows = len(slots) == 3, []
    for s_ in slots:
        c = sp.diff(term, s_)
        hit = None
        for label, want in coefs.items():
            if label in res["slots"]:
                continue
            z, h = is_zero(c - want, chk.seed)
            if z:
                hit = label
                hows.append(h)
                break
        if hit is None:
            okf = False
            hows.append(f"coefficient of `{s_}` is none of the three reference coefficients")
        else:
            res["slots"][hit] = str(s_)
    okf = okf and bool(ok) and res["lin"] and len(res["slots"]) == 3
    res["formula"] = (okf, "; ".join(sorted(set(hows)))[:300])
    if len(res["slots"]) == 2 and len(slots) == 3:
        # two slots identified: the third one is what is left (its coefficient is reported as wrong above)
        (label,) = set(coefs) - set(res["slots"])
        (s_,) = {str(x) for x in slots} - set(res["slots"].values())
        res["slots"][label] = s_
    # kinematic blocks: which sub-expressions of the function have the value of a reference block
    want = {k: R[k] for k in ("gammaWall", "momentumWall", "gammaPlasma", "energyPlasma", "momentumPlasma", "uwBaruPl", "energy")}
    cands = []
    seen = set()
    for vals in F.defs.values():
        for v in vals:
            for x in ast.walk(v):
                if isinstance(x, (ast.BinOp, ast.Call)) and not isinstance(getattr(x, "ctx", None), ast.Store):
                    k = nf(x)
                    if k not in seen and len(k) < 4000:
                        seen.add(k)
                        cands.append(x)
    for x in cands:
        if len(res["blocks"]) == len(want):
            break
        try:
            t = M.term(roles, x)
        except Exception:
            continue
        if not isinstance(t, sp.Basic):
            continue
        for k, w in want.items():
            if k in res["blocks"] or t.free_symbols != w.free_symbols:
                continue
            if t == w or is_zero(t - w, chk.seed, budget_s=6.0)[0]:
                res["blocks"].add(k)
    return res


# ------------------------------------------------------------------------------------------------ R12.1


def _profile_marks(e: ast.AST) -> set:
    attrs = {x.attr for x in ast.walk(e) if isinstance(x, ast.Attribute)}
    return {a for a in ("temperatureProfile", "velocityProfile", "fieldProfiles") if a in attrs}


def r12_1(chk: Check, M: Model, slots: dict) -> None:
    fi = M.fi
    if set(slots) != set(PROFILES):
        raise AnchorMissing("buildLinearEquations: the three profile derivatives could not be identified in the source term")
    # provenance of the differentiated profile arrays
    for label, attr in PROFILES.items():
        defs = [M.flat[arm].full(M.flat[arm].held[slots[label]]) for arm in ("spectral", "fd") if slots[label] in M.flat[arm].held]
        ok = len(defs) == 2 and all(has(d, f"self.background.{attr}") for d in defs)
        chk.ob("R12.1", fi.where(), f"`{PROFILE_LABEL[label]}` is taken from background.{attr}", ok, "; ".join(n(d)[:100] for d in defs), key=f"profile|{PROFILE_LABEL[label]}")
    for label, attr in PROFILES.items():
        for arm in ("spectral", "fd"):
            F = M.flat[arm]
            if slots[label] not in F.held:
                raise AnchorMissing(f"buildLinearEquations: the {label} slot of the source is not assigned in the {arm} branch")
            d = F.full(F.held[slots[label]])
            r = _profile_marks(d)
            chk.ob("R12.1", fi.where(), f"{arm} branch: `{label}` is the derivative of `{PROFILE_LABEL[label]}` (same profile in both derivative modes)",
                   r == {attr}, f"differentiates {sorted(r)}: {n(d)[:100]}", key=f"root|{arm}|{label}")
    # finite-difference derivative of a profile: the full derivative matrix (end-point rows and columns included) acts on the full profile
    # (end points included); only the RESULT is restricted to the interior points.  Trimming an operand first drops the boundary terms of the
    # stencils next to the ends (the profiles do not vanish there, unlike deltaF).
    F = M.flat["fd"]

    def interior(sl) -> bool:
        return any(isinstance(e, ast.Slice) and e.lower is not None and e.upper is not None and eqx(e.lower, "1") and eqx(e.upper, "-1")
                   for e in (sl.elts if isinstance(sl, ast.Tuple) else [sl]))

    for label in PROFILES:
        d = F.full(F.held[slots[label]])
        contr = [x for x in ast.walk(d) if (isinstance(x, ast.BinOp) and isinstance(x.op, ast.MatMult))
                 or (isinstance(x, ast.Call) and (x.func.attr if isinstance(x.func, ast.Attribute) else getattr(x.func, "id", "")) in ("einsum", "tensordot", "dot", "matmul", "inner"))
                 or (isinstance(x, ast.Call) and (dotted(x.func) or "") == "np.sum" and x.args and isinstance(x.args[0], ast.BinOp) and isinstance(x.args[0].op, ast.Mult))]
        inner = [y for c in contr for y in ast.walk(c) if isinstance(y, ast.Subscript) and interior(y.slice)]
        outer = [y for y in ast.walk(d) if isinstance(y, ast.Subscript) and interior(y.slice) and not any(y is z for z in inner)]
        chk.ob("R12.1", fi.where(), f"fd branch: `{label}` = (full derivative matrix applied to the full profile) restricted to the interior points afterwards: "
               "no operand of the contraction is trimmed to [1:-1] first", bool(contr) and not inner,
               f"{n(d)[:160]}" if (inner or not contr) else "", key=f"fd|full-then-trim|{label}")
    # finite-difference operators: first derivative along axis 0 on the compact coordinates including the end points
    fds = {}
    for nm in set(slots.values()) | set(F.held):
        if nm in F.held:
            for c in ast.walk(F.full(F.held[nm])):
                if isinstance(c, ast.Call) and (dotted(c.func) or "").split(".")[-1] == "FinDiff":
                    fds.setdefault(nf(c), c)
    ends = []
    for c in fds.values():
        a0 = c.args[0] if c.args else None
        okop = isinstance(a0, ast.Tuple) and len(a0.elts) == 3 and eqx(a0.elts[0], "0") and eqx(a0.elts[2], "1")
        direction, withends = None, False
        if okop:
            co = a0.elts[1]
            if isinstance(co, ast.Subscript) and isinstance(co.value, ast.Call) and (dotted(co.value.func) or "").endswith("getCompactCoordinates") \
                    and isinstance(co.slice, ast.Constant):
                direction = {0: "z", 1: "pz", 2: "pp"}.get(co.slice.value)
                withends = eqx(kwarg(co.value, "endpoints", 0), "True")
            elif isinstance(co, ast.Call) and (dotted(co.func) or "").endswith("getCompactCoordinates"):
                dr = kwarg(co, "direction", 1)
                direction = dr.value if isinstance(dr, ast.Constant) else None
                withends = eqx(kwarg(co, "endpoints", 0), "True")
        ends.append(withends)
        chk.ob("R12.1", fi.where(), "FinDiff operator is a first derivative along axis 0", okop and direction is not None, n(c)[:80],
               key=f"fd|op|{ {'z': 'chiFull', 'pz': 'rzFull', 'pp': 'rpFull'}.get(direction, n(c)[:60]) }")
    chk.ob("R12.1", fi.where(), "finite-difference matrices are built on the compact coordinates including the end points", bool(ends) and all(ends),
           key="fd|endpoints")
    chk.floor("R12.1", 14)


# ------------------------------------------------------------------------------------------------ R12.3


def r12_3(chk: Check, M: Model) -> None:
    S, fi = chk.src, M.fi
    fs = S.func(f"{BS}.solveBoltzmannEquations")
    chk.touch(fs.name)
    G = Flat(S, fs)
    calls = calls_in(fs.node, "buildLinearEquations")
    solve = [c for _, v in G.returns for c in ast.walk(v) if isinstance(c, ast.Call) and (dotted(c.func) or "").endswith("linalg.solve")]
    solve = list({nf(c): c for c in solve}.values())
    one = len(calls) == 1 and eqx(calls[0], "self.buildLinearEquations()")
    chk.ob("R12.3", fs.where(), "operator and source come from one buildLinearEquations() call", one and len(solve) == 1,
           f"{len(calls)} assemblies, {len(solve)} solves", key="one-assembly")
    # what is at which position of the returned tuple
    okr, detail = True, []
    for arm in ("spectral", "fd"):
        op, so, lv, cv = M.ret[arm]
        uo, us = _unreshape(op), _unreshape(so)
        ok = uo is not None and us is not None and uo[1] is not None and isinstance(uo[1], ast.Tuple) and len(uo[1].elts) == 2 \
            and (us[1] is None or (same(uo[1].elts[0], us[1]) and same(uo[1].elts[1], us[1]))) \
            and has(cv, "self.collisionArray") and not has(lv, "self.collisionArray")
        ok = ok and any(isinstance(c, ast.Call) and (dotted(c.func) or "").split(".")[-1] == "_dfeq" for c in ast.walk(so))
        okr = okr and bool(ok)
        detail.append(f"{arm}: matrix {uo is not None}, vector {us is not None}")
    chk.ob("R12.3", fi.where(), "buildLinearEquations returns (operator, source, liouville, collision)", okr, "; ".join(detail), key="return-order")
    ok = len(solve) == 1 and len(solve[0].args) + len(solve[0].keywords) == 2 and eqx(kwarg(solve[0], "a", 0), "self.buildLinearEquations()[0]") \
        and eqx(kwarg(solve[0], "b", 1), "self.buildLinearEquations()[1]")
    chk.ob("R12.3", fs.where(), "deltaF = np.linalg.solve(operator, source) with the two leading results in that order", ok,
           n(solve[0]) if solve else "", key="solve-args")
    # reshape order and factor lists
    orders = [_order(u[2]) for u in (_unreshape(M.ret["spectral"][0]), _unreshape(M.ret["spectral"][1])) if u is not None]
    ud = _unreshape(G.returns[0][1]) if len(G.returns) == 1 else None
    if ud is not None:
        orders.append(_order(ud[2]))
    # nothing else reorders the unknowns: the flattened arrays are the assembled ones, the reshaped array is the solution itself
    direct = ud is not None and len(solve) == 1 and same(ud[0], solve[0])
    chk.ob("R12.3", fi.where(), "all three reshapes (source, operator, deltaF) use the same memory order", len(orders) == 3 and len(set(orders)) == 1 and None not in orders
           and direct, str(orders), key="reshape-order")
    ex, env = M.ex, M.env0
    us = _unreshape(M.ret["spectral"][1])
    uo = _unreshape(M.ret["spectral"][0])
    total = None
    if us is not None and us[1] is not None:
        total = ex.expr(us[1], env)
    elif uo is not None and isinstance(uo[1], ast.Tuple):
        total = ex.expr(uo[1].elts[0], env)
    shape = ex.expr(ud[1], env) if ud is not None and ud[1] is not None else None
    ok = False
    if isinstance(total, sp.Basic) and isinstance(shape, tuple) and len(shape) == 4:
        prod = sp.Mul(*shape)
        ok = sp.expand(prod - total) == 0
        Mg, Ng = ex.sym("self.grid.M"), ex.sym("self.grid.N")
        ok = ok and sp.expand(shape[1] - (Mg - 1)) == 0 and sp.expand(shape[2] - (Ng - 1)) == 0 and sp.expand(shape[3] - (Ng - 1)) == 0
    chk.ob("R12.3", fs.where(), "deltaF shape (particles, M-1, N-1, N-1) multiplies to the size of the linear system", ok,
           f"{shape} vs {total}", key="shape-product")
    chk.floor("R12.3", 5)


# ------------------------------------------------------------------------------------------------ R12.4


def _expand(e: ast.AST) -> list:
    """e as a sum of products: [(rational coefficient, [factor nodes])]; products are distributed over parenthesised sums"""
    if isinstance(e, ast.BinOp) and isinstance(e.op, ast.Add):
        return _expand(e.left) + _expand(e.right)
    if isinstance(e, ast.BinOp) and isinstance(e.op, ast.Sub):
        return _expand(e.left) + [(-c, f) for c, f in _expand(e.right)]
    if isinstance(e, ast.UnaryOp) and isinstance(e.op, ast.USub):
        return [(-c, f) for c, f in _expand(e.operand)]
    if isinstance(e, ast.UnaryOp) and isinstance(e.op, ast.UAdd):
        return _expand(e.operand)
    if isinstance(e, ast.BinOp) and isinstance(e.op, ast.Mult):
        return [(c1 * c2, f1 + f2) for c1, f1 in _expand(e.left) for c2, f2 in _expand(e.right)]
    if isinstance(e, ast.BinOp) and isinstance(e.op, ast.Div):
        den = _expand(e.right)
        if len(den) == 1 and not den[0][1] and den[0][0] != 0:
            return [(c / den[0][0], f) for c, f in _expand(e.left)]
        inv = ast.BinOp(left=ast.Constant(value=1), op=ast.Div(), right=e.right)
        return [(c, f + [inv]) for c, f in _expand(e.left)]
    if isinstance(e, ast.Constant) and isinstance(e.value, (int, float)) and not isinstance(e.value, bool):
        return [(Fraction(repr(e.value)) if isinstance(e.value, float) else Fraction(e.value), [])]
    return [(Fraction(1), [e])]


def _strip(e: ast.AST):
    """(constructing call, [slices applied to it, outermost last]) with .toarray() / np.array(...) wrappers removed"""
    slices = []
    while True:
        if isinstance(e, ast.Subscript):
            slices.insert(0, e.slice)
            e = e.value
        elif isinstance(e, ast.Call) and isinstance(e.func, ast.Attribute) and e.func.attr in ("toarray", "todense", "copy") and not e.args:
            e = e.func.value
        elif isinstance(e, ast.Call) and (dotted(e.func) or "") in ("np.array", "np.asarray") and len(e.args) == 1:
            e = e.args[0]
        else:
            return e, slices


def _provenance(e: ast.AST):
    """(kind 'T'|'D', direction, basis node or None, slices) of a resolved matrix expression"""
    base, slices = _strip(e)
    if not isinstance(base, ast.Call):
        return None
    d = dotted(base.func) or ""
    short = base.func.attr if isinstance(base.func, ast.Attribute) else d.split(".")[-1]
    if short in ("identity", "eye") and d.split(".")[0] in ("np", "numpy") and base.args:
        a = base.args[0]
        isz, isp = has(a, "self.grid.M"), has(a, "self.grid.N")
        return ("T", "z" if isz and not isp else ("p" if isp and not isz else "?"), None, slices)
    if short in ("matrix", "derivMatrix") and isinstance(base.func, ast.Attribute):
        recv, _ = _strip(base.func.value)
        if isinstance(recv, ast.Call) and (dotted(recv.func) or "").split(".")[-1] == "FinDiff" and short == "matrix":
            a0 = recv.args[0] if recv.args else None
            if isinstance(a0, ast.Tuple) and len(a0.elts) == 3:
                co = a0.elts[1]
                if isinstance(co, ast.Subscript) and isinstance(co.value, ast.Call) and (dotted(co.value.func) or "").endswith("getCompactCoordinates") \
                        and isinstance(co.slice, ast.Constant):
                    return ("D", {0: "z", 1: "pz", 2: "pp"}.get(co.slice.value, "?"), None, slices)
                if isinstance(co, ast.Call) and (dotted(co.func) or "").endswith("getCompactCoordinates") and isinstance(kwarg(co, "direction", 1), ast.Constant):
                    return ("D", kwarg(co, "direction", 1).value, None, slices)
            return None
        if isinstance(recv, ast.Call) and (dotted(recv.func) or "").split(".")[-1] == "Polynomial":
            basis, direction = kwarg(base, "basis", 0), kwarg(base, "direction", 1)
            if isinstance(direction, ast.Constant) and basis is not None:
                return ("T" if short == "matrix" else "D", direction.value, basis, slices)
    return None


def _slices_txt(slices) -> str:
    out = []
    for s in slices:
        elts = list(s.elts) if isinstance(s, ast.Tuple) else [s]
        while len(elts) > 1 and isinstance(elts[-1], ast.Slice) and elts[-1].lower is None and elts[-1].upper is None and elts[-1].step is None:
            elts.pop()
        out.append(", ".join(nf(x) for x in elts))
    return " | ".join(out)


ROLE = {"z": (1, 5), "pz": (2, 6), "pp": (3, 7)}
WANT_MATS = {"L1": {(1, 5): "D", (2, 6): "T", (3, 7): "T"}, "L2": {(1, 5): "T", (2, 6): "D", (3, 7): "T"}, "C": {(1, 5): "T"}}


def _is_identity_particles(base: ast.AST) -> bool:
    b, _ = _strip(base)
    return isinstance(b, ast.Call) and (dotted(b.func) or "") in ("np.identity", "np.eye", "numpy.identity", "numpy.eye") and bool(b.args) \
        and (eqx(b.args[0], "len(self.offEqParticles)") or has(b.args[0], "self.offEqParticles")) and not has(b.args[0], "self.grid")


def r12_4(chk: Check, M: Model, slots: dict) -> None:
    fi, ex = M.fi, M.ex
    R = M.refs
    DM = ex.sym(M.slot_syms["dMsqdChi"]) if "dMsqdChi" in M.slot_syms else None
    rows = {}
    ident_spectral, n_transfer = [], {}
    shape_ok, ip_seen = True, []
    jac_axes = []
    for arm in ("spectral", "fd"):
        F = M.flat[arm]
        op, so, lv, cv = M.ret[arm]
        lterms = _expand(lv)
        pos = [t for t in lterms if t[0] > 0]
        neg = [t for t in lterms if t[0] < 0]
        if len(lterms) != 2 or len(pos) != 1 or len(neg) != 1:
            shape_ok = False
        terms = {}
        if len(pos) == 1:
            terms["L1"] = pos[0]
        if len(neg) == 1:
            terms["L2"] = neg[0]
        cterms = _expand(cv)
        if len(cterms) == 1:
            terms["C"] = cterms[0]
        for tname in ("L1", "L2", "C"):
            bad = []
            mats = {}
            scal = []
            nip = 0
            if tname not in terms:
                chk.ob("R12.4", fi.where(), f"{arm} mode, {'Liouville term ' + tname[1] if tname != 'C' else 'collision term'}: "
                       "every factor sits on the axes its provenance dictates", False, "the operator is not the expected sum of products", key=f"roles|{arm}|{tname}")
                continue
            coef, facs = terms[tname]
            for f_ in facs:
                if isinstance(f_, ast.Subscript) and _kept_axes(f_)[1] >= 5:
                    kept, rank = _kept_axes(f_)
                    base = f_.value
                    if rank != 8 or kept is None:
                        bad.append(f"{n(f_)[:40]}: not an 8-slot broadcast index")
                        continue
                    if _is_identity_particles(base):
                        nip += 1
                        ip_seen.append((kept, rank, f_))
                    elif kept == (0, 1, 2, 3):
                        scal.append(base)
                    elif eqx(base, "self.collisionArray"):
                        if kept != (0, 2, 3, 4, 6, 7):
                            bad.append(f"collisionArray on axes {kept}, expected (0,2,3,4,6,7)")
                    else:
                        prov = _provenance(F.full(base))
                        if prov is None:
                            bad.append(f"{n(base)[:60]}: provenance not understood")
                            continue
                        kind, direction, basis, slices = prov
                        roles_ = [ROLE[direction]] if direction in ROLE else [(2, 6), (3, 7)]
                        if kept not in roles_:
                            bad.append(f"{n(base)[:40]} is a {direction}-direction matrix but sits on axes {kept}")
                        mats[kept] = kind
                        if kind == "T" and basis is None and arm == "spectral":
                            ident_spectral.append(f"{tname}: `{n(base)[:40]}` on axes {kept} is an identity")
                        if kind == "T":
                            n_transfer[arm] = n_transfer.get(arm, 0) + 1
                        if basis is not None:
                            wb = "self.basisM" if direction == "z" else "self.basisN"
                            if not eqx(basis, wb):
                                bad.append(f"{n(base)[:40]} built with basis {n(basis)}, expected {wb}")
                        if kind == "D":
                            rows[(arm, kept)] = (_slices_txt(slices), n(F.full(base))[:120])
                else:
                    scal.append(f_)
            if tname != "C" and nip != 1:
                shape_ok = False
            if mats != WANT_MATS[tname]:
                bad.append(f"matrix kinds per axis pair {mats}, expected {WANT_MATS[tname]}")
            # the product of the point-wise (non-matrix) factors
            roles = Roles(F.held)
            prod = sp.Rational(coef.numerator, coef.denominator)
            try:
                for s_ in scal:
                    prod = prod * M.term(roles, s_)
            except Undecided as e:
                prod = None
                bad.append(f"point-wise factor outside the arithmetic subset: {e}")
            want = {"L1": R["dchidxi"] * R["momentumWall"],
                    "L2": -R["dchidxi"] * R["drzdpz"] * R["gammaWall"] / 2 * (DM if DM is not None else sp.Symbol("dMsqdChi")),
                    "C": R["T"] ** 2 * ex.sym("CM")}[tname]
            if prod is not None:
                z, how = is_zero(prod - want, chk.seed)
                if not z:
                    bad.append(f"point-wise factors multiply to {prod}, expected {want}")
            for key_, (sym, leaf) in roles.leaves.items():
                if sym.startswith("JAC"):
                    jac_axes.append((sym, _leaf_axis(leaf)))
            chk.ob("R12.4", fi.where(), f"{arm} mode, {'Liouville term ' + tname[1] if tname != 'C' else 'collision term'}: "
                   "every factor sits on the axes its provenance dictates", not bad, "; ".join(bad)[:400], key=f"roles|{arm}|{tname}")
    # R12.12: with polynomial coefficients as unknowns (spectral arm) a term without a derivative along a direction still needs the
    # coefficient-to-grid matrix of that direction; an identity there is right only when the unknowns are grid values (finite-difference arm).
    chk.ob("R12.12", fi.where(), "spectral mode: every non-derivative slot of the Liouville and collision terms carries the coefficient-to-grid matrix "
           f"Polynomial.matrix(basis, direction) of the solver's basis, never an identity ({n_transfer.get('spectral', 0)} transfer matrices)",
           not ident_spectral and n_transfer.get("spectral", 0) >= 5, "; ".join(ident_spectral)[:300], key="transfer|spectral")
    if not ip_seen:
        raise AnchorMissing("buildLinearEquations: the particle identity of the Liouville operator was not found")
    kept, rank, node = ip_seen[0]
    chk.ob("R12.4", fi.where(), "identityParticles occupies the particle axes (0,4) of the rank-8 operator", all(k == (0, 4) and r == 8 for k, r, _ in ip_seen),
           f"{kept} of {rank}", key="role|identityParticles")
    chk.ob("R12.4", fi.where(), "liouville = identityParticles * (term1 - term2)", shape_ok, key="liouville|shape")
    # slices [1:-1] of the derivative matrices (drop boundary rows)
    for nm, axes in (("derivMatrixChi", (1, 5)), ("derivMatrixRz", (2, 6))):
        got = rows.get(("spectral", axes))
        chk.ob("R12.4", fi.where(), f"spectral `{nm}` drops the two boundary rows ([1:-1])", got is not None and got[0] == "1:-1", got[1] if got else "", key=f"rows|{nm}")
        got = rows.get(("fd", axes))
        chk.ob("R12.4", fi.where(), f"finite-difference `{nm}` drops boundary rows and columns ([1:-1, 1:-1])", got is not None and got[0] in ("1:-1, 1:-1", "1:-1 | :, 1:-1"),
               got[1] if got else "", key=f"rowsfd|{nm}")
    # operator = liouville + collision
    ok = True
    for arm in ("spectral", "fd"):
        op, so, lv, cv = M.ret[arm]
        u = _unreshape(op)
        ok = ok and u is not None and same(u[0], ast.BinOp(left=lv, op=ast.Add(), right=cv))
    chk.ob("R12.4", fi.where(), "operator = liouville + collision", ok, key="operator-sum")
    # compactification derivative roles: dchidxi from element 0 on the z axis, drzdpz from element 1 on the pz axis (both inverted: see the products above)
    for sym, leaf in M.roles_src.leaves.values():
        if sym.startswith("JAC"):
            jac_axes.append((sym, _leaf_axis(leaf)))
    okd = {("JAC0", (1, 4)), ("JAC1", (2, 4))} <= set(jac_axes) and all(a == {"JAC0": (1, 4), "JAC1": (2, 4)}.get(s_) for s_, a in jac_axes)
    chk.ob("R12.4", fi.where(), "dchi/dxi and drz/dpz are the inverses of Jacobian elements 0 and 1 on the z and pz axes", okd, str(sorted(set(jac_axes))), key="jacobian-roles")
    chk.floor("R12.4", 14)


def _leaf_axis(leaf: ast.AST):
    """(axis, rank) of a one-dimensional array broadcast as leaf = x[None, :, None, None]"""
    if isinstance(leaf, ast.Subscript):
        kept, rank = _kept_axes(leaf)
        if kept is not None and len(kept) == 1:
            return (kept[0], rank)
    return None


# ------------------------------------------------------------------------------------------------ R12.5


def r12_5(chk: Check) -> None:
    f = chk.src.func(f"{BS}.setBackground")
    chk.touch(f.name)
    cx = Ctx(chk.src, f)
    prm = [p for p in f.params() if p != "self"]
    g = CFG(f.node)
    st = [s for s in own_nodes(f.node) if isinstance(s, ast.Assign) and any(eqx(t, "self.background") for t in s.targets)]
    ok = False
    if len(st) == 1 and len(prm) == 1:
        v = cx.resolve(st[0].value)
        ok = isinstance(v, ast.Call) and (dotted(v.func) or "").split(".")[-1] == "deepcopy" and len(v.args) == 1 and eqx(v.args[0], prm[0])
    chk.ob("R12.5", f.where(), "setBackground stores a deep copy of the caller's background", ok, key="deepcopy")
    boosts = calls_in(f.node, "boostToPlasmaFrame")
    ok = len(boosts) == 1 and eqx(boosts[0].func, "self.background.boostToPlasmaFrame") and len(st) == 1 \
        and g.must_pass(CFG.ENTRY, g.node_of(boosts[0]), lambda q: q is st[0])
    chk.ob("R12.5", f.where(), "only the stored copy is boosted to the plasma frame", ok, key="boost-copy")
    fb = chk.src.func("containers:BoltzmannBackground.boostToPlasmaFrame")
    chk.touch(fb.name)
    ex = Extractor(chk.src, inline=lambda nm: nm.startswith("helpers:"))
    ps = [p for p in ex.paths(fb) if p.raised is None]
    env = ps[0].env
    v, vm, vw = ex.sym("self.velocityProfile"), ex.sym("self.velocityMid"), ex.sym("self.velocityWall")
    ok1, how1 = is_zero(env.get("self.velocityProfile") - (v - vm) / (1 - v * vm), chk.seed)
    ok2, how2 = is_zero(env.get("self.velocityWall") - (vw - vm) / (1 - vw * vm), chk.seed)
    chk.ob("R12.5", fb.where(), "boostToPlasmaFrame: v -> (v - vMid)/(1 - v vMid) for the profile and for the wall velocity", ok1 and ok2,
           f"{how1}; {how2}", key="boost-formula", how=how1)
    chk.floor("R12.5", 3)


def r12_11(chk: Check) -> None:
    """estimateTruncationError: the estimate is a ratio of sums of |Chebyshev coefficients|; numerators AND the normalisation must be read from the
    polynomial after it was converted to the Chebyshev basis on all three axes -- a norm taken from the raw array (in whatever basis the solver
    uses) makes the reported truncation error, which feeds the wall-velocity error, depend on the choice of (basisM, basisN)."""
    from ..flow import CFG
    S = chk.src
    fi = S.func(f"{BS}.estimateTruncationError")
    chk.touch(fi.name)
    g = CFG(fi.node)
    params = [p for p in fi.params() if p != "self"]
    if not params:
        raise AnchorMissing("estimateTruncationError: no array parameter")
    RAW = params[0]
    polys = [q for q in g.nodes if isinstance(q, ast.Assign) and len(q.targets) == 1 and isinstance(q.targets[0], ast.Name) and isinstance(q.value, ast.Call)
             and (dotted(q.value.func) or "").split(".")[-1] == "Polynomial" and q.value.args and isinstance(q.value.args[0], ast.Name) and q.value.args[0].id == RAW]
    if len(polys) != 1:
        raise AnchorMissing("estimateTruncationError: the Polynomial built from the solution not found")
    Pn = polys[0].targets[0].id
    cx = Ctx(S, fi)
    cbs = [q for q in g.nodes if isinstance(q, ast.Expr) and isinstance(q.value, ast.Call) and eqx(q.value.func, f"{Pn}.changeBasis") and q.value.args
           and eqx(cx.resolve(q.value.args[0]), "('Array', 'Chebyshev', 'Chebyshev', 'Chebyshev')")]
    chk.ob("R12.11", fi.where(), "estimateTruncationError converts the solution to the Chebyshev basis on all three polynomial axes", len(cbs) == 1,
           f"{len(cbs)} such conversions", key="trunc|to-chebyshev")
    reads = [q for q in g.nodes if isinstance(q, ast.AST) and g.kind.get(q) != "def" and q not in cbs
             and any(isinstance(x, ast.Attribute) and x.attr == "coefficients" and isinstance(x.value, ast.Name) and x.value.id == Pn for x in ast.walk(q))]
    early = [q for q in reads if not (cbs and g.must_pass(CFG.ENTRY, q, lambda x: x in cbs))]
    chk.ob("R12.11", fi.where(), "every read of the coefficients entering the estimate happens after that conversion", len(reads) >= 1 and not early,
           "; ".join(f"line {q.lineno}: `{n(q)[:60]}`" for q in early), key="trunc|reads-after")
    raw = []
    for q in g.nodes:
        if not isinstance(q, ast.AST) or q is polys[0] or g.kind.get(q) == "def":
            continue
        meta = {id(x.value) for x in ast.walk(q) if isinstance(x, ast.Attribute) and isinstance(x.value, ast.Name) and x.value.id == RAW
                and x.attr in ("shape", "ndim", "dtype", "size")}        # reading the shape is not reading the values
        if any(isinstance(x, ast.Name) and x.id == RAW and isinstance(x.ctx, ast.Load) and id(x) not in meta for x in ast.walk(q)):
            raw.append(q)
    chk.ob("R12.11", fi.where(), f"the raw array `{RAW}` (in the solver's own basis) enters the estimate only through that polynomial", not raw,
           "; ".join(f"line {q.lineno}: `{n(q)[:60]}`" for q in raw), key="trunc|no-raw")
    chk.floor("R12.11", 3)


def rules(chk: Check) -> None:
    M = Model(chk.src)
    chk.touch(M.fi.name)
    slots = chk.stage(r12_2, chk, M)
    if slots is not None:
        chk.stage(r12_1, chk, M, slots)
    chk.stage(r12_3, chk, M)
    if slots is not None:
        chk.stage(r12_4, chk, M, slots)
    chk.stage(r12_5, chk)
    chk.stage(r12_11, chk)
    # basis independence of everything derived from deltaF (shared rule with C13)
    from .c13 import cardinal_before_weights
    chk.stage(cardinal_before_weights, chk, "R12.6")
    chk.floor("R12.6", 2)
    # R12.7: the derivative / intertwiner matrices of a basis are those of the very basis functions used by changeBasis and evaluate
    # (restricted Chebyshev basis and index ranges: shared with C16 R16.1 / R16.2), so that the solution does not depend on the basis
    from ..core import Remap
    from . import c16
    chk.stage(c16.rules, Remap(chk, {"R16.2": "R12.7", "R16.1": "R12.7"}))
    chk.floor("R12.7", 10)
    # R12.8: the finite-difference cross-check converts the collision operator to the cardinal basis by calling changeBasis for its effect
    from .shared import called_for_effect_mutates
    chk.stage(called_for_effect_mutates, chk, "R12.8", "changeBasis")
    chk.floor("R12.8", 2)
    # R12.9: the collision operator is re-expressed in the momentum basis of the solver by the inverse-transpose change of basis (shared with
    # C14 R14.3): converting Chebyshev-stored collision data for a Cardinal-basis solve must give the same operator
    from . import c14
    chk.stage(c14.r14_3, Remap(chk, {"R14.3": "R12.9"}))
    chk.floor("R12.9", 4)
    # R12.10: the solver never updates in place an array it obtained from the grid / the background / a polynomial (views of cached state)
    from .shared import no_inplace_mutation_of_aliased_state
    chk.stage(no_inplace_mutation_of_aliased_state, chk, "R12.10", ("boltzmann", "polynomial", "collisionArray", "containers"), 3)
