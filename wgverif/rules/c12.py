"""C12 -- Boltzmann solution reflects the physics, not the discretisation choices.

R12.1 both derivative modes differentiate the same background profiles (sibling branches)
R12.2 source is homogeneous linear in the three profile derivatives; _dfeq == d/dx _feq
R12.3 one linear system: deltaF = solve(operator, source) from one assembly; reshapes share order and factor list
R12.4 axis roles of every factor in the Liouville and collision products; matrices built for the right direction/basis
R12.5 the background is boosted on a deep copy
R12.6 deltaF is converted to grid values on every polynomial axis before z-dependent point-wise weights are applied
"""
from __future__ import annotations

import ast

import sympy as sp

from ..core import (AnchorMissing, Check, Undecided, calls_in, dotted, kwarg, own_nodes, src, walk_guarded, slice_src)
from ..terms import Extractor, WHERE, is_zero

LEVEL = "other"
BS = "boltzmann:BoltzmannSolver"
PROFILES = {"dTemperaturedChi": "temperatureFull", "dvdChi": "vFull", "dMsqdChi": "msqFull"}
PROFILE_SRC = {"temperatureFull": "temperatureProfile", "vFull": "velocityProfile", "msqFull": "fieldProfiles"}


def n(x) -> str:
    return " ".join(src(x).split())


def _arms(fi):
    """assignments of buildLinearEquations per arm: 'common', 'spectral', 'fd' -> {name: [value exprs]}"""
    arms = {"common": {}, "spectral": {}, "fd": {}}
    seen_guard = False
    for guards, st in walk_guarded(fi.node):
        arm = "common"
        for t, pol in guards:
            if isinstance(t, ast.Compare) and "self.derivatives" in n(t):
                seen_guard = True
                is_spec = '"Spectral"' in n(t).replace("'", '"')
                eq = isinstance(t.ops[0], ast.Eq)
                arm = "spectral" if (is_spec == eq) == pol else "fd"
        if isinstance(st, ast.Assign) and len(st.targets) == 1:
            t0 = st.targets[0]
            if isinstance(t0, ast.Name):
                arms[arm].setdefault(t0.id, []).append(st.value)
            elif isinstance(t0, ast.Tuple):
                for i, e in enumerate(t0.elts):
                    if isinstance(e, ast.Name):
                        arms[arm].setdefault(e.id, []).append(("tuple", i, st.value))
    if not seen_guard:
        raise AnchorMissing("buildLinearEquations: no branch on self.derivatives")
    return arms


def _roots(expr, arm, common, targets, depth=0) -> set:
    """names in `targets` reachable from expr through local definitions of this arm / the common part"""
    out = set()
    if depth > 6:
        return out
    if isinstance(expr, tuple):
        expr = expr[2]
    for x in ast.walk(expr):
        if isinstance(x, ast.Name) and isinstance(x.ctx, ast.Load):
            if x.id in targets:
                out.add(x.id)
            else:
                for d in (arm.get(x.id) or common.get(x.id) or [])[-1:]:
                    out |= _roots(d, arm, common, targets, depth + 1)
    return out


def r12_1(chk: Check, fi, arms) -> None:
    tg = set(PROFILES.values())
    # provenance of the profile arrays themselves
    for prof, attr in PROFILE_SRC.items():
        vals = arms["common"].get(prof)
        if not vals:
            raise AnchorMissing(f"buildLinearEquations: `{prof}` not defined")
        ok = f"self.background.{attr}" in n(vals[-1])
        chk.ob("R12.1", fi.where(vals[-1]), f"`{prof}` is taken from background.{attr}", ok, n(vals[-1])[:120], key=f"profile|{prof}")
    for name, want in PROFILES.items():
        for arm in ("spectral", "fd"):
            vals = arms[arm].get(name)
            if not vals:
                raise AnchorMissing(f"buildLinearEquations: `{name}` not assigned in the {arm} branch")
            r = _roots(vals[-1], arms[arm], arms["common"], tg)
            chk.ob("R12.1", fi.where(vals[-1]), f"{arm} branch: `{name}` is the derivative of `{want}` (same profile in both derivative modes)",
                   r == {want}, f"differentiates {sorted(r)}: {n(vals[-1])[:100]}", key=f"root|{arm}|{name}")
    # finite-difference operator is built on the compact grid with endpoints, first derivative along axis 0
    fd = arms["fd"]
    coords = [c for c in calls_in(fi.node, "getCompactCoordinates")]
    ok = any(isinstance(kwarg(c, "endpoints", 0), ast.Constant) and kwarg(c, "endpoints", 0).value is True for c in coords)
    chk.ob("R12.1", fi.where(), "finite-difference matrices are built on the compact coordinates including the end points", ok,
           key="fd|endpoints")
    for c in calls_in(fi.node, "FinDiff"):
        a0 = c.args[0] if c.args else None
        ok = isinstance(a0, ast.Tuple) and len(a0.elts) == 3 and n(a0.elts[0]) == "0" and n(a0.elts[2]) == "1"
        chk.ob("R12.1", fi.where(c), "FinDiff operator is a first derivative along axis 0", ok, n(c)[:80], key=f"fd|op|{n(a0.elts[1]) if ok else n(c)}")
    chk.floor("R12.1", 11)


def r12_2(chk: Check, fi) -> None:
    S = chk.src
    ex = Extractor(S)
    f_feq, f_dfeq = S.func(f"{BS}._feq"), S.func(f"{BS}._dfeq")
    chk.touch(f_feq.name, f_dfeq.name)
    a, b = ex.single(f_feq), ex.single(f_dfeq)
    if not (isinstance(a, sp.Basic) and a.func == WHERE and isinstance(b, sp.Basic) and b.func == WHERE):
        raise Undecided("_feq/_dfeq: expected np.where(overflow, 0, value)")
    x, s = ex.sym("x"), ex.sym("statistics")
    chk.ob("R12.2", f_feq.where(), "_feq / _dfeq: the overflow branch returns 0", a.args[1] == 0 and b.args[1] == 0,
           f"{a.args[1]}, {b.args[1]}", key="feq|overflow")
    for stat in (1, -1):
        ok, how = is_zero((sp.diff(a.args[2], x) - b.args[2]).subs(s, stat), chk.seed)
        chk.ob("R12.2", f_dfeq.where(), f"_dfeq == d/dx _feq for statistics = {stat:+d}", ok, how, key=f"dfeq|{stat}", how=how)
    for stat, nm in ((1, "Bose-Einstein 1/(e^x - 1)"), (-1, "Fermi-Dirac 1/(e^x + 1)")):
        ok, how = is_zero(a.args[2].subs(s, stat) - 1 / (sp.exp(x) - stat), chk.seed)
        chk.ob("R12.2", f_feq.where(), f"_feq is {nm}", ok, how, key=f"feq|{stat}", how=how)
    # statistics sign convention at both construction sites
    for fn_ in ("buildLinearEquations", "checkLinearization"):
        f2 = S.func(f"{BS}.{fn_}")
        oks = []
        for x_ in own_nodes(f2.node):
            if isinstance(x_, ast.IfExp) and "statistics" in n(x_.test):
                oks.append(n(x_) == '-1 if particle.statistics == "Fermion" else 1'.replace('"', "'") or
                           n(x_) == '-1 if particle.statistics == "Fermion" else 1')
        chk.ob("R12.2", f2.where(), f"{fn_}: statistics = -1 for fermions, +1 for bosons", bool(oks) and all(oks), key=f"stat|{fn_}")
    # source term
    src_assign = None
    for st in own_nodes(fi.node):
        if isinstance(st, ast.Assign) and isinstance(st.targets[0], ast.Name) and st.targets[0].id == "source" \
                and not (isinstance(st.value, ast.Call) and (dotted(st.value.func) or "").endswith("reshape")):
            src_assign = st
    if src_assign is None:
        raise AnchorMissing("buildLinearEquations: source term not found")
    env = {"__module__": "boltzmann", "__class__": "BoltzmannSolver"}
    term = ex.expr(src_assign.value, env)
    d = [ex.sym(k) for k in PROFILES]
    zero = term.subs({k: 0 for k in d})
    ok, how = is_zero(zero, chk.seed)
    chk.ob("R12.2", fi.where(src_assign), "source vanishes when dv/dchi = dT/dchi = dm^2/dchi = 0 (homogeneous background => zero deviation)",
           ok, how, key="source|homogeneous", how=how)
    lin = all(sp.diff(term, a_, b_) == 0 or is_zero(sp.diff(term, a_, b_))[0] for a_ in d for b_ in d)
    chk.ob("R12.2", fi.where(src_assign), "source is linear in the three profile derivatives", lin, key="source|linear")
    # reference form of eq. (5)/(6) of 2204.13120 in the names of the code
    sy = {k: ex.sym(k) for k in ("dfEq", "temperature", "dchidxi", "momentumWall", "momentumPlasma", "gammaPlasma", "energyPlasma", "uwBaruPl")}
    ref = (sy["dfEq"] / sy["temperature"]) * sy["dchidxi"] * (
        sy["momentumWall"] * sy["momentumPlasma"] * sy["gammaPlasma"] ** 2 * d[1]
        + sy["momentumWall"] * sy["energyPlasma"] * d[0] / sy["temperature"]
        + sp.Rational(1, 2) * d[2] * sy["uwBaruPl"])
    ok, how = is_zero(term - ref, chk.seed)
    chk.ob("R12.2", fi.where(src_assign), "source == (f_eq'/T) dchi/dxi [P_w P_pl gamma_pl^2 dv + P_w E_pl dT/T + (1/2) dm^2 u_w.u_pl]", ok, how,
           key="source|formula", how=how)
    # kinematic building blocks
    arms_common = {}
    for st in own_nodes(fi.node):
        if isinstance(st, ast.Assign) and isinstance(st.targets[0], ast.Name):
            arms_common[st.targets[0].id] = st.value
    refs = {
        "gammaWall": lambda e: 1 / sp.sqrt(1 - e("velocityWall") ** 2),
        "momentumWall": lambda e: e("gammaWall") * (e("pz") - e("velocityWall") * e("energy")),
        "gammaPlasma": lambda e: 1 / sp.sqrt(1 - e("v") ** 2),
        "energyPlasma": lambda e: e("gammaPlasma") * (e("energy") - e("v") * e("pz")),
        "momentumPlasma": lambda e: e("gammaPlasma") * (e("pz") - e("v") * e("energy")),
        "uwBaruPl": lambda e: e("gammaWall") * e("gammaPlasma") * (e("velocityWall") - e("v")),
        "energy": lambda e: sp.sqrt(e("msq") + e("pz") ** 2 + e("pp") ** 2),
    }
    for nm, mk in refs.items():
        if nm not in arms_common:
            raise AnchorMissing(f"buildLinearEquations: `{nm}` not defined")
        got = ex.expr(arms_common[nm], env)
        ok, how = is_zero(got - mk(ex.sym), chk.seed)
        chk.ob("R12.2", fi.where(arms_common[nm]), f"`{nm}` has its defining Lorentz-boost form", ok, f"{got}; {how}", key=f"kin|{nm}", how=how)
    # dfEq argument
    got = ex.expr(arms_common["dfEq"], env) if "dfEq" in arms_common else None
    ok = got is not None and "energyPlasma/temperature" in str(got).replace(" ", "") and "statistics" in str(got)
    chk.ob("R12.2", fi.where(), "f_eq' is evaluated at E_pl/T with the particle statistics", ok, str(got)[:100], key="dfeq|arg")
    chk.floor("R12.2", 16)


def r12_3(chk: Check, fi) -> None:
    S = chk.src
    fs = S.func(f"{BS}.solveBoltzmannEquations")
    chk.touch(fs.name)
    calls = calls_in(fs.node, "buildLinearEquations")
    op_src = None
    for st in own_nodes(fs.node):
        if isinstance(st, ast.Assign) and isinstance(st.value, ast.Call) and n(st.value.func) == "self.buildLinearEquations" \
                and isinstance(st.targets[0], ast.Tuple):
            op_src = [n(e) for e in st.targets[0].elts]
    chk.ob("R12.3", fs.where(), "operator and source come from one buildLinearEquations() call", len(calls) == 1 and op_src is not None,
           str(op_src), key="one-assembly")
    rets = [r for r in own_nodes(fi.node) if isinstance(r, ast.Return)]
    ret = [n(e) for e in rets[-1].value.elts] if rets and isinstance(rets[-1].value, ast.Tuple) else []
    chk.ob("R12.3", fi.where(), "buildLinearEquations returns (operator, source, liouville, collision)",
           ret == ["operator", "source", "liouville", "collision"], str(ret), key="return-order")
    solve = [c for c in calls_in(fs.node, "solve") if (dotted(c.func) or "").endswith("linalg.solve")]
    ok = bool(solve) and op_src is not None and [n(a) for a in solve[0].args] == op_src[:2]
    chk.ob("R12.3", fs.where(), "deltaF = np.linalg.solve(operator, source) with the two leading results in that order", ok,
           n(solve[0]) if solve else "", key="solve-args")
    # reshape order and factor lists
    ex = Extractor(S)
    env = {"__module__": "boltzmann", "__class__": "BoltzmannSolver"}
    orders = []
    for f_ in (fi, fs):
        for c in calls_in(f_.node, "reshape"):
            o = kwarg(c, "order", 2)
            orders.append(o.value if isinstance(o, ast.Constant) else None)
    chk.ob("R12.3", fi.where(), "all three reshapes (source, operator, deltaF) use the same memory order", len(orders) == 3 and len(set(orders)) == 1,
           str(orders), key="reshape-order")
    total = None
    for st in own_nodes(fi.node):
        if isinstance(st, ast.Assign) and n(st.targets[0]) == "totalSize":
            total = ex.expr(st.value, env)
    shape = None
    for st in own_nodes(fs.node):
        if isinstance(st, ast.Assign) and n(st.targets[0]) == "deltaFShape":
            shape = ex.expr(st.value, env)
    ok = False
    if total is not None and isinstance(shape, tuple) and len(shape) == 4:
        prod = sp.Mul(*shape)
        lenp = sp.Function("len")
        prod = prod.subs(lenp(ex.sym("self.offEqParticles")), lenp(ex.sym("particles")))
        total = total.subs(lenp(ex.sym("self.offEqParticles")), lenp(ex.sym("particles")))
        ok = sp.expand(prod - total) == 0
        M, N = ex.sym("self.grid.M"), ex.sym("self.grid.N")
        ok = ok and sp.expand(shape[1] - (M - 1)) == 0 and sp.expand(shape[2] - (N - 1)) == 0 and sp.expand(shape[3] - (N - 1)) == 0
    chk.ob("R12.3", fs.where(), "deltaF shape (particles, M-1, N-1, N-1) multiplies to the size of the linear system", ok,
           f"{shape} vs {total}", key="shape-product")
    chk.floor("R12.3", 5)


def _kept_axes(sub: ast.Subscript):
    sl = sub.slice
    elts = sl.elts if isinstance(sl, ast.Tuple) else [sl]
    kept = []
    for i, e in enumerate(elts):
        if isinstance(e, ast.Constant) and e.value is None:
            continue
        if isinstance(e, ast.Slice) and e.lower is None and e.upper is None:
            kept.append(i)
        else:
            return None, len(elts)
    return tuple(kept), len(elts)


def _flatten_mul(e: ast.expr) -> list:
    if isinstance(e, ast.BinOp) and isinstance(e.op, ast.Mult):
        return _flatten_mul(e.left) + _flatten_mul(e.right)
    return [e]


def _matrix_provenance(name, arm, common, depth=0):
    """('T'|'D', direction) of a matrix name, following local definitions"""
    if depth > 6:
        return None
    vals = arm.get(name) or common.get(name)
    if not vals:
        return None
    v = vals[-1]
    if isinstance(v, tuple):
        # tuple position of getCompactCoordinates
        _, i, call = v
        if isinstance(call, ast.Call) and (dotted(call.func) or "").endswith("getCompactCoordinates"):
            return ("coord", ("z", "pz", "pp")[i])
        return None
    base = v
    while isinstance(base, ast.Subscript):
        base = base.value
    if isinstance(base, ast.Call):
        d = dotted(base.func) or ""
        short = d.split(".")[-1]
        if short in ("matrix", "derivMatrix") and len(base.args) >= 2 and isinstance(base.args[1], ast.Constant):
            recv = d.rsplit(".", 1)[0]
            p = _matrix_provenance(recv, arm, common, depth + 1)
            if p and p[0] == "fd":
                return ("D", p[1], None)
            return ("T" if short == "matrix" else "D", base.args[1].value, n(base.args[0]))
        if short == "matrix":
            recv = d.rsplit(".", 1)[0]
            p = _matrix_provenance(recv, arm, common, depth + 1)
            if p and p[0] == "fd":
                return ("D", p[1], None)
        if short == "identity":
            a = n(base.args[0])
            return ("T", "z" if "grid.M" in a else ("p" if "grid.N" in a else "?"), None)
        if short == "FinDiff":
            a0 = base.args[0]
            if isinstance(a0, ast.Tuple) and isinstance(a0.elts[1], ast.Name):
                p = _matrix_provenance(a0.elts[1].id, arm, common, depth + 1)
                if p and p[0] == "coord":
                    return ("fd", p[1])
        if short == "toarray":
            recv = d.rsplit(".", 1)[0]
            # self-reference (derivMatrixChi = derivMatrixChi.toarray()[...]): look at the previous definition
            vv = arm.get(recv) or common.get(recv) or []
            if len(vv) >= 2 and recv == name:
                sub = dict(arm)
                sub[name] = vv[:-1]
                return _matrix_provenance(name, sub, common, depth + 1)
            return _matrix_provenance(recv, arm, common, depth + 1)
    return None


ROLE = {"z": (1, 5), "pz": (2, 6), "pp": (3, 7)}


def r12_4(chk: Check, fi, arms) -> None:
    # locate liouville / collision product expressions
    exprs = {}
    for st in own_nodes(fi.node):
        if isinstance(st, ast.Assign) and isinstance(st.targets[0], ast.Name) and st.targets[0].id in ("liouville", "collision", "identityParticles"):
            exprs[st.targets[0].id] = st
    for k in ("liouville", "collision", "identityParticles"):
        if k not in exprs:
            raise AnchorMissing(f"buildLinearEquations: `{k}` not found")
    # identityParticles role
    ip = exprs["identityParticles"].value
    kept, rank = _kept_axes(ip) if isinstance(ip, ast.Subscript) else (None, 0)
    chk.ob("R12.4", fi.where(ip), "identityParticles occupies the particle axes (0,4) of the rank-8 operator", kept == (0, 4) and rank == 8,
           f"{kept} of {rank}", key="role|identityParticles")
    lv = exprs["liouville"].value
    fac = _flatten_mul(lv)
    chk.ob("R12.4", fi.where(lv), "liouville = identityParticles * (term1 - term2)", len(fac) == 2 and n(fac[0]) == "identityParticles"
           and isinstance(fac[1], ast.BinOp) and isinstance(fac[1].op, ast.Sub), key="liouville|shape")
    if not (len(fac) == 2 and isinstance(fac[1], ast.BinOp) and isinstance(fac[1].op, ast.Sub)):
        return
    terms = {"L1": fac[1].left, "L2": fac[1].right}
    cv = exprs["collision"].value
    cfac = _flatten_mul(cv)
    inner = [f for f in cfac if isinstance(f, ast.BinOp) and isinstance(f.op, ast.Mult)]
    terms["C"] = cv
    want_scalars = {"L1": {"dchidxi", "momentumWall"}, "L2": {"dchidxi", "drzdpz", "dMsqdChi", "gammaWall / 2"},
                    "C": {"temperature ** 2", "self.collisionMultiplier"}}
    want_mats = {"L1": {(1, 5): "D", (2, 6): "T", (3, 7): "T"}, "L2": {(1, 5): "T", (2, 6): "D", (3, 7): "T"}, "C": {(1, 5): "T"}}
    for arm_name in ("spectral", "fd"):
        arm = arms[arm_name]
        for tname, texpr in terms.items():
            mats = {}
            scalars = set()
            bad = []
            for f_ in _flatten_mul(texpr):
                if isinstance(f_, ast.Subscript):
                    kept, rank = _kept_axes(f_)
                    base = n(f_.value).strip("()")
                    if rank != 8 or kept is None:
                        bad.append(f"{n(f_)[:40]}: not an 8-slot broadcast index")
                        continue
                    if kept == (0, 1, 2, 3):
                        scalars.add(base)
                    elif base == "self.collisionArray":
                        if kept != (0, 2, 3, 4, 6, 7):
                            bad.append(f"collisionArray on axes {kept}, expected (0,2,3,4,6,7)")
                    else:
                        prov = _matrix_provenance(base, arm, arms["common"])
                        if prov is None:
                            bad.append(f"{base}: provenance not understood")
                            continue
                        kind, direction = prov[0], prov[1]
                        roles = [ROLE[direction]] if direction in ROLE else [(2, 6), (3, 7)]
                        if kept not in roles:
                            bad.append(f"{base} is a {direction}-direction matrix but sits on axes {kept}")
                        mats[kept] = kind
                        if len(prov) > 2 and prov[2] is not None:
                            wb = "self.basisM" if direction == "z" else "self.basisN"
                            if prov[2] != wb:
                                bad.append(f"{base} built with basis {prov[2]}, expected {wb}")
                else:
                    scalars.add(n(f_).strip("()"))
            if mats != want_mats[tname]:
                bad.append(f"matrix kinds per axis pair {mats}, expected {want_mats[tname]}")
            if not want_scalars[tname] <= {s_.replace("(", "").replace(")", "") for s_ in scalars}:
                bad.append(f"scalar factors {sorted(scalars)}, expected at least {sorted(want_scalars[tname])}")
            chk.ob("R12.4", fi.where(texpr), f"{arm_name} mode, {'Liouville term ' + tname[1] if tname != 'C' else 'collision term'}: "
                   "every factor sits on the axes its provenance dictates", not bad, "; ".join(bad)[:400], key=f"roles|{arm_name}|{tname}")
    # slices [1:-1] of the derivative matrices (drop boundary rows)
    for nm in ("derivMatrixChi", "derivMatrixRz"):
        v = arms["spectral"].get(nm)
        ok = bool(v) and isinstance(v[-1], ast.Subscript) and slice_src(v[-1].slice) == "1:-1"
        chk.ob("R12.4", fi.where(), f"spectral `{nm}` drops the two boundary rows ([1:-1])", ok, n(v[-1]) if v else "", key=f"rows|{nm}")
        v = arms["fd"].get(nm)
        ok = bool(v) and isinstance(v[-1], ast.Subscript) and slice_src(v[-1].slice) == "1:-1, 1:-1"
        chk.ob("R12.4", fi.where(), f"finite-difference `{nm}` drops boundary rows and columns ([1:-1, 1:-1])", ok, n(v[-1]) if v else "",
               key=f"rowsfd|{nm}")
    # operator = liouville + collision
    ok = any(isinstance(st, ast.Assign) and n(st.targets[0]) == "operator" and n(st.value) in ("liouville + collision", "collision + liouville")
             for st in own_nodes(fi.node))
    chk.ob("R12.4", fi.where(), "operator = liouville + collision", ok, key="operator-sum")
    # compactification derivative roles: dchidxi from element 0, drzdpz from element 1
    okd = False
    for st in own_nodes(fi.node):
        if isinstance(st, ast.Assign) and isinstance(st.targets[0], ast.Tuple) and isinstance(st.value, ast.Call) \
                and (dotted(st.value.func) or "").endswith("getCompactificationDerivatives"):
            names = [n(e) for e in st.targets[0].elts]
            d0, d1 = names[0], names[1]
            a = {k: n(v[-1]) for k, v in arms["common"].items() if k in ("dchidxi", "drzdpz") and not isinstance(v[-1], tuple)}
            okd = a.get("dchidxi", "").startswith(f"1 / {d0}[None, :, None, None]") and a.get("drzdpz", "").startswith(f"1 / {d1}[None, None, :, None]")
    chk.ob("R12.4", fi.where(), "dchi/dxi and drz/dpz are the inverses of Jacobian elements 0 and 1 on the z and pz axes", okd, key="jacobian-roles")
    chk.floor("R12.4", 14)


def r12_5(chk: Check) -> None:
    f = chk.src.func(f"{BS}.setBackground")
    chk.touch(f.name)
    st = [s for s in own_nodes(f.node) if isinstance(s, ast.Assign) and n(s.targets[0]) == "self.background"]
    ok = len(st) == 1 and isinstance(st[0].value, ast.Call) and (dotted(st[0].value.func) or "").endswith("deepcopy") \
        and n(st[0].value.args[0]) == "background"
    chk.ob("R12.5", f.where(), "setBackground stores a deep copy of the caller's background", ok, key="deepcopy")
    boosts = calls_in(f.node, "boostToPlasmaFrame")
    ok = len(boosts) == 1 and n(boosts[0].func) == "self.background.boostToPlasmaFrame" and st and boosts[0].lineno > st[0].lineno
    chk.ob("R12.5", f.where(), "only the stored copy is boosted to the plasma frame", ok, key="boost-copy")
    fb = chk.src.func("containers:BoltzmannBackground.boostToPlasmaFrame")
    chk.touch(fb.name)
    ex = Extractor(chk.src, inline=lambda nm: nm.startswith("helpers:"))
    ps = [p for p in ex.paths(fb) if p.raised is None]
    env = ps[0].env
    v, vm, vw = ex.sym("self.velocityProfile"), ex.sym("self.velocityMid"), ex.sym("self.velocityWall")
    ok1, how1 = is_zero(env.get("self.velocityProfile") - (v - vm) / (1 - v * vm), chk.seed)
    ok2, how2 = is_zero(env.get("self.velocityWall") - (vw - vm) / (1 - vw * vm), chk.seed)
    chk.ob("R12.5", fb.where(), "boostToPlasmaFrame: v -> (v - vMid)/(1 - v vMid) for the profile and for the wall velocity", ok1 and ok2,
           f"{how1}; {how2}", key="boost-formula", how=how1)
    chk.floor("R12.5", 3)


def rules(chk: Check) -> None:
    fi = chk.src.func(f"{BS}.buildLinearEquations")
    chk.touch(fi.name)
    arms = _arms(fi)
    r12_1(chk, fi, arms)
    r12_2(chk, fi)
    r12_3(chk, fi)
    r12_4(chk, fi, arms)
    r12_5(chk)
    # basis independence of everything derived from deltaF (shared rule with C13)
    from .c13 import cardinal_before_weights
    cardinal_before_weights(chk, "R12.6")
    chk.floor("R12.6", 2)
