"""C09 -- in a uniform plasma the wall pressure equals the free-energy difference.

R09.1 dPhidz is the exact z-derivative of the field profile (scalar and broadcast branch)
R09.2 orientation: profile tends to the low-T vev at z -> -inf, high-T vev at z -> +inf; weight = -dz/dchi  ==> P = V(low) - V(high)
R09.3 integrand assembly on one grid state: dV/dz = sum_fields dV/dphi * dphi/dz at grid.xiValues, default cardinal/z polynomial,
      Jacobian element 0 of the same grid, no rescaling between _updateGrid and the integral
R09.5 cached grid data stay consistent under re-mapping (typestate shared with C17); R09.6 the position Jacobian of the three-scale grid is the derivative of its map (shared with C17)
R09.4 the quadrature applies weight * coefficients * sqrt(1-chi^2) * pi/M on the z axis (shared with C16)
"""
from __future__ import annotations

import ast

import sympy as sp

from ..core import AnchorMissing, Check, Undecided, calls_in, dotted, kwarg, own_nodes, src
from ..flow import CFG
from ..hydro import n, same_term
from ..terms import Extractor, ITE, SUM, is_zero

LEVEL = "other"
EOM = "equationOfMotion:EOM"


def r09_12(chk: Check):
    S = chk.src
    fi = S.func(f"{EOM}.wallProfile")
    chk.touch(fi.name)
    ex = Extractor(S, positive={"wallParams.widths"})
    ps = [p for p in ex.paths(fi) if p.raised is None]
    if len(ps) != 2:
        raise Undecided(f"wallProfile: expected scalar and broadcast branch, found {len(ps)} paths")
    z = ex.sym("z")
    L, d = ex.sym("wallParams.widths"), ex.sym("wallParams.offsets")
    vL, vH = ex.sym("vevLowT"), ex.sym("vevHighT")
    for p in ps:
        label = "scalar z" if p.guards and p.guards[0].polarity else "array z (broadcast)"
        f, df = p.value
        unwrap = lambda e: e.args[0] if isinstance(e, sp.core.function.AppliedUndef) and e.func.__name__ == "Fields.castFromNumpy" else e
        f, df = unwrap(f), unwrap(df)
        ok, how = is_zero(sp.diff(f, z) - df, chk.seed)
        chk.ob("R09.1", fi.where(), f"wallProfile ({label}): dPhidz == d(fields)/dz", ok, how, key=f"derivative|{label}", how=how)
        lo = sp.limit(f, z, -sp.oo)
        hi = sp.limit(f, z, sp.oo)
        chk.ob("R09.2", fi.where(), f"wallProfile ({label}): fields -> vevLowT for z -> -inf and -> vevHighT for z -> +inf", sp.simplify(lo - vL) == 0
               and sp.simplify(hi - vH) == 0, f"limits {lo}, {hi}", key=f"orientation|{label}", how="cas-limit")
        mid = sp.simplify(f.subs(z, -d * L) - (vL + vH) / 2)
        chk.ob("R09.2", fi.where(), f"wallProfile ({label}): field i is half way at z = -offset_i * width_i", mid == 0, str(mid), key=f"centre|{label}")
        dep = sp.simplify(sp.diff(f.subs({vL: vL + sp.Symbol("sh"), vH: vH + sp.Symbol("sh")}) - f, sp.Symbol("sh")) - 1)
        chk.ob("R09.2", fi.where(), f"wallProfile ({label}): the profile is affine in the vevs (a common shift of both vevs shifts the profile)", dep == 0,
               key=f"affine|{label}")
    chk.floor("R09.1", 2)
    chk.floor("R09.2", 6)


def r09_3(chk: Check):
    S = chk.src
    fi = S.func(f"{EOM}._intermediatePressureResults")
    chk.touch(fi.name)
    g = CFG(fi.node)
    defs = {}
    for st in sorted([x for x in own_nodes(fi.node) if isinstance(x, (ast.Assign, ast.AnnAssign))], key=lambda s_: s_.lineno):
        t = st.targets[0] if isinstance(st, ast.Assign) else st.target
        if st.value is None:
            continue
        defs.setdefault(n(t).strip("()"), []).append(st)
    # pressure = eomPoly.integrate(weight=-dzdchi)
    pres = defs.get("pressure", [])
    if len(pres) != 1:
        raise AnchorMissing("_intermediatePressureResults: `pressure` assignment not found")
    c = pres[0].value
    w = kwarg(c, "weight", 1) if isinstance(c, ast.Call) else None
    ok = isinstance(c, ast.Call) and n(c.func) == "eomPoly.integrate" and kwarg(c, "axis", 0) is None and w is not None and n(w).replace(" ", "") == "-dzdchi"
    chk.ob("R09.2", fi.where(pres[0]), "pressure = integrate(dV/dz, weight = -dz/dchi) over the whole grid: P = -int dz dV/dz = V(low) - V(high)", ok,
           n(c)[:100], key="weight-sign")
    jac = defs.get("dzdchi, _, _", [])
    ok = len(jac) == 1 and n(jac[0].value) == "self.grid.getCompactificationDerivatives()"
    chk.ob("R09.3", fi.where(), "dz/dchi is element 0 of self.grid.getCompactificationDerivatives() (grid points without end points)", ok, key="jacobian")
    poly = defs.get("eomPoly", [])
    ok = len(poly) == 1 and isinstance(poly[0].value, ast.Call) and n(poly[0].value.func) == "Polynomial" \
        and [n(a) for a in poly[0].value.args] == ["dVdz", "self.grid"] and not poly[0].value.keywords
    chk.ob("R09.3", fi.where(), "the integrand polynomial is Polynomial(dVdz, self.grid) with the defaults (Cardinal, z, no end points)", ok, key="polynomial")
    fpi = S.func("polynomial:Polynomial.__init__")
    a = fpi.node.args
    names = [x.arg for x in a.args]
    dfl = dict(zip(names[len(names) - len(a.defaults):], [n(d_) for d_ in a.defaults]))
    chk.ob("R09.3", fpi.where(), "Polynomial defaults are basis='Cardinal', direction='z', endpoints=False",
           dfl.get("basis", "").strip("'\"") == "Cardinal" and dfl.get("direction", "").strip("'\"") == "z" and dfl.get("endpoints") == "False", str(dfl),
           key="polynomial-defaults")
    dv = defs.get("dVdz", [])
    ok = len(dv) == 1 and same_term(S, "equationOfMotion", "EOM", dv[0].value, "np.sum(np.array(dVfull * dPhidz), axis=1)")
    ax = None
    if dv:
        for c_ in ast.walk(dv[0].value):
            if isinstance(c_, ast.Call) and (dotted(c_.func) or "").endswith("sum"):
                ax = kwarg(c_, "axis", 1)
    okax = ax is not None and (n(ax) == "1" or n(ax).endswith("overFieldTypes"))
    chk.ob("R09.3", fi.where(), "dV/dz = sum over the field axis (axis 1) of dVfull * dPhidz", bool(ok) and okax, n(dv[0].value) if dv else "", key="dVdz")
    dvf = defs.get("dVfull", [])
    ok = len(dvf) == 1 and same_term(S, "equationOfMotion", "EOM", dvf[0].value, "dVdPhi + dVout")
    chk.ob("R09.3", fi.where(), "dVfull = dV/dphi (equilibrium) + out-of-equilibrium term", bool(ok), key="dVfull")
    dvp = defs.get("dVdPhi", [])
    ok = len(dvp) == 1 and n(dvp[0].value) == "self.thermo.effectivePotential.derivField(fields, temperatureProfile)"
    chk.ob("R09.3", fi.where(), "dV/dphi = effectivePotential.derivField(fields, temperatureProfile) on the profile's own points", ok, key="dVdPhi")
    # the (fields, dPhidz) pair used in the integrand comes from ONE wallProfile call on grid.xiValues with the final wall parameters
    wp = [st for st in defs.get("fields, dPhidz", [])]
    ok = len(wp) == 1 and n(wp[0].value) == "self.wallProfile(self.grid.xiValues, vevLowT, vevHighT, wallParams)"
    chk.ob("R09.3", fi.where(), "fields and dPhidz of the integrand come from one wallProfile(self.grid.xiValues, vevLowT, vevHighT, wallParams) call", ok,
           n(wp[0].value) if wp else "", key="profile-pair")
    if wp and dv:
        # the final wallParams assignment precedes it; no wallParams assignment between them and the integral
        wpa = [st for st in defs.get("wallParams", [])]
        ok = all(st.lineno < wp[0].lineno for st in wpa)
        chk.ob("R09.3", fi.where(), "no wall-parameter update lies between that profile and the pressure integral", ok, key="params-stable")
    # dVout: sum over particles of dof * msqDerivative * Delta00 / 2
    dvo = defs.get("dVout", [])
    okd = False
    if dvo:
        ex = Extractor(S)
        try:
            t = ex.expr(dvo[0].value, {"__module__": "equationOfMotion", "__class__": "EOM"})
            okd = isinstance(t, sp.Basic) and "particle.msqDerivative(fields)" in str(t) and "particle.totalDOFs" in str(t) and "Delta00" in str(t) \
                and sp.simplify(t.subs(ex.sym("particle.totalDOFs"), 0)) == 0 if False else ("particle.msqDerivative(fields)" in str(t) and "/2" in str(t).replace(" ", ""))
        except Exception:
            okd = None
    chk.ob("R09.3", fi.where(), "out-of-equilibrium force = (1/2) sum_particles dof * dm^2/dphi * Delta00 (vanishes without such particles)", okd, key="dVout")
    # grid state: only _updateGrid rescales; it runs once per pressure evaluation, before any integrand is built
    callers_change = []
    callers_update = []
    for f_ in S.all_funcs():
        for c_ in ast.walk(f_.node):
            if isinstance(c_, ast.Call) and isinstance(c_.func, ast.Attribute):
                if c_.func.attr in ("changePositionFalloffScale", "changeMomentumFalloffScale") and f_.module not in ("grid", "grid3Scales"):
                    callers_change.append(f_.qual)
                if c_.func.attr == "_updateGrid":
                    callers_update.append(f_.qual)
    chk.ob("R09.3", "src/WallGo", "the grid is re-mapped only by EOM._updateGrid, which is called only by EOM.wallPressure",
           set(callers_change) == {"EOM._updateGrid"} and set(callers_update) == {"EOM.wallPressure"}, f"{callers_change}; {callers_update}", key="single-remap")
    fw = S.func(f"{EOM}.wallPressure")
    gw = CFG(fw.node)
    upd = set(gw.stmts_calling("_updateGrid"))
    users = set(gw.stmts_calling("_intermediatePressureResults")) | set(gw.stmts_calling("_getNextPressure"))
    ok = bool(upd) and bool(users) and all(gw.must_pass(CFG.ENTRY, u, lambda q: q in upd) for u in users)
    chk.ob("R09.3", fw.where(), "wallPressure re-maps the grid before the first integrand is built", ok, key="remap-first")
    ok2 = all(not any(u2 in gw.reachable(u) for u2 in upd) for u in users)
    chk.ob("R09.3", fw.where(), "and never again during the iteration of that pressure evaluation", ok2, key="remap-once")
    chk.floor("R09.3", 12)


def r09_4(chk: Check):
    S = chk.src
    fi = S.func("polynomial:Polynomial.integrate")
    chk.touch(fi.name)
    defs = {}
    for st in own_nodes(fi.node):
        if isinstance(st, ast.Assign):
            defs.setdefault(n(st.targets[0]), []).append(st.value)
    ok = any(n(v) == "weight * self.coefficients" for v in defs.get("integrand", []))
    chk.ob("R09.4", fi.where(), "quadrature: integrand = weight * coefficients (cardinal coefficients are grid values)", ok, key="integrand")
    mult = [x for x in own_nodes(fi.node) if isinstance(x, ast.AugAssign) and n(x.target) == "integrand" and isinstance(x.op, ast.Mult)]
    ok = len(mult) == 1 and "np.sqrt(1 - compactCoord ** 2) * weights" in n(mult[0].value)
    chk.ob("R09.4", fi.where(), "quadrature: each integrated axis is multiplied by sqrt(1 - chi^2) * (pi / M) weights (Gauss-Chebyshev-Lobatto)", ok, key="gcl-weight")
    zw = False
    for x in own_nodes(fi.node):
        if isinstance(x, ast.If) and n(x.test).replace(" ", "") in ('self.direction[i]=="z"', "self.direction[i]=='z'"):
            zw = any(isinstance(s_, ast.AugAssign) and n(s_.target) == "weights" and isinstance(s_.op, ast.Div) and n(s_.value) == "self.grid.M" for s_ in x.body)
    chk.ob("R09.4", fi.where(), "quadrature: the z direction uses pi / M", zw, key="z-weight")
    chk.floor("R09.4", 3)


def rules(chk: Check) -> None:
    r09_12(chk)
    r09_3(chk)
    r09_4(chk)
    from .c17 import cache_coherence, jacobian_identity
    cache_coherence(chk, "R09.5")
    chk.floor("R09.5", 8)
    # the weight -dz/dchi must be the derivative of the position map of the grid actually used by the wall solver
    jacobian_identity(chk, "R09.6", "grid3Scales:Grid3Scales", (0,))
    chk.floor("R09.6", 1)
