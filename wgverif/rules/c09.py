"""C09 -- in a uniform plasma the wall pressure equals the free-energy difference.

R09.1 dPhidz is the exact z-derivative of the field profile (scalar and broadcast branch)
R09.2 orientation: profile tends to the low-T vev at z -> -inf, high-T vev at z -> +inf; weight = -dz/dchi  ==> P = V(low) - V(high)
R09.3 integrand assembly on one grid state: dV/dz = sum_fields dV/dphi * dphi/dz at grid.xiValues, default cardinal/z polynomial,
      Jacobian element 0 of the same grid, no rescaling between _updateGrid and the integral
R09.5 cached grid data stay consistent under re-mapping (typestate shared with C17); R09.6 the position Jacobian of the three-scale grid is the derivative of its map (shared with C17)
R09.4 the quadrature applies weight * coefficients * sqrt(1-chi^2) * pi/M on the z axis (shared with C16): recognised structurally (weights local /
      weights helper, `/= self.grid.M` under the test direction == 'z') or, failing that, on the terms of c16.quadrature_factors (the factor broadcast
      onto an integrated z axis is sqrt(1 - x^2) * pi / M * ones), which does not depend on where and how the weights are built
"""
from __future__ import annotations

import ast
import copy
import dataclasses

import sympy as sp

from ..core import AnchorMissing, Check, Undecided, calls_in, dotted, kwarg, own_nodes, src
from ..flow import CFG
from ..hydro import n
from ..nf import Ctx, eqx, has, match, nf
from ..terms import Extractor, ITE, SUM, is_zero

LEVEL = "other"
EOM = "equationOfMotion:EOM"


# ------------------------------------------------------------------------------------------------ spelling-independent helpers


def _params(fi) -> list:
    return [a.arg for a in fi.node.args.args if a.arg not in ("self", "cls")]


def _plain_target(d):
    """the Name a plain assignment stores to (None for unpacking / attribute / subscript stores)"""
    if isinstance(d, ast.Assign) and len(d.targets) == 1 and isinstance(d.targets[0], ast.Name):
        return d.targets[0]
    if isinstance(d, ast.AnnAssign) and d.value is not None and isinstance(d.target, ast.Name):
        return d.target
    return None


def _define(g: CFG, at, e, depth: int = 0):
    """(CFG node, expression): follow a local used at `at` to its unique reaching plain assignment, repeatedly"""
    while isinstance(e, ast.Name) and depth < 8:
        rd = g.reaching_defs(at, e.id)
        if len(rd) != 1 or rd[0] is CFG.ENTRY or _plain_target(rd[0]) is None:
            break
        at, e, depth = rd[0], rd[0].value, depth + 1
    return at, e


def _inline(g: CFG, cx: Ctx, at, e, depth: int = 0):
    """copy of the expression e evaluated at `at` with locals replaced by their unique reaching plain definition (when the names in
    that definition have the same reaching definitions at both places, so that the replacement denotes the same value) and calls of
    simple extracted helpers replaced by their bodies; unlike Ctx.resolve this works for locals assigned more than once"""

    class R(ast.NodeTransformer):
        def visit_Name(self, x):
            if not isinstance(x.ctx, ast.Load) or depth >= 6:
                return x
            rd = g.reaching_defs(at, x.id)
            if len(rd) != 1 or rd[0] is CFG.ENTRY or _plain_target(rd[0]) is None or rd[0] is at:
                return x
            d = rd[0]
            inner = {y.id for y in ast.walk(d.value) if isinstance(y, ast.Name)}
            if x.id in inner or any({id(q) for q in g.reaching_defs(d, nm)} != {id(q) for q in g.reaching_defs(at, nm)} for nm in inner):
                return x
            return _inline(g, cx, d, d.value, depth + 1)

        def visit_Lambda(self, x):
            return x

    out = R().visit(copy.deepcopy(e))
    return cx.resolve(out, keep=set(cx.local_defs()))      # helpers only


def _unpack_index(d, name: str):
    """position of `name` in the tuple target of an unpacking assignment (None when d is not one)"""
    if isinstance(d, ast.Assign) and len(d.targets) == 1 and isinstance(d.targets[0], (ast.Tuple, ast.List)):
        names = [x.id if isinstance(x, ast.Name) else None for x in d.targets[0].elts]
        if names.count(name) == 1:
            return names.index(name)
    return None


def _element_of(g: CFG, cx: Ctx, at, e, is_source):
    """(source call, index) when expression e (used at `at`) is element `index` of the tuple returned by a call satisfying `is_source`:
    through `a, b = call`, `t = call; a, b = t`, `a = call[k]`"""
    at, e = _define(g, at, e)
    if isinstance(e, ast.Subscript) and isinstance(e.slice, ast.Constant) and isinstance(e.slice.value, int):
        _, v = _define(g, at, e.value)
        return (v, e.slice.value) if is_source(v) else (None, None)
    if isinstance(e, ast.Name):
        rd = g.reaching_defs(at, e.id)
        if len(rd) == 1 and rd[0] is not CFG.ENTRY:
            k = _unpack_index(rd[0], e.id)
            if k is not None:
                _, v = _define(g, rd[0], rd[0].value)
                if is_source(v):
                    return v, k
    return None, None


def _unzip(e):
    """copy of e with every comprehension generator `for a, b in zip(X, Y)` spelled `for _k, a in enumerate(X)` and b replaced by Y[_k]
    (the index form the rules read); anything else is left alone"""
    e = copy.deepcopy(e)
    k = 0
    for c in ast.walk(e):
        if not isinstance(c, (ast.ListComp, ast.GeneratorExp, ast.SetComp)):
            continue
        for gen in c.generators:
            it, tg = gen.iter, gen.target
            if not (isinstance(it, ast.Call) and isinstance(it.func, ast.Name) and it.func.id == "zip" and not it.keywords and isinstance(tg, ast.Tuple)
                    and len(tg.elts) == len(it.args) >= 2 and all(isinstance(t, ast.Name) for t in tg.elts) and not any(isinstance(a, ast.Starred) for a in it.args)):
                continue
            idx = f"_zip{k}_"
            k += 1
            sub = {t.id: ast.Subscript(value=a, slice=ast.Name(id=idx, ctx=ast.Load()), ctx=ast.Load()) for t, a in zip(tg.elts[1:], it.args[1:])}
            gen.target = ast.Tuple(elts=[ast.Name(id=idx, ctx=ast.Store()), tg.elts[0]], ctx=ast.Store())
            gen.iter = ast.Call(func=ast.Name(id="enumerate", ctx=ast.Load()), args=[it.args[0]], keywords=[])

            class Sb(ast.NodeTransformer):
                def visit_Name(self, x):
                    return copy.deepcopy(sub[x.id]) if isinstance(x.ctx, ast.Load) and x.id in sub else x
            c.elt = Sb().visit(c.elt)
            gen.ifs = [Sb().visit(i) for i in gen.ifs]
    return ast.fix_missing_locations(e)


def _strip_array(e):
    while isinstance(e, ast.Call) and (dotted(e.func) or "") in ("np.array", "np.asarray", "np.asanyarray") and len(e.args) == 1 and not e.keywords:
        e = e.args[0]
    return e


def _lower_ifexp(fi):
    """the function with every `x = a if c else b` / `return a if c else b` (a conditional expression as the whole right-hand side) rewritten
    to the if / else statement it abbreviates, so that the path enumeration sees the same two branches for both spellings"""

    def lower(st):
        for fld in ("body", "orelse", "finalbody"):
            if isinstance(getattr(st, fld, None), list) and not isinstance(st, (ast.FunctionDef, ast.AsyncFunctionDef, ast.ClassDef)):
                setattr(st, fld, [y for x in getattr(st, fld) for y in lower(x)])
        if isinstance(st, ast.Try):
            for h in st.handlers:
                h.body = [y for x in h.body for y in lower(x)]
        v = getattr(st, "value", None)
        if isinstance(st, (ast.Assign, ast.AnnAssign, ast.AugAssign, ast.Return)) and isinstance(v, ast.IfExp):
            arms = []
            for arm in (v.body, v.orelse):
                c = copy.copy(st)
                c.value = arm
                arms.append(lower(c))
            return [ast.copy_location(ast.If(test=v.test, body=arms[0], orelse=arms[1]), st)]
        return [st]

    node = copy.deepcopy(fi.node)
    node.body = [y for x in node.body for y in lower(x)]
    if ast.dump(node) == ast.dump(fi.node):
        return fi
    ast.fix_missing_locations(node)
    return dataclasses.replace(fi, node=node)


def r09_12(chk: Check):
    S = chk.src
    fi = S.func(f"{EOM}.wallProfile")
    chk.touch(fi.name)
    prm = _params(fi)
    if len(prm) != 4:
        raise AnchorMissing("wallProfile: expected parameters (z, vevLowT, vevHighT, wallParams)")
    pz, plo, phi, pwp = prm
    ex = Extractor(S, positive={f"{pwp}.widths"})
    cx = Ctx(S, fi)
    ps = [p for p in ex.paths(_lower_ifexp(fi)) if p.raised is None]
    if len(ps) != 2:
        raise Undecided(f"wallProfile: expected scalar and broadcast branch, found {len(ps)} paths")
    z = ex.sym(pz)
    L, d = ex.sym(f"{pwp}.widths"), ex.sym(f"{pwp}.offsets")
    vL, vH = ex.sym(plo), ex.sym(phi)
    labels = set()
    for p in ps:
        # the branch taken when the position argument is a scalar
        scalar = None
        for gd in p.guards:
            e, pol = cx.resolve(gd.node), gd.polarity
            while isinstance(e, ast.UnaryOp) and isinstance(e.op, ast.Not):
                e, pol = e.operand, not pol
            if eqx(e, f"np.isscalar({pz})"):
                scalar = pol
        label = "scalar z" if scalar else "array z (broadcast)"
        labels.add(label)
        f, df = p.value
        unwrap = lambda e: e.args[0] if isinstance(e, sp.core.function.AppliedUndef) and e.func.__name__ == "Fields.castFromNumpy" else e
        f, df = unwrap(f), unwrap(df)
        ok, how = is_zero(sp.diff(f, z) - df, chk.seed)
        chk.ob("R09.1", fi.where(), f"wallProfile ({label}): dPhidz == d(fields)/dz", ok, how, key=f"derivative|{label}", how=how)
        lo = sp.limit(f, z, -sp.oo)
        hi = sp.limit(f, z, sp.oo)
        chk.ob("R09.2", fi.where(), f"wallProfile ({label}): fields -> vevLowT for z -> -inf and -> vevHighT for z -> +inf", sp.simplify(lo - vL) == 0
               and sp.simplify(hi - vH) == 0, f"limits {lo}, {hi}", key=f"orientation|{label}", how="cas-limit")
        mid = sp.simplify(f.subs(z, -d * L) - (vL + vH) / 2)
        chk.ob("R09.2", fi.where(), f"wallProfile ({label}): field i is half way at z = -offset_i * width_i", mid == 0, str(mid), key=f"centre|{label}")
        dep = sp.simplify(sp.diff(f.subs({vL: vL + sp.Symbol("sh"), vH: vH + sp.Symbol("sh")}) - f, sp.Symbol("sh")) - 1)
        chk.ob("R09.2", fi.where(), f"wallProfile ({label}): the profile is affine in the vevs (a common shift of both vevs shifts the profile)", dep == 0,
               key=f"affine|{label}")
    if len(labels) != 2:
        raise Undecided("wallProfile: the scalar and the broadcast branch are not told apart by np.isscalar(z)")
    chk.floor("R09.1", 2)
    chk.floor("R09.2", 6)


def r09_3(chk: Check):
    S = chk.src
    fi = S.func(f"{EOM}._intermediatePressureResults")
    chk.touch(fi.name)
    g = CFG(fi.node)
    cx = Ctx(S, fi)
    prm = _params(fi)
    if len(prm) < 3:
        raise AnchorMissing("_intermediatePressureResults: parameters (wallParams, vevLowT, vevHighT, ...) not found")
    WP, VLO, VHI = prm[:3]
    rets = [r for r in g.nodes if isinstance(r, ast.Return)]
    rv = _define(g, rets[0], rets[0].value)[1] if len(rets) == 1 and rets[0].value is not None else None
    if not isinstance(rv, ast.Tuple) or len(rv.elts) != 4:
        raise AnchorMissing("_intermediatePressureResults: the returned (pressure, wallParams, boltzmannResults, boltzmannBackground) not found")
    ret = rets[0]
    # pressure = <polynomial>.integrate(weight=-dzdchi): the first returned value
    n_p, c = _define(g, ret, rv.elts[0])
    c = cx.resolve(c, keep=set(cx.local_defs()))        # look through an extracted helper around the call
    is_int = isinstance(c, ast.Call) and isinstance(c.func, ast.Attribute) and c.func.attr == "integrate"
    w = kwarg(c, "weight", 1) if is_int else None
    J = None        # the expression whose negative is the weight: a local, or (behind a helper) a constant-index element of a call
    n_w = n_p
    if w is not None:
        n_w, w = _define(g, n_p, w)
        wr = cx.resolve(w, keep=set(cx.local_defs()))
        for x in ast.walk(wr):
            if isinstance(x, (ast.Name, ast.Subscript)) and isinstance(getattr(x, "ctx", None), ast.Load) and nf(wr) == nf(ast.UnaryOp(op=ast.USub(), operand=x)):
                J = x
                break
    ok = is_int and kwarg(c, "axis", 0) is None or (is_int and eqx(kwarg(c, "axis", 0), "None"))
    chk.ob("R09.2", fi.where(n_p), "pressure = integrate(dV/dz, weight = -dz/dchi) over the whole grid: P = -int dz dV/dz = V(low) - V(high)", bool(ok) and J is not None,
           n(c)[:100], key="weight-sign")
    is_jac = lambda v: isinstance(v, ast.Call) and eqx(v, "self.grid.getCompactificationDerivatives()")
    call, k = _element_of(g, cx, n_w, J, is_jac) if J is not None else (None, None)
    chk.ob("R09.3", fi.where(), "dz/dchi is element 0 of self.grid.getCompactificationDerivatives() (grid points without end points)", call is not None and k == 0, key="jacobian")
    n_x, poly = _define(g, n_p, c.func.value) if is_int else (None, None)
    is_poly = isinstance(poly, ast.Call) and eqx(poly.func, "Polynomial")
    coef = kwarg(poly, "coefficients", 0) if is_poly else None
    ok = is_poly and coef is not None and eqx(kwarg(poly, "grid", 1), "self.grid", cx) and len(poly.args) + len(poly.keywords) == 2
    chk.ob("R09.3", fi.where(), "the integrand polynomial is Polynomial(dVdz, self.grid) with the defaults (Cardinal, z, no end points)", ok, key="polynomial")
    fpi = S.func("polynomial:Polynomial.__init__")
    a = fpi.node.args
    names = [x.arg for x in a.args]
    dfl = dict(zip(names[len(names) - len(a.defaults):], a.defaults))
    chk.ob("R09.3", fpi.where(), "Polynomial defaults are basis='Cardinal', direction='z', endpoints=False",
           eqx(dfl.get("basis"), "'Cardinal'") and eqx(dfl.get("direction"), "'z'") and eqx(dfl.get("endpoints"), "False"), str({k_: n(v) for k_, v in dfl.items()}),
           key="polynomial-defaults")
    # dV/dz = sum over the field axis of (dV/dphi + out-of-equilibrium force) * dphi/dz: term level, locals looked through
    n_d, dv = _define(g, n_x, coef) if coef is not None else (None, None)
    dvi = _inline(g, cx, n_d, dv) if dv is not None else None
    okax = False
    summand = None
    if isinstance(dvi, ast.Call) and eqx(dvi.func, "np.sum") and dvi.args:
        ax = kwarg(dvi, "axis", 1)
        okax = ax is not None and (eqx(ax, "1") or (isinstance(ax, ast.Attribute) and ax.attr == "overFieldTypes"))
        summand = _unzip(_strip_array(dvi.args[0]))
    ex = Extractor(S)
    T = None
    if summand is not None:
        try:
            T = ex.expr(summand, {"__module__": "equationOfMotion", "__class__": "EOM"})
        except Exception:
            T = None
    # the profile pair: the two locals of the integrand that are elements 0 / 1 of one wallProfile call
    is_prof = lambda v: isinstance(v, ast.Call) and eqx(v.func, "self.wallProfile")
    pair = {}
    for nm in sorted({x.id for x in ast.walk(summand) if isinstance(x, ast.Name)} if summand is not None else ()):
        call, k = _element_of(g, cx, n_d, ast.Name(id=nm, ctx=ast.Load()), is_prof)
        if call is not None:
            pair[nm] = (call, k)
    F = [nm for nm, (c_, k) in pair.items() if k == 0]
    G = [nm for nm, (c_, k) in pair.items() if k == 1]
    lin = A = None
    if isinstance(T, sp.Basic) and len(G) == 1:
        Gs = ex.sym(G[0])
        A = T.subs(Gs, 1)
        lin = sp.expand(T - Gs * A) == 0 and not A.has(Gs)
    chk.ob("R09.3", fi.where(), "dV/dz = sum over the field axis (axis 1) of dVfull * dPhidz", bool(lin) and okax, n(dv) if dv is not None else "", key="dVdz")
    DV = [x for x in A.atoms(sp.Function) if x.func.__name__.endswith("effectivePotential.derivField")] if isinstance(A, sp.Basic) and lin else []
    OUT = None
    ok = False
    if len(DV) == 1:
        OUT = sp.expand(A - DV[0])
        ok = not OUT.has(DV[0])
    chk.ob("R09.3", fi.where(), "dVfull = dV/dphi (equilibrium) + out-of-equilibrium term", ok, key="dVfull")
    ok = False
    if len(DV) == 1 and len(F) == 1 and len(DV[0].args) == 2 and DV[0].func.__name__ == "thermo.effectivePotential.derivField":
        tp = DV[0].args[1]
        # the temperature is the profile of this iteration: from findPlasmaProfile, or the profile supplied by the caller
        okT = False
        if isinstance(tp, sp.Symbol):
            okT = True
            for d in g.reaching_defs(n_d, tp.name):
                if d is CFG.ENTRY:
                    okT = False
                elif _unpack_index(d, tp.name) == 0 and isinstance(d.value, ast.Call) and eqx(d.value.func, "self.findPlasmaProfile"):
                    continue
                elif _plain_target(d) is not None and isinstance(d.value, ast.Name) and d.value.id in prm:
                    continue
                elif _unpack_index(d, tp.name) is not None and isinstance(d.value, ast.Tuple) and len(d.value.elts) == len(d.targets[0].elts) \
                        and isinstance(d.value.elts[_unpack_index(d, tp.name)], ast.Name) and d.value.elts[_unpack_index(d, tp.name)].id in prm:
                    continue        # `a, b = inputA, inputB`: the parallel spelling of two plain assignments
                else:
                    okT = False
        ok = DV[0].args[0] == ex.sym(F[0]) and okT
    chk.ob("R09.3", fi.where(), "dV/dphi = effectivePotential.derivField(fields, temperatureProfile) on the profile's own points", ok, key="dVdPhi")
    # the (fields, dPhidz) pair used in the integrand comes from ONE wallProfile call on grid.xiValues with the final wall parameters
    wp = None
    ok = False
    if len(F) == 1 and len(G) == 1 and pair[F[0]][0] is pair[G[0]][0]:
        wp = pair[F[0]][0]
        ok = eqx(kwarg(wp, "z", 0), "self.grid.xiValues", cx) and eqx(kwarg(wp, "vevLowT", 1), VLO, cx) and eqx(kwarg(wp, "vevHighT", 2), VHI, cx) \
            and eqx(kwarg(wp, "wallParams", 3), WP)
    chk.ob("R09.3", fi.where(), "fields and dPhidz of the integrand come from one wallProfile(self.grid.xiValues, vevLowT, vevHighT, wallParams) call", ok,
           n(wp) if wp is not None else str(pair)[:120], key="profile-pair")
    if wp is not None and dv is not None:
        # the wall parameters the profile was made with are the ones returned: no update between that profile and the end
        at = g.node_of(wp)
        a_, b_ = ({id(q) for q in g.reaching_defs(x, WP)} for x in (at, ret))
        ok = at is not None and a_ == b_ and isinstance(rv.elts[1], ast.Name) and rv.elts[1].id == WP
        chk.ob("R09.3", fi.where(), "no wall-parameter update lies between that profile and the pressure integral", ok, key="params-stable")
    # dVout: sum over particles of dof * msqDerivative * Delta00 / 2
    okd = None
    if OUT is not None and len(F) == 1:
        okd = False
        two = sp.simplify(2 * OUT)
        if isinstance(two, sp.Basic) and two.func == SUM and two.args:
            fac = sp.Mul.make_args(two.args[0])
            dof = [x for x in fac if isinstance(x, sp.Symbol) and x.name.endswith(".totalDOFs")]
            msq = [x for x in fac if isinstance(x, sp.core.function.AppliedUndef) and x.func.__name__.endswith(".msqDerivative") and x.args == (ex.sym(F[0]),)]
            dlt = [x for x in fac if isinstance(x, (sp.Symbol, sp.core.function.AppliedUndef)) and "Delta00.coefficients" in str(x)]
            okd = len(fac) == 3 and len(dof) == 1 and len(msq) == 1 and len(dlt) == 1 and dof[0].name.rsplit(".", 1)[0] == msq[0].func.__name__.rsplit(".", 1)[0]
    chk.ob("R09.3", fi.where(), "out-of-equilibrium force = (1/2) sum_particles dof * dm^2/dphi * Delta00 (vanishes without such particles)", okd, key="dVout")
    # grid state: only _updateGrid rescales; it runs once per pressure evaluation, before any integrand is built
    callers_change = []
    callers_update = []
    for f_ in S.all_funcs():
        for c_ in ast.walk(f_.node):
            if isinstance(c_, ast.Call) and isinstance(c_.func, ast.Attribute):
                if c_.func.attr in ("changePositionFalloffScale", "changeMomentumFalloffScale") and f_.module not in ("grid", "grid3Scales"):
                    callers_change.append(f_.qual)
                if c_.func.attr == "_updateGrid":
                    callers_update.append(f_.qual)
    chk.ob("R09.3", "src/WallGo", "the grid is re-mapped only by EOM._updateGrid, which is called only by EOM.wallPressure",
           set(callers_change) == {"EOM._updateGrid"} and set(callers_update) == {"EOM.wallPressure"}, f"{callers_change}; {callers_update}", key="single-remap")
    fw = S.func(f"{EOM}.wallPressure")
    gw = CFG(fw.node)
    upd = set(gw.stmts_calling("_updateGrid"))
    users = set(gw.stmts_calling("_intermediatePressureResults")) | set(gw.stmts_calling("_getNextPressure"))
    ok = bool(upd) and bool(users) and all(gw.must_pass(CFG.ENTRY, u, lambda q: q in upd) for u in users)
    chk.ob("R09.3", fw.where(), "wallPressure re-maps the grid before the first integrand is built", ok, key="remap-first")
    ok2 = all(not any(u2 in gw.reachable(u) for u2 in upd) for u in users)
    chk.ob("R09.3", fw.where(), "and never again during the iteration of that pressure evaluation", ok2, key="remap-once")
    chk.floor("R09.3", 12)


def _class_helper(S, fi, call):
    """the method of fi's own class called by `self.<m>(...)`, else None"""
    f = call.func if isinstance(call, ast.Call) else None
    if isinstance(f, ast.Attribute) and isinstance(f.value, ast.Name) and f.value.id == "self" and fi.cls:
        return S.modules[fi.module].funcs.get(f"{fi.cls}.{f.attr}")
    return None


def _weights_site(S, fi, W: str, calls: dict):
    """(function, local) where the quadrature weights W of `fi` are built: `fi` itself, or the method of the same class whose result
    is W (an extracted, not necessarily straight-line, helper); W is a local of fi or a placeholder of `calls` (placeholder -> helper call)"""
    sites = [calls[W]] if W in calls else [st.value for st in own_nodes(fi.node) if isinstance(st, (ast.Assign, ast.AnnAssign)) and _plain_target(st) is not None
                                            and _plain_target(st).id == W]
    for v in sites:
        h = _class_helper(S, fi, v)
        if h is not None:
            rets = [r for r in own_nodes(h.node) if isinstance(r, ast.Return) and isinstance(r.value, ast.Name)]
            if len(rets) == 1:
                return h, rets[0].value.id
    return (fi, W) if W not in calls else (None, None)


def _quadrature_terms(S, fi):
    """Term-level reading of Polynomial.integrate (evaluator shared with R16.3): {(direction, endpoints): decoded factor broadcast onto the
    integrated axis}.  Independent of where and how the weights are built: loop body or helper (receiving direction / endpoints as
    arguments, by position or keyword), per-axis attributes indexed or drawn from zip / enumerate, temporaries, comprehensions ..."""
    cache = S.__dict__.setdefault("_c09_quadrature_terms", {})      # per source model (lives and dies with it)
    if fi.name not in cache:
        from .c16 import quadrature_factors
        try:
            cache[fi.name] = quadrature_factors(S, fi)[0]
        except (Undecided, AnchorMissing):
            cache[fi.name] = {}
    return cache[fi.name]


def _gcl_by_terms(S, fi) -> bool:
    """for every (direction, endpoints): exactly one factor, sqrt(1 - x^2) * (weights free of x), with x the grid's compact coordinates of that axis"""
    got = _quadrature_terms(S, fi)
    return len(got) == 6 and all(v["n"] == 1 and v["sqrt"] and v["grid"] and v["scale"] is not None for v in got.values())


def _z_weight_by_terms(S, fi) -> bool:
    """for an integrated axis of direction 'z', with and without end points: that factor is sqrt(1 - x^2) * (pi / M) * (ones, end points halved)"""
    from .c16 import M as GRID_M
    got = _quadrature_terms(S, fi)
    ok = True
    for ep in (True, False):
        v = got.get(("z", ep))
        ok = ok and v is not None and v["n"] == 1 and v["sqrt"] and v["grid"] and v["scale"] is not None and sp.simplify(v["scale"] * GRID_M / sp.pi) == 1
    return bool(ok)


def r09_4(chk: Check):
    from .c01 import _dominating_tests, _positive
    S = chk.src
    fi = S.func("polynomial:Polynomial.integrate")
    chk.touch(fi.name)
    cx = Ctx(S, fi)
    wparam = "weight" if "weight" in fi.params() else None
    if wparam is None:
        raise AnchorMissing("Polynomial.integrate: parameter `weight` not found")
    # the accumulated integrand: the local initialised with weight * coefficients
    INT = None
    for st in own_nodes(fi.node):
        if isinstance(st, (ast.Assign, ast.AnnAssign)) and st.value is not None and _plain_target(st) is not None and eqx(st.value, f"{wparam} * self.coefficients", cx):
            INT = _plain_target(st).id
    chk.ob("R09.4", fi.where(), "quadrature: integrand = weight * coefficients (cardinal coefficients are grid values)", INT is not None, key="integrand")
    mult = []
    for x in own_nodes(fi.node):
        if INT is None:
            break
        if isinstance(x, ast.AugAssign) and isinstance(x.op, ast.Mult) and eqx(x.target, INT):
            mult.append(x.value)
        elif isinstance(x, ast.Assign) and eqx(x.targets[0], INT) and isinstance(x.value, ast.BinOp) and isinstance(x.value.op, ast.Mult) \
                and (eqx(x.value.left, INT) or eqx(x.value.right, INT)):
            mult.append(x.value.right if eqx(x.value.left, INT) else x.value.left)
    W = None
    calls: dict = {}
    if len(mult) == 1:
        # C: the compact coordinates of the integrated axis -- a local that only ever holds self.grid.getCompactCoordinates(..), or (when the
        # context looks through that local) the call itself; W: the weights -- a local, or (looked through) the call of the method that builds
        # them.  Such calls are given placeholder names so that one pattern covers both
        GCC = "_gcc_call_"

        class Nodes(ast.NodeTransformer):
            def visit_Call(self, x):
                if eqx(x.func, "self.grid.getCompactCoordinates"):
                    return ast.copy_location(ast.Name(id=GCC, ctx=ast.Load()), x)
                if _class_helper(S, fi, x) is not None and x.func.attr.startswith("_") and not x.func.attr.startswith("__"):
                    nm = f"_helper_call_{len(calls)}_"
                    calls[nm] = x
                    return ast.copy_location(ast.Name(id=nm, ctx=ast.Load()), x)
                return self.generic_visit(x)

        for y in ast.walk(Nodes().visit(cx.resolve(mult[0], keep={wparam}))):
            b = match(y, "np.sqrt(1 - __C ** 2) * __W") if isinstance(y, ast.BinOp) else None
            if b is not None and b["W"] != GCC and b["C"] not in calls:
                cands = [st.value for st in own_nodes(fi.node) if isinstance(st, (ast.Assign, ast.AnnAssign)) and _plain_target(st) is not None and _plain_target(st).id == b["C"]]
                if b["C"] == GCC or (cands and all(isinstance(v, ast.Call) and eqx(v.func, "self.grid.getCompactCoordinates") for v in cands)):
                    W = b["W"]
    chk.ob("R09.4", fi.where(), "quadrature: each integrated axis is multiplied by sqrt(1 - chi^2) * (pi / M) weights (Gauss-Chebyshev-Lobatto)",
           W is not None or _gcl_by_terms(S, fi), key="gcl-weight")
    zw = False
    fh, Wh = _weights_site(S, fi, W, calls) if W is not None else (None, None)
    if fh is not None:
        chk.touch(fh.name)
        gh = CFG(fh.node)
        ch = Ctx(S, fh)
        for x in gh.nodes:
            if eqx(x, f"{Wh} /= self.grid.M") or eqx(x, f"{Wh} = {Wh} / self.grid.M"):
                for t, pol in _dominating_tests(gh, x):
                    e, pol = _positive(t, pol, ch)
                    if pol and match(e, "self.direction[__I] == 'z'") is not None:
                        zw = True
    chk.ob("R09.4", fi.where(), "quadrature: the z direction uses pi / M", zw or _z_weight_by_terms(S, fi), key="z-weight")
    chk.floor("R09.4", 3)


def rules(chk: Check) -> None:
    for grp in (r09_12, r09_3, r09_4):
        chk.stage(grp, chk)
    from .c17 import cache_coherence, jacobian_identity
    chk.stage(cache_coherence, chk, "R09.5")
    chk.floor("R09.5", 8)
    # the weight -dz/dchi must be the derivative of the position map of the grid actually used by the wall solver
    chk.stage(jacobian_identity, chk, "R09.6", "grid3Scales:Grid3Scales", (0,))
    chk.floor("R09.6", 1)
