"""C01 -- reported wall velocity is a bracketed zero of the total pressure.

R01.1 result provenance: everything stored in the result comes from one pressure evaluation at the reported velocity,
      which is the brentq root of the pressure wrapper on the given bracket with xtol = errTol
R01.2 search windows (deflagration/hybrid window; detonation window asserts)
R01.3 error labelling: success False <=> ERROR at every setSuccessState site; every returned result was labelled;
      RUNAWAY only under `pressureMax < 0` and without a velocity
R01.4 the failure flags of the last pressure evaluation are consulted before success is reported
R01.5 flag typestate: reset on entry of the evaluation that may lower them; no other writers
R01.6 history independence: fresh solver objects per manager call; closed table of stores to long-lived objects
R01.7 the configured tolerances / grid sizes reach the constructors of the solver objects (results are a function of model and settings)
"""
from __future__ import annotations

import ast

from ..core import AnchorMissing, Check, Undecided, attr_stores, calls_in, dotted, kwarg, own_nodes, src, walk_guarded
from ..flow import CFG, reads_of
from ..hydro import n

LEVEL = "other"
EOM = "equationOfMotion:EOM"
SETTERS = {"setWallParams": 1, "setBoltzmannResults": 2, "setBoltzmannBackground": 3, "setHydroResults": 4}


def _wallpressure_return_order(chk: Check) -> list[str]:
    fw = chk.src.func(f"{EOM}.wallPressure")
    rets = [r for r in own_nodes(fw.node) if isinstance(r, ast.Return) and isinstance(r.value, ast.Tuple)]
    if len(rets) != 1:
        raise AnchorMissing("wallPressure: single tuple return not found")
    order = [n(e) for e in rets[0].value.elts]
    chk.ob("R01.1", fw.where(rets[0]), "wallPressure returns (pressure, wallParams, boltzmannResults, boltzmannBackground, hydroResults)",
           order == ["pressure", "wallParams", "boltzmannResults", "boltzmannBackground", "hydroResults"], str(order), key="return-order")
    return order


def r01_1(chk: Check):
    S = chk.src
    _wallpressure_return_order(chk)
    fs = S.func(f"{EOM}.solveWall")
    chk.touch(fs.name)
    g = CFG(fs.node)
    # all tuple sources: unpack of a wallPressure call or of a passed-in tuple
    unpacks = {}
    for x in g.nodes:
        if isinstance(x, ast.Assign) and isinstance(x.targets[0], ast.Tuple) and len(x.targets[0].elts) == 5:
            unpacks[x] = [n(e) for e in x.targets[0].elts]
    # group the setter calls by the setSuccessState call that labels them (same basic region)
    labels = [x for x in g.nodes if isinstance(x, ast.Expr) and isinstance(x.value, ast.Call) and n(x.value.func) == "results.setSuccessState"]
    setters = [x for x in g.nodes if isinstance(x, ast.Expr) and isinstance(x.value, ast.Call) and isinstance(x.value.func, ast.Attribute)
               and n(x.value.func.value) == "results" and x.value.func.attr in SETTERS]
    velset = [x for x in g.nodes if isinstance(x, ast.Expr) and isinstance(x.value, ast.Call) and n(x.value.func) == "results.setWallVelocities"]
    if len(setters) < 12 or len(velset) < 3:
        raise AnchorMissing("solveWall: result setters not found")
    for vs in velset:
        c = vs.value
        v = kwarg(c, "wallVelocity", 0)
        mine = [s_ for s_ in setters if s_ in g.reachable(vs) and not any(v2 in g.reachable(vs) and s_ in g.reachable(v2) for v2 in velset if v2 is not vs)]
        sources = set()
        detail = []
        ok = True
        for s_ in mine:
            a = s_.value.args[0]
            pos = SETTERS[s_.value.func.attr]
            rd = g.reaching_defs(s_, n(a)) if isinstance(a, ast.Name) else []
            rd = [d for d in rd if d in unpacks]
            if not rd:
                ok = False
                detail.append(f"{s_.value.func.attr}({n(a)}): not from a wallPressure tuple")
                continue
            for d in rd:
                if unpacks[d].index(n(a)) != pos:
                    ok = False
                    detail.append(f"{s_.value.func.attr}({n(a)}) takes tuple position {unpacks[d].index(n(a))}, expected {pos}")
                srcv = d.value
                if isinstance(srcv, ast.Call) and n(srcv.func) == "self.wallPressure":
                    sources.add("wallPressure(" + n(srcv.args[0]) + ")")
                else:
                    sources.add(n(srcv))
        kind = "finite velocity" if not (isinstance(v, ast.Constant) and v.value is None) else "no velocity"
        # all setters of one exit draw on evaluations at one velocity
        vel_args = {s_[len("wallPressure("):-1] if s_.startswith("wallPressure(") else {"wallPressureResultsMax": "wallVelocityMax", "wallPressureResultsMin": "wallVelocityMin"}.get(s_, s_)
                    for s_ in sources}
        ok = ok and len(vel_args) == 1 and len(mine) == 4
        if kind == "finite velocity":
            ok = ok and vel_args == {n(v)}
        chk.ob("R01.1", fs.where(vs), f"exit with {kind}: wall parameters, Boltzmann results, background and hydro results stored with it are tuple "
               f"positions 1-4 of pressure evaluation(s) at one velocity" + (" -- the reported one" if kind == "finite velocity" else ""),
               ok, "; ".join(detail) + f" sources={sorted(sources)}", key=f"provenance|{kind}|{sorted(vel_args)}")
    # the reported velocity is the brentq root of the wrapper
    rs = [c for c in calls_in(fs.node, "root_scalar")]
    ok = len(rs) == 1 and n(rs[0].args[0]) == "pressureWrapper" and n(kwarg(rs[0], "bracket")).replace(" ", "") == "[wallVelocityMin,wallVelocityMax]" \
        and n(kwarg(rs[0], "xtol")) == "self.errTol" and n(kwarg(rs[0], "method")).strip("'\"") == "brentq"
    chk.ob("R01.1", fs.where(), "the velocity is root_scalar(pressureWrapper, brentq, bracket=[vMin, vMax], xtol=self.errTol).root", ok, key="root")
    wv = [x for x in g.nodes if isinstance(x, ast.Assign) and n(x.targets[0]) == "wallVelocity"]
    ok = len(wv) == 1 and n(wv[0].value) == "optimizeResult.root"
    chk.ob("R01.1", fs.where(), "wallVelocity is that root and is not modified afterwards", ok, key="root-unmodified")
    fw = S.func(f"{EOM}.solveWall.pressureWrapper")
    rets = [r for r in own_nodes(fw.node) if isinstance(r, ast.Return)]
    kinds = sorted(n(r.value) for r in rets)
    ok = len(rets) == 3 and "pressureMin" in kinds and "pressureMax" in kinds and any(k.startswith("self.wallPressure(vw,") and k.endswith("[0]") for k in kinds)
    chk.ob("R01.1", fw.where(), "pressureWrapper returns element 0 (the pressure) of wallPressure(vw, ...) or the cached end-point pressures", ok, str(kinds)[:200],
           key="wrapper")
    ends = {}
    for guards, st in walk_guarded(fw.node):
        if isinstance(st, ast.Return) and n(st.value) in ("pressureMin", "pressureMax"):
            ends[n(st.value)] = " ".join(n(t) for t, pol in guards if pol and not isinstance(t, tuple))
    ok = "wallVelocityMin" in ends.get("pressureMin", "") and "wallVelocityMax" not in ends.get("pressureMin", "") and \
        "wallVelocityMax" in ends.get("pressureMax", "") and "wallVelocityMin" not in ends.get("pressureMax", "")
    chk.ob("R01.1", fw.where(), "the cached pressure of each end is returned only at (or beyond) that end", ok, str(ends), key="wrapper-ends")
    # bracket endpoints: pressureMin/Max are evaluations at wallVelocityMin/Max
    ok = True
    for nm, vel in (("pressureMax", "wallVelocityMax"), ("pressureMin", "wallVelocityMin")):
        for d, names in unpacks.items():
            if names[0] == nm and isinstance(d.value, ast.Call) and n(d.value.func) == "self.wallPressure":
                if n(d.value.args[0]) != vel:
                    ok = False
    chk.ob("R01.1", fs.where(), "the end-point pressures are evaluated at the end-point velocities", ok, key="endpoints")
    chk.floor("R01.1", 8)


def r01_2(chk: Check):
    S = chk.src
    fd = S.func(f"{EOM}.findWallVelocityDetonation")
    chk.touch(fd.name)
    asserts = [n(a.test).replace(" ", "") for a in own_nodes(fd.node) if isinstance(a, ast.Assert)]
    chk.ob("R01.2", fd.where(), "detonation search asserts vJ < vmin < 1 and vmin < vmax < 1",
           "self.hydrodynamics.vJ<vmin<1" in asserts and "vmin<vmax<1" in asserts, str(asserts), key="deton-window")
    calls = calls_in(fd.node, "solveWall")
    ok = len(calls) == 1 and [n(a) for a in calls[0].args] == ["vw2", "vw3", "wallParams2", "wallPressureResults1", "wallPressureResults2"]
    chk.ob("R01.2", fd.where(), "a detonation root is refined on the bracket [vw2, vw3] with the cached evaluations of exactly these two points", ok,
           n(calls[0])[:160] if calls else "", key="deton-bracket")
    guard_ok = False
    for guards, st in walk_guarded(fd.node):
        if calls and any(c is calls[0] for c in ast.walk(st)):
            guard_ok = any(pol and n(t).replace(" ", "") == "pressure3>=0>=pressure2" for t, pol in guards if not isinstance(t, tuple))
    chk.ob("R01.2", fd.where(), "that refinement happens only when the pressure changes sign from <= 0 to >= 0 between them", guard_ok, key="deton-sign")
    fm = S.func("manager:WallGoManager.solveWallDetonation")
    chk.touch(fm.name)
    d = {n(st.targets[0]): n(st.value).replace(" ", "") for st in own_nodes(fm.node) if isinstance(st, ast.Assign) and isinstance(st.targets[0], ast.Name)}
    ok = d.get("vmin", "").startswith("max(self.hydrodynamics.vJ+") and "self.hydrodynamics.slowestDeton()" in d.get("vmin", "") and d.get("vmax") == "self.config.configEOM.vwMaxDeton"
    chk.ob("R01.2", fm.where(), "manager: detonation window = [max(vJ + margin, slowestDeton()), vwMaxDeton]", ok, str({k: d.get(k) for k in ("vmin", "vmax")}), key="manager-window")
    chk.floor("R01.2", 4)


def r01_3(chk: Check):
    S = chk.src
    count = 0
    for fi in S.all_funcs():
        for c in own_nodes(fi.node):
            if isinstance(c, ast.Call) and isinstance(c.func, ast.Attribute) and c.func.attr == "setSuccessState":
                a = kwarg(c, "success", 0)
                b = kwarg(c, "solutionType", 1)
                if isinstance(a, ast.Constant) and isinstance(a.value, bool):
                    is_err = n(b).endswith("ESolutionType.ERROR") if b is not None else False
                    count += 1
                    # a non-constant solution type (variable) is allowed only with success True and must never be ERROR
                    if isinstance(b, ast.Name):
                        vals = [st.value for st in own_nodes(fi.node) if isinstance(st, ast.Assign) and n(st.targets[0]) == b.id]
                        is_err = any(n(v).endswith("ERROR") for v in vals)
                    chk.ob("R01.3", fi.where(c), f"setSuccessState({a.value}, {n(b) if b is not None else '?'}): success is False exactly when the label is ERROR",
                           (a.value is False) == is_err, key=f"label|{fi.qual}|{a.value}|{n(b).split('.')[-1] if b is not None else ''}|{count}")
                else:
                    chk.ob("R01.3", fi.where(c), "setSuccessState is called with a literal success flag", None, n(c)[:80])
    for q in ("solveWall", "findWallVelocityDetonation"):
        fi = S.func(f"{EOM}.{q}")
        g = CFG(fi.node)
        labels = set(g.stmts_calling("setSuccessState"))
        rets = [r for r in g.nodes if isinstance(r, ast.Return)]
        for r in rets:
            if n(r.value) in ("results", "[results]"):
                ok = g.must_pass(CFG.ENTRY, r, lambda x: x in labels)
                chk.ob("R01.3", fi.where(r), f"{q}: `return {n(r.value)}` is reached only after the result was labelled by setSuccessState", ok,
                       key=f"labelled|{q}|{n(r.value)}")
    # RUNAWAY in solveWall only under pressureMax < 0 and with no velocity
    fs = S.func(f"{EOM}.solveWall")
    for guards, st in walk_guarded(fs.node):
        if isinstance(st, ast.Expr) and isinstance(st.value, ast.Call) and n(st.value.func) == "results.setSuccessState" and "RUNAWAY" in n(st.value):
            gtxt = [n(t).replace(" ", "") for t, pol in guards if pol and not isinstance(t, tuple)]
            chk.ob("R01.3", fs.where(st), "solveWall reports RUNAWAY only when the pressure at the top of the window is negative", "pressureMax<0" in gtxt,
                   str(gtxt), key="runaway-guard")
            blk = None
            for x in own_nodes(fs.node):
                if isinstance(x, ast.If) and n(x.test).replace(" ", "") == "pressureMax<0":
                    blk = x
            novel = blk is not None and any(isinstance(s_, ast.Expr) and isinstance(s_.value, ast.Call) and n(s_.value.func) == "results.setWallVelocities"
                                            and isinstance(s_.value.args[0], ast.Constant) and s_.value.args[0].value is None for s_ in blk.body)
            chk.ob("R01.3", fs.where(st), "and then no wall velocity is returned", novel, key="runaway-no-velocity")
    chk.floor("R01.3", 14)


def r01_4(chk: Check):
    S = chk.src
    fs = S.func(f"{EOM}.solveWall")
    g = CFG(fs.node)
    evals = set(g.stmts_calling("wallPressure"))
    flags = ("self.successWallPressure", "self.successTemperatureProfile")
    cnt = 0
    for x in g.nodes:
        if isinstance(x, ast.Expr) and isinstance(x.value, ast.Call) and n(x.value.func) == "results.setSuccessState":
            a = kwarg(x.value, "success", 0)
            if not (isinstance(a, ast.Constant) and a.value is True):
                continue
            cnt += 1
            missing = []
            for fl in flags:
                readers = {q for q in g.nodes if g.kind.get(q) != "def" and reads_of(q, fl)}
                # every path from a pressure evaluation to this success report must read the flag
                for e in evals:
                    if x in g.reachable(e) and not g.must_pass(e, x, lambda q: q in readers):
                        # ... unless another evaluation lies in between on that path (then that one is the relevant one)
                        if not g.must_pass(e, x, lambda q: q in readers or (q in evals and q is not e)):
                            missing.append(fl.split(".")[-1])
                            break
            label = n(kwarg(x.value, "solutionType", 1)).split(".")[-1]
            chk.ob("R01.4", fs.where(x), f"solveWall reports success ({label}) only after consulting successWallPressure and successTemperatureProfile "
                   "of the pressure evaluation it relies on", not missing,
                   f"flag(s) never read on a path from the evaluation to this report: {sorted(set(missing))}", key=f"flags-consulted|{label}")
    if cnt < 2:
        raise AnchorMissing("solveWall: success reports not found")
    chk.floor("R01.4", 2)


def r01_5(chk: Check):
    S = chk.src
    table = {"successWallPressure": ("wallPressure", "True"), "successTemperatureProfile": ("findPlasmaProfile", "True")}
    writers = {}
    for fi in S.all_funcs():
        for x in own_nodes(fi.node):
            tg = x.targets if isinstance(x, ast.Assign) else []
            for t in tg:
                if isinstance(t, ast.Attribute) and t.attr in table:
                    writers.setdefault(t.attr, []).append((fi, x))
    for flag, (owner, init) in table.items():
        ws = writers.get(flag, [])
        outside = [f"{fi.qual}" for fi, x in ws if not (fi.cls == "EOM" and fi.qual.split(".")[-1] in (owner, "__init__"))]
        chk.ob("R01.5", "src/WallGo/equationOfMotion.py", f"{flag} is written only by EOM.{owner} (and initialised in __init__)", not outside and bool(ws),
               str(outside), key=f"writers|{flag}")
        fo = S.func(f"{EOM}.{owner}")
        chk.touch(fo.name)
        g = CFG(fo.node)
        resets = [x for x in g.nodes if isinstance(x, ast.Assign) and n(x.targets[0]) == f"self.{flag}" and n(x.value) == "True"]
        lowers = [x for x in g.nodes if isinstance(x, ast.Assign) and n(x.targets[0]) == f"self.{flag}" and n(x.value) == "False"]
        ok = len(resets) == 1 and bool(lowers) and all(g.must_pass(CFG.ENTRY, l_, lambda q: q in resets) for l_ in lowers)
        # reset happens before any loop / callee that could lower it
        loops = [x for x in g.nodes if g.kind.get(x) in ("iter", "test") and isinstance(getattr(g, "header_of", {}).get(x), (ast.While, ast.For))]
        ok = ok and all(g.must_pass(CFG.ENTRY, l_, lambda q: q in resets) for l_ in loops)
        chk.ob("R01.5", fo.where(), f"{owner} resets {flag} to True on entry, before the iteration that may lower it", ok, key=f"reset|{flag}")
    # wallPressure evaluates the profile through findPlasmaProfile on every iteration when energy conservation is enforced
    fi = S.func(f"{EOM}._intermediatePressureResults")
    calls = calls_in(fi.node, "findPlasmaProfile")
    chk.ob("R01.5", fi.where(), "every pressure iteration recomputes the plasma profile through findPlasmaProfile (unless fixed profiles are supplied)",
           len(calls) == 1, key="profile-per-iteration")
    chk.floor("R01.5", 5)


# stores to objects that outlive one manager call: (class, attribute) -> reason
LONG_LIVED_STORES = {
    ("Hydrodynamics", "success"): "convergence flag of the last 2x2 matching; reset in findvwLTE before it is read (R05.3)",
    ("Hydrodynamics", "doesPhaseTraceLimitvmax"): "function of the model and its traced ranges only (same value on every call)",
}
MANAGER_SOLVER_METHODS = ("solveWall", "solveWallDetonation", "wallSpeedLTE", "setupWallSolver", "buildGrid", "buildEOM")


def r01_6(chk: Check):
    S = chk.src
    # fresh objects per call
    fsu = S.func("manager:WallGoManager.setupWallSolver")
    chk.touch(fsu.name)
    built = {n(st.targets[0]) if isinstance(st, ast.Assign) else n(st.target): n(st.value)[:60] for st in own_nodes(fsu.node)
             if isinstance(st, (ast.Assign, ast.AnnAssign)) and st.value is not None}
    ok = built.get("grid", "").startswith("self.buildGrid(") and built.get("boltzmannSolver", "").startswith("BoltzmannSolver(") and \
        built.get("eom", "").startswith("self.buildEOM(grid, boltzmannSolver")
    chk.ob("R01.6", fsu.where(), "setupWallSolver builds a fresh grid, BoltzmannSolver and EOM on every call", ok, str({k: built.get(k) for k in ("grid", "boltzmannSolver", "eom")}),
           key="fresh-objects")
    for q, ctor in (("buildGrid", "Grid3Scales"), ("buildEOM", "EOM")):
        f_ = S.func(f"manager:WallGoManager.{q}")
        chk.touch(f_.name)
        rets = [r for r in own_nodes(f_.node) if isinstance(r, ast.Return)]
        ok = len(rets) == 1 and isinstance(rets[0].value, ast.Call) and n(rets[0].value.func) == ctor
        chk.ob("R01.6", f_.where(), f"{q} returns a newly constructed {ctor}", ok, key=f"ctor|{q}")
    for q in ("solveWall", "solveWallDetonation"):
        f_ = S.func(f"manager:WallGoManager.{q}")
        chk.touch(f_.name)
        g = CFG(f_.node)
        setup = set(g.stmts_calling("setupWallSolver"))
        users = set(g.stmts_calling("findWallVelocityDeflagrationHybrid")) | set(g.stmts_calling("findWallVelocityDetonation"))
        ok = bool(setup) and bool(users) and all(g.must_pass(CFG.ENTRY, u, lambda x: x in setup) for u in users)
        chk.ob("R01.6", f_.where(), f"manager.{q} sets up a new wall solver before solving", ok, key=f"setup|{q}")
    # no solver object cached on the manager
    mgr = S.cls("manager:WallGoManager")
    cached = []
    for name in MANAGER_SOLVER_METHODS:
        f_ = mgr.methods.get(name)
        if f_ is None:
            raise AnchorMissing(f"WallGoManager.{name} not found")
        for a, st in attr_stores(f_.node):
            cached.append(f"{name}: self.{a}")
    chk.ob("R01.6", "src/WallGo/manager.py", "the solver entry points of the manager store nothing on the manager (no cached solver state between calls)",
           not cached, "; ".join(cached), key="manager-stores")
    # closed table of stores to long-lived objects in the hydrodynamics / thermodynamics layer
    seen = set()
    extra = []
    for cls, mod in (("Hydrodynamics", "hydrodynamics"), ("HydrodynamicsTemplateModel", "hydrodynamicsTemplateModel"), ("Thermodynamics", "thermodynamics")):
        ci = S.cls(f"{mod}:{cls}")
        for mname, f_ in ci.methods.items():
            if mname in ("__init__", "setExtrapolate"):
                continue
            for a, st in attr_stores(f_.node, own=False):
                if (cls, a) in LONG_LIVED_STORES:
                    seen.add((cls, a))
                else:
                    extra.append(f"{cls}.{mname}: self.{a}")
    chk.ob("R01.6", "src/WallGo/hydrodynamics.py", "hydrodynamics / thermodynamics methods used by the solver store only the attributes of the closed table "
           f"{sorted(a for _, a in LONG_LIVED_STORES)}", not extra, "; ".join(extra), key="long-lived-stores")
    # the interpolated free energies cannot grow during solving: adaptive updates are disabled before any solver can run
    fr = S.func("manager:WallGoManager.initTemperatureRange")
    g = CFG(fr.node)
    dis = g.stmts_calling("disableAdaptiveInterpolation")
    tr = g.stmts_calling("tracePhase")
    ok = len(dis) == 2 and bool(tr) and all(g.must_pass(CFG.ENTRY, t, lambda x: x in dis) for t in tr) and \
        {n(d.value.func) for d in dis if isinstance(d, ast.Expr)} == {"self.thermodynamics.freeEnergyHigh.disableAdaptiveInterpolation",
                                                                     "self.thermodynamics.freeEnergyLow.disableAdaptiveInterpolation"}
    chk.ob("R01.6", fr.where(), "adaptive interpolation of both free energies is disabled right after they are created (their tables cannot change during solving)",
           ok, key="no-adaptive-growth")
    ffe = S.func("freeEnergy:FreeEnergy.__init__")
    ok = any(isinstance(c, ast.Call) and n(c.func) == "self.setExtrapolationType" and [n(a) for a in c.args] == ["EExtrapolationType.ERROR", "EExtrapolationType.ERROR"]
             for c in own_nodes(ffe.node))
    chk.ob("R01.6", ffe.where(), "free energies refuse evaluation outside their table (ERROR extrapolation): no silent direct evaluation either", ok, key="error-extrapolation")
    # the Boltzmann background stored in the result is never boosted (deep copy inside the solver)
    fb = S.func("boltzmann:BoltzmannSolver.setBackground")
    ok = any(isinstance(st, ast.Assign) and n(st.targets[0]) == "self.background" and isinstance(st.value, ast.Call) and (dotted(st.value.func) or "").endswith("deepcopy")
             for st in own_nodes(fb.node))
    chk.ob("R01.6", fb.where(), "the Boltzmann solver boosts a deep copy: the background returned with the result stays in the wall frame", ok, key="deepcopy")
    from ..core import shared_mutable_class_state
    shared = shared_mutable_class_state(S)
    chk.ob("R01.6", "src/WallGo", "no class keeps mutable state at class level that its methods mutate in place (such state is shared by all instances and "
           "survives from one solver call to the next)", not shared, "; ".join(f"{f.qual} mutates class-level `{a}` of {c}" for f, x, c, a in shared)[:300],
           key="no-shared-class-state")
    chk.floor("R01.6", 11)


CONFIG_PLUMBING = {
    # constructor: {parameter: config attribute path}
    "EOM": {"errTol": "configEOM.errTol", "maxIterations": "configEOM.maxIterations", "pressRelErrTol": "configEOM.pressRelErrTol",
            "forceEnergyConservation": "configEOM.conserveEnergyMomentum", "wallThicknessBounds": "configEOM.wallThicknessBounds",
            "wallOffsetBounds": "configEOM.wallOffsetBounds"},
    "Hydrodynamics": {"tmax": "configHydrodynamics.tmax", "tmin": "configHydrodynamics.tmin", "rtol": "configHydrodynamics.relativeTol",
                      "atol": "configHydrodynamics.absoluteTol"},
    "Grid3Scales": {"M": "configGrid.spatialGridSize", "N": "configGrid.momentumGridSize", "ratioPointsWall": "configGrid.ratioPointsWall",
                    "smoothing": "configGrid.smoothing"},
    "BoltzmannSolver": {"collisionMultiplier": "configBoltzmannSolver.collisionMultiplier"},
}


def r01_7(chk: Check):
    """the configured settings reach the solver objects: the result is a function of model AND settings"""
    S = chk.src
    mgr = S.cls("manager:WallGoManager")
    for ctor, mapping in CONFIG_PLUMBING.items():
        site = None
        for name, f_ in mgr.methods.items():
            for c in own_nodes(f_.node):
                if isinstance(c, ast.Call) and n(c.func) == ctor:
                    site = (f_, c)
        if site is None:
            raise AnchorMissing(f"manager: construction of {ctor} not found")
        f_, c = site
        chk.touch(f_.name)
        target = None
        for m_ in S.modules.values():
            if ctor in m_.classes:
                target = m_.classes[ctor].methods.get("__init__")
        params = [p for p in target.params() if p != "self"]
        bound = {}
        for i, a in enumerate(c.args):
            if i < len(params):
                bound[params[i]] = a
        for k in c.keywords:
            if k.arg:
                bound[k.arg] = k.value
        defs = {}
        for st in own_nodes(f_.node):
            if isinstance(st, ast.Assign) and isinstance(st.targets[0], ast.Name):
                defs[st.targets[0].id] = st.value
        for p, path in mapping.items():
            a = bound.get(p)
            srcs = ""
            if a is not None:
                seen = 0
                e = a
                while isinstance(e, ast.Name) and e.id in defs and seen < 4:
                    e = defs[e.id]
                    seen += 1
                srcs = n(e)
            ok = a is not None and f"self.config.{path}" in srcs
            chk.ob("R01.7", f_.where(c), f"{ctor}({p}=...) receives the configured value config.{path} (not a hard-wired or default value)", ok,
                   f"argument: {n(a) if a is not None else 'not passed (constructor default is used)'} <- {srcs}", key=f"plumbing|{ctor}.{p}")
    chk.floor("R01.7", 15)


def rules(chk: Check) -> None:
    r01_7(chk)
    r01_1(chk)
    r01_2(chk)
    r01_3(chk)
    r01_4(chk)
    r01_5(chk)
    r01_6(chk)
