"""C01 -- reported wall velocity is a bracketed zero of the total pressure.

R01.1 result provenance: everything stored in the result comes from one pressure evaluation at the reported velocity,
      which is the brentq root of the pressure wrapper on the given bracket with xtol = errTol
R01.2 search windows (deflagration/hybrid window; detonation window asserts)
R01.3 error labelling: success False <=> ERROR at every setSuccessState site; every returned result was labelled;
      RUNAWAY only under `pressureMax < 0` and without a velocity
R01.4 the failure flags of the last pressure evaluation are consulted before success is reported
R01.5 flag typestate: reset on entry of the evaluation that may lower them; no other writers
R01.6 history independence: fresh solver objects per manager call; closed table of stores to long-lived objects
R01.7 the configured tolerances / grid sizes reach the constructors of the solver objects (results are a function of model and settings)

Locals are identified by their role (what is assigned to them, which argument position of a known API call they fill), never by
their spelling; expressions are compared through normal forms (nf.py) that look through temporaries and simple extracted helpers.
Structure is normalised before it is analysed (`normalised`): a `for` over a literal tuple / list of cases (also zip / enumerate of
literals) is written out case by case, a call statement of a small procedure and a call of a helper that only chooses between values
by if / else are replaced by their bodies when they contain one of the calls the rules anchor in.  Elements of a pressure evaluation
may be stored by unpacking (`p, w, b, bg, h = ev`) or by indexing (`w = ev[1]`) (`_projection`); a conditional expression is a
two-way branch (`_tuple_sources`, `_value_sources`, `_label_of`).
"""
from __future__ import annotations

import ast
import copy
from fractions import Fraction

from ..core import AnchorMissing, Check, FuncInfo, Undecided, attr_stores, calls_in, dotted, kwarg, own_nodes, src, walk_guarded
from ..flow import CFG, reads_of
from ..hydro import n
from ..nf import Ctx, P, eqx, has, ids_in, match, nf, parse_pattern, same

LEVEL = "other"
EOM = "equationOfMotion:EOM"
# result setter -> (its parameter, position of that datum in the tuple returned by wallPressure)
SETTERS = {"setWallParams": ("wallParams", 1), "setBoltzmannResults": ("boltzmannResults", 2), "setBoltzmannBackground": ("boltzmannBackground", 3),
           "setHydroResults": ("hydroResults", 4)}
# parameters of EOM.solveWall carrying a cached evaluation -> the velocity (parameter) that evaluation belongs to
CACHED_AT = {"wallPressureResultsMax": "wallVelocityMax", "wallPressureResultsMin": "wallVelocityMin"}


# ------------------------------------------------------------------------------------------------ spelling-independent helpers


# ------------------------------------------------------------------------------------------------ structural normalisation
# A maintainer may merge copy-pasted blocks into one `for` over a literal tuple of cases, or move a block of statements into a small
# procedure.  Neither changes the sequence of calls that is executed.  `normalised` writes such code out again -- one copy of the loop
# body per case with the loop variables substituted; the body of the procedure in place of the call statement with the arguments
# substituted -- so that the CFG / pattern based rules see the same statements whichever way the code is folded.


def _chain(defs: dict, e):
    for _ in range(8):
        if isinstance(e, ast.Name) and e.id in defs:
            e = defs[e.id]
        else:
            break
    return e


def _int_const(e):
    if isinstance(e, ast.Constant) and isinstance(e.value, int) and not isinstance(e.value, bool):
        return e.value
    if isinstance(e, ast.UnaryOp) and isinstance(e.op, ast.USub):
        v = _int_const(e.operand)
        return -v if v is not None else None
    return None


def _literal_cases(it, defs: dict):
    """the expressions a `for` statement iterates over when they are written out: a tuple / list display (possibly held in a
    single-assignment temporary), or zip(...) / enumerate(...) of such displays; None otherwise"""
    it = _chain(defs, it)
    if isinstance(it, (ast.Tuple, ast.List)):
        return None if any(isinstance(e, ast.Starred) for e in it.elts) else list(it.elts)
    if isinstance(it, ast.Call) and isinstance(it.func, ast.Name) and not any(isinstance(a, ast.Starred) for a in it.args):
        if it.func.id == "zip" and it.args and all(k.arg == "strict" for k in it.keywords):
            cols = [_literal_cases(a, defs) for a in it.args]
            if any(c is None for c in cols) or len({len(c) for c in cols}) != 1:
                return None
            return [ast.Tuple(elts=list(row), ctx=ast.Load()) for row in zip(*cols)]
        if it.func.id == "enumerate" and it.args and len(it.args) + len(it.keywords) <= 2 and all(k.arg == "start" for k in it.keywords):
            start = kwarg(it, "start", 1)
            first = 0 if start is None else _int_const(start)
            col = _literal_cases(it.args[0], defs)
            if col is None or first is None:
                return None
            return [ast.Tuple(elts=[ast.Constant(value=first + i), e], ctx=ast.Load()) for i, e in enumerate(col)]
    return None


def _bind_target(t, e, out: dict) -> bool:
    if isinstance(t, ast.Name):
        out[t.id] = e
        return True
    if isinstance(t, (ast.Tuple, ast.List)) and isinstance(e, (ast.Tuple, ast.List)) and len(t.elts) == len(e.elts) \
            and not any(isinstance(x, ast.Starred) for x in list(t.elts) + list(e.elts)):
        return all(_bind_target(a, b, out) for a, b in zip(t.elts, e.elts))
    return False


def _own_jumps(body) -> bool:
    """a break / continue that belongs to the loop whose body this is"""
    stack = list(body)
    while stack:
        x = stack.pop()
        if isinstance(x, (ast.Break, ast.Continue)):
            return True
        if isinstance(x, (ast.For, ast.AsyncFor, ast.While)):
            stack.extend(x.orelse)
        elif not isinstance(x, (ast.FunctionDef, ast.AsyncFunctionDef, ast.ClassDef, ast.Lambda, ast.expr)):
            stack.extend(ast.iter_child_nodes(x))
    return False


def _stored_names(nodes) -> set:
    out = set()
    for r in nodes:
        for x in ast.walk(r):
            if isinstance(x, ast.Name) and isinstance(x.ctx, (ast.Store, ast.Del)):
                out.add(x.id)
            elif isinstance(x, (ast.Global, ast.Nonlocal)):
                out |= set(x.names)
            elif isinstance(x, ast.ExceptHandler) and x.name:
                out.add(x.name)
            elif isinstance(x, (ast.FunctionDef, ast.AsyncFunctionDef, ast.ClassDef)):
                out.add(x.name)
    return out


class _Subst(ast.NodeTransformer):
    """replace reads of the bound names by (copies of) their expressions; a nested function / lambda with a parameter of that name shadows it"""

    def __init__(self, bind: dict):
        self.bind = bind

    def visit_Name(self, x):
        if isinstance(x.ctx, ast.Load) and x.id in self.bind:
            return ast.copy_location(copy.deepcopy(self.bind[x.id]), x)
        return x

    def _scoped(self, x):
        a = x.args
        shadow = {p.arg for p in a.posonlyargs + a.args + a.kwonlyargs} | ({a.vararg.arg} if a.vararg else set()) | ({a.kwarg.arg} if a.kwarg else set())
        inner = {k: v for k, v in self.bind.items() if k not in shadow}
        return _Subst(inner).generic_visit(x) if inner else x

    visit_Lambda = visit_FunctionDef = visit_AsyncFunctionDef = _scoped


def _pure_path(e) -> bool:
    """a constant, a local, or an attribute path of a local: substituting it for a name evaluates nothing twice"""
    return isinstance(e, (ast.Constant, ast.Name)) or (isinstance(e, ast.Attribute) and _pure_path(e.value))


# callees the rules of C01 / C10 anchor in by name: a call of one of them is never replaced by its body
ANCHOR_CALLS = frozenset({
    "wallPressure", "solveWall", "solveWallDetonation", "setupWallSolver", "findWallVelocityDeflagrationHybrid", "findWallVelocityDetonation", "buildGrid",
    "buildEOM", "tracePhase", "disableAdaptiveInterpolation", "setExtrapolate", "_initHydrodynamics", "initTemperatureRange", "findPlasmaProfile",
    "_intermediatePressureResults", "_getNextPressure", "setSuccessState", "setWallVelocities", "setExtrapolationType", "setBackground", *SETTERS})


class _Normaliser:
    MAX_CASES = 8

    def __init__(self, S, fi, keep=ANCHOR_CALLS):
        self.S, self.fi, self.keep = S, fi, keep
        self.defs = Ctx(S, fi).local_defs()
        self.taken = {x.id for x in ast.walk(fi.node) if isinstance(x, ast.Name)} | {a.arg for a in ast.walk(fi.node) if isinstance(a, ast.arg)}
        self.changed = False
        self.k = 0

    def fresh(self, base: str) -> str:
        while True:
            self.k += 1
            nm = f"{base}__{self.k}"
            if nm not in self.taken:
                self.taken.add(nm)
                return nm

    def place(self, bind: dict, pre: list, like, direct=None) -> dict:
        """substitutable binding: a value that is not `direct` (default: a pure path or a display of pure paths) is first stored in a
        fresh single-assignment local, so that substituting it evaluates nothing twice"""
        if direct is None:
            direct = lambda e: _pure_path(e) or (isinstance(e, (ast.Tuple, ast.List)) and all(_pure_path(x) for x in e.elts))
        out = {}
        for nm, e in bind.items():
            if direct(e):
                out[nm] = e
            else:
                tmp = self.fresh(nm)
                st = ast.Assign(targets=[ast.Name(id=tmp, ctx=ast.Store())], value=copy.deepcopy(e))
                pre.append(ast.fix_missing_locations(ast.copy_location(st, like)))
                out[nm] = ast.Name(id=tmp, ctx=ast.Load())
        return out

    # -- for over literal cases
    def unroll(self, st):
        if not isinstance(st, ast.For) or _own_jumps(st.body):
            return None
        cases = _literal_cases(st.iter, self.defs)
        if cases is None or len(cases) > self.MAX_CASES:
            return None
        targets = {x.id for x in ast.walk(st.target) if isinstance(x, ast.Name)}
        if targets & _stored_names(st.body) or any(not isinstance(x, (ast.Name, ast.Tuple, ast.List, ast.Store)) for x in ast.walk(st.target)):
            return None
        # the cases are evaluated once, before the first iteration: a body that re-binds a local they read is not written out
        if {x.id for e in cases for x in ast.walk(_chain(self.defs, e)) if isinstance(x, ast.Name)} & _stored_names(st.body):
            return None
        stores_attr = any(isinstance(x, (ast.Attribute, ast.Subscript)) and isinstance(x.ctx, (ast.Store, ast.Del)) for b in st.body for x in ast.walk(b))
        simple = lambda v: isinstance(v, (ast.Constant, ast.Name)) or (_pure_path(v) and not stores_attr)
        out: list = []
        for e in cases:
            bind: dict = {}
            if not _bind_target(st.target, _chain(self.defs, e) if not isinstance(st.target, ast.Name) else e, bind):
                return None
            bind = self.place(bind, out, st, direct=lambda v: simple(v) or (isinstance(v, (ast.Tuple, ast.List)) and all(simple(x) for x in v.elts)))
            out += [_Subst(bind).visit(copy.deepcopy(b)) for b in st.body]
        out += [copy.deepcopy(b) for b in st.orelse]
        return out or [ast.copy_location(ast.Pass(), st)]

    # -- calls of small functions of the same class / module that contain an anchored call
    def callee(self, call: ast.Call):
        """(FuncInfo, body without docstring, {parameter: argument}) of a same-class method / nested / module-level function called here whose body
        mentions something the rules anchor in; None when the call cannot be bound to it"""
        fi, f = self.fi, call.func
        funcs = self.S.modules[fi.module].funcs
        if isinstance(f, ast.Attribute) and isinstance(f.value, ast.Name) and f.value.id in ("self", fi.cls) and fi.cls:
            h, method = funcs.get(f"{fi.cls}.{f.attr}"), True
            if h is not None and f.value.id != "self" and "staticmethod" not in {ast.unparse(d) for d in h.node.decorator_list}:
                return None
        elif isinstance(f, ast.Name):
            h, method = next((funcs[q] for q in (f"{fi.qual}.{f.id}", f"{fi.parent.qual}.{f.id}" if fi.parent else None, f.id) if q and q in funcs), None), False
        else:
            return None
        if h is None or h.name == fi.name or h.qual.split(".")[-1] in self.keep or isinstance(h.node, ast.AsyncFunctionDef):
            return None
        a = h.node.args
        deco = {ast.unparse(d) for d in h.node.decorator_list}
        if a.vararg or a.kwarg or a.kwonlyargs or a.posonlyargs or deco - {"staticmethod"} or (method and h.cls != fi.cls):
            return None
        params = [p.arg for p in a.args]
        if method and "staticmethod" not in deco:
            if not params:
                return None
            params = params[1:]
        elif h.cls and not method:
            return None
        body = [st for st in h.node.body if not (isinstance(st, ast.Expr) and isinstance(st.value, ast.Constant) and isinstance(st.value.value, str))]
        if not body or len(body) > 12 or not self.mentions_anchor(h, 0):
            return None     # (nothing the rules look for can have moved into a function that mentions no anchor: its call is left as it is)
        if any(isinstance(x, ast.Starred) for x in call.args) or any(k.arg is None for k in call.keywords) or len(call.args) > len(params):
            return None
        bind = dict(zip(params, call.args))
        for k in call.keywords:
            if k.arg not in params or k.arg in bind:
                return None
            bind[k.arg] = k.value
        for p, d in zip(params[len(params) - len(a.defaults):], a.defaults):
            bind.setdefault(p, d)
        if set(params) - set(bind):
            return None
        return h, body, bind

    def procedure(self, call: ast.Call):
        """a call statement of a procedure: its body is a sequence of statements without return value that re-binds no parameter"""
        got = self.callee(call)
        if got is None:
            return None
        h, body, bind = got
        if isinstance(body[-1], ast.Return) and (body[-1].value is None or (isinstance(body[-1].value, ast.Constant) and body[-1].value.value is None)):
            body = body[:-1]
        if not body:
            return None
        for st in body:
            for x in ast.walk(st):
                if isinstance(x, (ast.Return, ast.Yield, ast.YieldFrom, ast.Await, ast.FunctionDef, ast.AsyncFunctionDef, ast.ClassDef, ast.Lambda, ast.Global,
                                  ast.Nonlocal, ast.NamedExpr)) or (isinstance(x, ast.ExceptHandler) and x.name):
                    return None
        local = _stored_names(body)
        if local & set(bind):
            return None
        return body, bind, local

    @staticmethod
    def value_of(body):
        """the value returned by a body made of if / else statements and returns only, as one (conditional) expression; None for any other body"""
        if not body:
            return None
        st = body[0]
        if isinstance(st, ast.Return) and st.value is not None:
            return st.value
        if isinstance(st, ast.If):
            a, b = _Normaliser.value_of(st.body + body[1:]), _Normaliser.value_of(st.orelse + body[1:])
            if a is not None and b is not None and not any(isinstance(x, ast.NamedExpr) for x in ast.walk(st.test)):
                return ast.copy_location(ast.IfExp(test=st.test, body=a, orelse=b), st)
        return None

    def inline_value(self, st):
        """`x = self.helper(args)` / `return self.helper(args)` where the helper only chooses between values by if / else: the call is replaced by
        the conditional expression it evaluates"""
        if not (isinstance(st, (ast.Assign, ast.AnnAssign, ast.Return)) and isinstance(st.value, ast.Call)):
            return None
        got = self.callee(st.value)
        if got is None:
            return None
        h, body, bind = got
        v = self.value_of(body)
        if v is None or any(isinstance(x, (ast.Lambda, ast.Yield, ast.YieldFrom, ast.Await, ast.ListComp, ast.SetComp, ast.DictComp, ast.GeneratorExp)) for x in ast.walk(v)):
            return None
        out: list = []
        bind = self.place(bind, out, st, direct=lambda e: isinstance(e, (ast.Constant, ast.Name)))
        v = _Subst(bind).visit(copy.deepcopy(v))
        for x in ast.walk(v):
            if hasattr(x, "lineno"):
                ast.copy_location(x, st.value)
        new = copy.copy(st)
        new.value = v
        return out + [new]

    def mentions_anchor(self, h, depth: int) -> bool:
        """the body of h calls something the rules anchor in, directly or through another function of its module"""
        funcs = self.S.modules[h.module].funcs
        for x in own_nodes(h.node):
            if isinstance(x, ast.Call):
                short = x.func.attr if isinstance(x.func, ast.Attribute) else x.func.id if isinstance(x.func, ast.Name) else None
                if short in self.keep:
                    return True
                sub = funcs.get(f"{h.cls}.{short}" if isinstance(x.func, ast.Attribute) and h.cls else short) if short else None
                if sub is not None and sub.name != h.name and depth < 2 and self.mentions_anchor(sub, depth + 1):
                    return True
        return False

    def inline(self, st):
        if not (isinstance(st, ast.Expr) and isinstance(st.value, ast.Call)):
            return None
        got = self.procedure(st.value)
        if got is None:
            return None
        body, bind, local = got
        out: list = []
        # an argument that is an attribute path stays a path only when the procedure stores no attribute (it could change what the path denotes)
        stores_attr = any(isinstance(x, (ast.Attribute, ast.Subscript)) and isinstance(x.ctx, (ast.Store, ast.Del)) for b in body for x in ast.walk(b))
        bind = self.place(bind, out, st, direct=lambda v: isinstance(v, (ast.Constant, ast.Name)) or (_pure_path(v) and not stores_attr))
        ren = {nm: ast.Name(id=self.fresh(nm), ctx=ast.Load()) for nm in sorted(local)}
        for b in body:
            b = copy.deepcopy(b)
            for x in ast.walk(b):
                if isinstance(x, ast.Name) and x.id in ren:
                    x.id = ren[x.id].id
            b = _Subst(bind).visit(b)
            for x in ast.walk(b):
                if hasattr(x, "lineno"):
                    ast.copy_location(x, st)
            out.append(b)
        return out

    # -- traversal
    def block(self, stmts: list) -> list:
        out = []
        for st in stmts:
            new = self.unroll(st) or self.inline(st) or self.inline_value(st)
            if new is not None:
                self.changed = True
                out += new
                continue
            if not isinstance(st, (ast.FunctionDef, ast.AsyncFunctionDef, ast.ClassDef)):
                for field in ("body", "orelse", "finalbody"):
                    sub = getattr(st, field, None)
                    if isinstance(sub, list) and sub and isinstance(sub[0], ast.stmt):
                        setattr(st, field, self.block(sub))
                for h in getattr(st, "handlers", []) or []:
                    h.body = self.block(h.body)
            out.append(st)
        return out


_NORMALISED: dict = {}


def normalised(S, fi) -> FuncInfo:
    """fi with its loops over literal cases unrolled and its calls of simple procedures inlined (fi itself when there are none)"""
    key = (id(S), id(fi.node))
    if key in _NORMALISED:
        return _NORMALISED[key][1]
    cur = fi
    for _ in range(4):
        nz = _Normaliser(S, cur)
        node = copy.deepcopy(cur.node)
        node.body = nz.block(node.body)
        if not nz.changed:
            break
        ast.fix_missing_locations(node)
        cur = FuncInfo(fi.module, fi.qual, node, fi.cls, fi.parent)
    _NORMALISED[key] = (fi.node, cur)
    return cur


def _assigns(fnode) -> list:
    return [x for x in own_nodes(fnode) if isinstance(x, (ast.Assign, ast.AnnAssign)) and x.value is not None]


def _target(st):
    return st.targets[0] if isinstance(st, ast.Assign) else st.target


def _result_name(fi) -> str:
    """the local that holds the WallGoResults object under construction"""
    names = []
    for st in _assigns(fi.node):
        b = match(st, "__R = WallGoResults()")
        if b is not None and b["R"] not in names:
            names.append(b["R"])
    if len(names) != 1:
        raise AnchorMissing(f"{fi.qual}: the local holding the WallGoResults() under construction not found")
    return names[0]


def _method_stmts(g: CFG, obj: str, methods) -> list:
    """expression statements `obj.<method>(...)`"""
    return [x for x in g.nodes if isinstance(x, ast.Expr) and isinstance(x.value, ast.Call) and isinstance(x.value.func, ast.Attribute)
            and isinstance(x.value.func.value, ast.Name) and x.value.func.value.id == obj and x.value.func.attr in methods]


def _is_none(e) -> bool:
    return isinstance(e, ast.Constant) and e.value is None


def _positive(test, pol: bool, cx: Ctx | None = None):
    """(expression, polarity) with temporaries inlined and leading `not`s folded into the polarity"""
    e = cx.resolve(test) if cx is not None else test
    while isinstance(e, ast.UnaryOp) and isinstance(e.op, ast.Not):
        e, pol = e.operand, not pol
    return e, pol


def _dominating_tests(g: CFG, node) -> list:
    """(test, polarity) of every if / while test that every path to `node` passes and that lets `node` be reached from one branch only"""
    out = []
    for t in g.nodes:
        if g.kind.get(t) != "test" or t is node:
            continue
        if not g.must_pass(CFG.ENTRY, node, lambda q, t=t: q is t):
            continue
        tb = g.reaches(g.branch(t, True), node, avoid=lambda q, t=t: q is t)
        fb = g.reaches(g.branch(t, False), node, avoid=lambda q, t=t: q is t)
        if tb != fb:
            out.append((t, tb))
    return out


def _relations(e, cx: Ctx | None = None) -> set:
    """the binary relations asserted by a conjunction of (chained) comparisons, as normal forms: `a < b < c` == `a < b and c > b`"""
    out: set = set()
    if isinstance(e, ast.BoolOp) and isinstance(e.op, ast.And):
        for v in e.values:
            out |= _relations(v, cx)
    elif isinstance(e, ast.Compare):
        left = e.left
        for op, right in zip(e.ops, e.comparators):
            out.add(nf(ast.Compare(left=left, ops=[op], comparators=[right]), cx))
            left = right
    else:
        out.add(nf(e, cx))
    return out


def _holds_under(g: CFG, node, relations, cx: Ctx) -> bool:
    """`node` is reached only through the branch of a test on which all `relations` (pattern texts) hold.  The test is read as written and
    with its temporaries looked through; in the latter case the temporaries named in the patterns are looked through in the same way"""
    pats = [parse_pattern(r) for r in relations]
    want = {nf(p, cx) for p in pats}

    def at_line(p, t):
        p = copy.deepcopy(p)
        for x in ast.walk(p):
            if isinstance(x, (ast.expr, ast.stmt)):
                x.lineno = getattr(t, "lineno", None)
        return p

    for t, pol in _dominating_tests(g, node):
        for resolver in (None, cx):
            e, p2 = _positive(t, pol, resolver)
            if not p2:
                continue
            got = _relations(e, cx)
            if want <= got or (resolver is not None and {nf(cx.resolve(at_line(p, t)), cx) for p in pats} <= got):
                return True
    return False


def _definition(cx: Ctx, e):
    """the expression a chain of single-assignment temporaries stands for (node identity is kept)"""
    defs = cx.local_defs()
    for _ in range(8):
        if isinstance(e, ast.Name) and e.id in defs:
            e = defs[e.id]
        else:
            break
    return e


def _is_value_of(cx: Ctx, e, node) -> bool:
    """expression e is (a temporary holding) exactly the value computed by `node`"""
    return e is not None and _definition(cx, e) is node


def _through(g: CFG, at, e, depth: int = 0):
    """copy of expression e (evaluated at CFG node `at`) with every local replaced by its defining expression when exactly one plain
    assignment reaches `at` and the names in that expression still have the same reaching definitions at `at` (so the replacement
    denotes the same value).  Unlike Ctx.resolve this also looks through temporaries assigned inside loops."""
    import copy

    class R(ast.NodeTransformer):
        def visit_Name(self, x):
            if not isinstance(x.ctx, ast.Load) or depth >= 4:
                return x
            rd = g.reaching_defs(at, x.id)
            if len(rd) != 1 or rd[0] is CFG.ENTRY or not isinstance(rd[0], (ast.Assign, ast.AnnAssign)) or rd[0].value is None:
                return x
            d = rd[0]
            tg = d.targets if isinstance(d, ast.Assign) else [d.target]
            if len(tg) != 1 or not isinstance(tg[0], ast.Name) or d is at:
                return x
            inner = {y.id for y in ast.walk(d.value) if isinstance(y, ast.Name)}
            if any(set(map(id, g.reaching_defs(d, nm))) != set(map(id, g.reaching_defs(at, nm))) for nm in inner if nm != x.id):
                return x
            if x.id in inner:
                return x
            return _through(g, d, d.value, depth + 1)

        def visit_Lambda(self, x):
            return x

    return R().visit(copy.deepcopy(e))


def _wallpressure_call(v) -> bool:
    return isinstance(v, ast.Call) and eqx(v.func, "self.wallPressure")


def _tuple_sources(g: CFG, at, v, depth: int = 0) -> list:
    """where a 5-tuple of pressure results comes from: ('call', wallPressure call) | ('param', name) | ('other', text); looks through
    plain copies / temporaries by reaching definitions; a conditional expression has the sources of both arms"""
    if _wallpressure_call(v):
        return [("call", v)]
    if isinstance(v, ast.IfExp) and depth < 4:
        return _tuple_sources(g, at, v.body, depth + 1) + _tuple_sources(g, at, v.orelse, depth + 1)
    if isinstance(v, ast.Name) and depth < 4:
        out = []
        for d in g.reaching_defs(at, v.id):
            if d is CFG.ENTRY:
                out.append(("param", v.id))
            elif isinstance(d, (ast.Assign, ast.AnnAssign)) and isinstance(_target(d), ast.Name) and d.value is not None:
                out += _tuple_sources(g, d, d.value, depth + 1)
            else:
                out.append(("other", n(d)[:60]))
        return out
    return [("other", n(v)[:60])]


def _value_sources(g: CFG, at, v, depth: int = 0) -> list:
    """the expressions whose value `v` (evaluated at CFG node `at`) may hold, looking through plain copies `a = b` by reaching definitions
    and through both arms of a conditional expression; None stands for a value that is not assigned in this function (a parameter)"""
    if isinstance(v, ast.IfExp) and depth < 4:
        return _value_sources(g, at, v.body, depth + 1) + _value_sources(g, at, v.orelse, depth + 1)
    if isinstance(v, ast.Name) and depth < 4:
        out = []
        for d in g.reaching_defs(at, v.id):
            if d is not CFG.ENTRY and isinstance(d, (ast.Assign, ast.AnnAssign)) and isinstance(_target(d), ast.Name) and d.value is not None \
                    and (isinstance(d, ast.AnnAssign) or len(d.targets) == 1):
                out += _value_sources(g, d, d.value, depth + 1)
            else:
                out.append(None)
        return out
    return [v]


def _projection(d, length: int | None = None):
    """(tuple-valued expression T, {position: local}) when statement d stores elements of T in locals: the unpacking `a, b, c = T` or the
    indexing `x = T[i]` with an integer literal i (a negative i needs the known `length` of T); None for any other statement"""
    def index(v):
        i = _int_const(v.slice) if isinstance(v, ast.Subscript) else None
        if i is not None and i < 0 and length is not None:
            i += length
        return None if i is None or i < 0 or (length is not None and i >= length) else i

    if isinstance(d, ast.Assign) and len(d.targets) == 1 and isinstance(d.targets[0], (ast.Tuple, ast.List)):
        elts = d.targets[0].elts
        if any(isinstance(e, ast.Starred) for e in elts):
            return None
        if isinstance(d.value, (ast.Tuple, ast.List)) and len(d.value.elts) == len(elts) and elts and all(isinstance(e, ast.Name) for e in elts) \
                and all(index(v) is not None and same(v.value, d.value.elts[0].value) for v in d.value.elts) \
                and not {e.id for e in elts} & ids_in(d.value.elts[0].value):
            # the parallel assignment `a, b = T[i], T[j]`
            return d.value.elts[0].value, {index(v): e.id for e, v in zip(elts, d.value.elts)}
        if length is not None and len(elts) != length:
            return None
        return d.value, {i: e.id for i, e in enumerate(elts) if isinstance(e, ast.Name)}
    if isinstance(d, (ast.Assign, ast.AnnAssign)) and d.value is not None and (isinstance(d, ast.AnnAssign) or len(d.targets) == 1) \
            and isinstance(_target(d), ast.Name) and isinstance(d.value, ast.Subscript):
        return (d.value.value, {index(d.value): _target(d).id}) if index(d.value) is not None else None
    return None


def _position(names: dict, nm: str):
    """the position of local nm in a projection when it occurs exactly once"""
    pos = [i for i, x in names.items() if x == nm]
    return pos[0] if len(pos) == 1 else None


def _velocity_of(source, cx: Ctx) -> str:
    """normal form of the velocity a pressure evaluation was made at"""
    kind, x = source
    if kind == "call":
        v = kwarg(x, "wallVelocity", 0)
        return nf(_definition(cx, v), cx) if v is not None else "?"
    if kind == "param":
        return CACHED_AT.get(x, f"?{x}")
    return f"?{x}"


def _origins(g: CFG, at, name: str, depth: int = 0) -> list:
    """(definition, defined name) pairs of `name` reaching `at`, looking through plain copies `a = b`"""
    out = []
    for d in g.reaching_defs(at, name):
        if d is not CFG.ENTRY and isinstance(d, (ast.Assign, ast.AnnAssign)) and isinstance(_target(d), ast.Name) and isinstance(d.value, ast.Name) and depth < 4:
            out += _origins(g, d, d.value.id, depth + 1)
        else:
            out.append((d, name))
    return out


class _SolveWall:
    """roles of the locals of EOM.solveWall"""

    def __init__(self, chk: Check):
        S = chk.src
        self.fs = fs = normalised(S, S.func(f"{EOM}.solveWall"))
        chk.touch(fs.name)
        self.g = g = CFG(fs.node)
        self.cx = cx = Ctx(S, fs)
        self.R = _result_name(fs)
        # all tuple sources: elements of a wallPressure call or of a passed-in tuple stored in locals (by unpacking or by indexing)
        self.unpacks = {}       # statement -> {tuple position: local}
        self.sources = {}
        for x in g.nodes:
            pr = _projection(x, 5)
            if pr is None:
                continue
            ss = _tuple_sources(g, x, pr[0])
            if not isinstance(_target(x), ast.Name) or any(k != "other" for k, _ in ss):
                self.unpacks[x] = pr[1]
                self.sources[x] = ss
        self.vel = {d: {_velocity_of(s_, cx) for s_ in ss} for d, ss in self.sources.items()}
        self.labels = _method_stmts(g, self.R, {"setSuccessState"})
        self.setters = _method_stmts(g, self.R, set(SETTERS))
        self.velset = _method_stmts(g, self.R, {"setWallVelocities"})
        if len(self.setters) < 12 or len(self.velset) < 3:
            raise AnchorMissing("solveWall: result setters not found")

    def exit_setters(self, vs) -> list:
        """the result setters of the same exit as the setWallVelocities statement vs: a path joins the two statements (in either order)
        without passing another setWallVelocities"""
        g = self.g
        other = lambda q: q in self.velset and q is not vs
        return [s_ for s_ in self.setters if s_ in g.reachable(vs, avoid=other) or vs in g.reachable(s_, avoid=other)]

    def end_pressure(self, which: str) -> set:
        """names of the local holding the pressure at one end of the window: element 0 of the unpacked cached evaluation of that end"""
        out = set()
        for d, ss in self.sources.items():
            if any(s_ == ("param", which) for s_ in ss) and 0 in self.unpacks[d]:
                out.add(self.unpacks[d][0])
        return out


def _wallpressure_return_order(chk: Check) -> None:
    """wallPressure returns (pressure, wallParams, boltzmannResults, boltzmannBackground, hydroResults): element i of the returned tuple
    is element i of what the iteration routines return (or the mean of the last pressures), the last one is the HydroResults built here"""
    fw = chk.src.func(f"{EOM}.wallPressure")
    g = CFG(fw.node)
    cx = Ctx(chk.src, fw)
    rets = [r for r in g.nodes if isinstance(r, ast.Return)]
    vals = [cx.resolve(r.value, keep=set(cx.local_defs())) if r.value is not None else None for r in rets]
    # a returned temporary holding the tuple is looked through
    vals = [cx.local_defs().get(v.id, v) if isinstance(v, ast.Name) else v for v in vals]
    if len(rets) != 1 or not isinstance(vals[0], ast.Tuple):
        raise AnchorMissing("wallPressure: single tuple return not found")
    ret, elts = rets[0], vals[0].elts
    detail = []
    ok = len(elts) == 5 and all(isinstance(e, ast.Name) for e in elts)
    if ok:
        for i, e in enumerate(elts):
            for d, nm in _origins(g, ret, e.id):
                good = False
                if d is not CFG.ENTRY and isinstance(d, (ast.Assign, ast.AnnAssign)) and d.value is not None:
                    v, t = d.value, _target(d)
                    pr = _projection(d)
                    if i < 4 and pr is not None:
                        # element i of what an iteration routine returned (stored by unpacking or by indexing the returned tuple)
                        srcs = _value_sources(g, d, pr[0])
                        good = _position(pr[1], nm) == i and bool(srcs) and all(
                            isinstance(s_, ast.Call) and (eqx(s_.func, "self._intermediatePressureResults") or eqx(s_.func, "self._getNextPressure")) for s_ in srcs)
                    elif i == 0 and isinstance(t, ast.Name) and match(_through(g, d, v), "np.mean(__P[-4:])", cx) is not None:
                        good = True
                    elif i == 4 and isinstance(t, ast.Name) and isinstance(cx.resolve(v), ast.Call) and eqx(cx.resolve(v).func, "HydroResults"):
                        good = True
                if not good:
                    ok = False
                    detail.append(f"element {i} <- {n(d)[:70] if d is not CFG.ENTRY else 'argument'}")
    chk.ob("R01.1", fw.where(ret), "wallPressure returns (pressure, wallParams, boltzmannResults, boltzmannBackground, hydroResults)",
           ok, "; ".join(detail)[:300], key="return-order")


def r01_1(chk: Check):
    S = chk.src
    _wallpressure_return_order(chk)
    sw = _SolveWall(chk)
    fs, g, cx, R = sw.fs, sw.g, sw.cx, sw.R
    reported = None
    for vs in sw.velset:
        c = vs.value
        v = kwarg(c, "wallVelocity", 0)
        vr = _definition(cx, v) if v is not None else None
        # the setters of the same exit: connected to this setWallVelocities with no other setWallVelocities in between
        mine = sw.exit_setters(vs)
        sources = set()
        detail = []
        ok = True
        for s_ in mine:
            par, pos = SETTERS[s_.value.func.attr]
            a = kwarg(s_.value, par, 0)
            org = _origins(g, s_, a.id) if isinstance(a, ast.Name) else []
            if not org or any(d not in sw.unpacks for d, nm in org):
                ok = False
                detail.append(f"{s_.value.func.attr}({n(a)}): not from a wallPressure tuple")
                continue
            for d, nm in org:
                if _position(sw.unpacks[d], nm) != pos:
                    ok = False
                    detail.append(f"{s_.value.func.attr}({n(a)}) takes tuple position {_position(sw.unpacks[d], nm)}, expected {pos}")
                sources |= sw.vel[d]
        finite = not _is_none(vr)
        kind = "finite velocity" if finite else "no velocity"
        # all setters of one exit draw on evaluations at one velocity
        ok = ok and len(sources) == 1 and len(mine) == 4 and not any(s_.startswith("?") for s_ in sources)
        if finite:
            reported = v
            ok = ok and sources == {nf(vr, cx)}
            role = "reported velocity"
        else:
            role = {"wallVelocityMax": "upper end", "wallVelocityMin": "lower end"}.get(next(iter(sources)), "other") if len(sources) == 1 else "mixed"
        chk.ob("R01.1", fs.where(vs), f"exit with {kind}: wall parameters, Boltzmann results, background and hydro results stored with it are tuple "
               f"positions 1-4 of pressure evaluation(s) at one velocity" + (" -- the reported one" if finite else ""),
               ok, "; ".join(detail) + f" evaluated at {sorted(sources)}", key=f"provenance|{kind}|{role}")
    # the reported velocity is the brentq root of the wrapper
    rs = [c for c in calls_in(fs.node, "root_scalar")]
    W = None
    ok = False
    if len(rs) == 1:
        f0 = kwarg(rs[0], "f", 0)
        f0 = cx.resolve(f0) if f0 is not None else None
        if isinstance(f0, ast.Name) and S.has_func(f"{EOM}.solveWall.{f0.id}"):
            W = f0.id
        br, xt, me = kwarg(rs[0], "bracket", 3), kwarg(rs[0], "xtol", 8), kwarg(rs[0], "method", 2)
        ok = W is not None and (eqx(br, "[wallVelocityMin, wallVelocityMax]", cx) or eqx(br, "(wallVelocityMin, wallVelocityMax)", cx)) \
            and eqx(xt, "self.errTol", cx) and eqx(me, "'brentq'", cx)
    chk.ob("R01.1", fs.where(), "the velocity is root_scalar(pressureWrapper, brentq, bracket=[vMin, vMax], xtol=self.errTol).root", ok, key="root")
    ok = False
    if reported is not None and len(rs) == 1:
        # the reported velocity stands for the `.root` of that search only when every local on the way is assigned exactly once
        val = _definition(cx, reported)
        ok = isinstance(val, ast.Attribute) and val.attr == "root" and _is_value_of(cx, val.value, rs[0])
    chk.ob("R01.1", fs.where(), "wallVelocity is that root and is not modified afterwards", ok, key="root-unmodified")
    if W is None:
        raise AnchorMissing("solveWall: the nested pressure wrapper handed to root_scalar not found")
    fw = S.func(f"{EOM}.solveWall.{W}")
    gw = CFG(fw.node)
    cw = Ctx(S, fw)
    prm = [a_.arg for a_ in fw.node.args.args]
    VW = prm[0] if prm else "?"
    PMIN, PMAX = sw.end_pressure("wallPressureResultsMin"), sw.end_pressure("wallPressureResultsMax")
    rets = [r for r in gw.nodes if isinstance(r, ast.Return)]
    kinds = {}

    def evaluated_pressure(r, v) -> bool:
        """v is element 0 of wallPressure(vw, ...): the call indexed in place, or a local that element was stored in"""
        if isinstance(v, ast.Subscript) and _int_const(v.slice) in (0, -5):
            tup, at = v.value, r
        elif isinstance(v, ast.Name):
            rd = gw.reaching_defs(r, v.id)
            pr = _projection(rd[0], 5) if len(rd) == 1 and rd[0] is not CFG.ENTRY else None
            if pr is None or _position(pr[1], v.id) != 0:
                return False
            tup, at = pr[0], rd[0]
        else:
            return False
        ss = _tuple_sources(gw, at, tup)
        return bool(ss) and all(k == "call" and eqx(kwarg(c, "wallVelocity", 0), VW, cw) for k, c in ss)

    for r in rets:
        v = cw.resolve(r.value) if r.value is not None else None
        if isinstance(v, ast.Name) and v.id in PMIN:
            kinds.setdefault("min", []).append(r)
        elif isinstance(v, ast.Name) and v.id in PMAX:
            kinds.setdefault("max", []).append(r)
        elif evaluated_pressure(r, v):
            kinds.setdefault("eval", []).append(r)
        else:
            kinds.setdefault("other", []).append(r)
    ok = len(PMIN) == 1 and len(PMAX) == 1 and set(kinds) == {"min", "max", "eval"}
    chk.ob("R01.1", fw.where(), "pressureWrapper returns element 0 (the pressure) of wallPressure(vw, ...) or the cached end-point pressures", ok,
           str({k: len(v) for k, v in kinds.items()}), key="wrapper")
    ends = {}
    for which, mine_, other in (("min", "wallVelocityMin", "wallVelocityMax"), ("max", "wallVelocityMax", "wallVelocityMin")):
        good = bool(kinds.get(which))
        for r in kinds.get(which, []):
            hit = False
            for t, pol in _dominating_tests(gw, r):
                e, pol = _positive(t, pol, cw)
                if pol and mine_ in ids_in(e) and other not in ids_in(e):
                    hit = True
            good = good and hit
        ends[which] = good
    chk.ob("R01.1", fw.where(), "the cached pressure of each end is returned only at (or beyond) that end", ends["min"] and ends["max"], str(ends), key="wrapper-ends")
    # bracket endpoints: pressureMin/Max are evaluations at wallVelocityMin/Max
    ok = True
    for names, vel in ((PMAX, "wallVelocityMax"), (PMIN, "wallVelocityMin")):
        for d, lst in sw.unpacks.items():
            if lst.get(0) in names:
                for s_ in sw.sources[d]:
                    if s_[0] == "call" and _velocity_of(s_, cx) != vel:
                        ok = False
                    if s_[0] == "other":
                        ok = False
    chk.ob("R01.1", fs.where(), "the end-point pressures are evaluated at the end-point velocities", ok, key="endpoints")
    chk.floor("R01.1", 8)


def _deton_bracket(S, fd, g: CFG, cx: Ctx, c: ast.Call):
    """(ok, detail, name of the pressure at the upper bracket end) for the solveWall call of the detonation search"""
    at = g.node_of(c)
    names = ("wallVelocityMin", "wallVelocityMax", "wallParamsGuess", "wallPressureResultsMin", "wallPressureResultsMax")
    args = [kwarg(c, nm, i) for i, nm in enumerate(names)]
    if at is None or not all(isinstance(a, ast.Name) for a in args):
        return False, "arguments are not plain locals", None
    lo, hi, guess, rlo, rhi = (a.id for a in args)
    loops = [w for w in own_nodes(fd.node) if isinstance(w, ast.While) and any(y is c for y in ast.walk(w))]
    if len(loops) != 1:
        return False, "scan loop not found", None
    b = match(loops[0].test, "__LO < vmax", cx)
    if b is None and any(eqx(loops[0].test, x) for x in ("True", "1")) and _holds_under(g, at, (f"{lo} < vmax",), cx):
        b = {"LO": lo}          # `while True:` with the scan condition tested (and left by `break`) inside the loop
    if b is None or b["LO"] != lo:
        return False, f"lower end `{lo}` is not the scan position of the loop `{n(loops[0].test)}`", None
    defs_hi = [x for x in g.nodes if isinstance(x, ast.Assign) and isinstance(x.targets[0], ast.Name) and x.targets[0].id == hi]
    if not any(isinstance(y, ast.Call) and (dotted(y.func) or "").endswith("nextStepDeton") for x in defs_hi for y in ast.walk(cx.resolve(x.value))):
        return False, f"upper end `{hi}` is not the next probed position (nextStepDeton)", None
    # upper cached evaluation: the wallPressure evaluation at the upper end
    rd = g.reaching_defs(at, rhi)
    if len(rd) != 1 or rd[0] is CFG.ENTRY or not isinstance(rd[0], ast.Assign) or not _wallpressure_call(rd[0].value) or not eqx(kwarg(rd[0].value, "wallVelocity", 0), hi):
        return False, f"`{rhi}` is not the evaluation at `{hi}`", None
    ev_hi = rd[0]
    # lower cached evaluation: a deep copy of the previous upper evaluation, which was made at what is now the lower end
    rd = g.reaching_defs(at, rlo)
    if len(rd) != 1 or rd[0] is CFG.ENTRY or not isinstance(rd[0], ast.Assign) or not isinstance(rd[0].value, ast.Call) \
            or not (dotted(rd[0].value.func) or "").endswith("deepcopy") or not rd[0].value.args or not eqx(rd[0].value.args[0], rhi):
        return False, f"`{rlo}` is not a copy of the previous `{rhi}`", None
    cp = rd[0]
    if not g.must_pass(cp, at, lambda q: q is ev_hi) or ev_hi in g.reachable(ev_hi, avoid=lambda q: q is cp):
        return False, f"`{rhi}` is not re-evaluated exactly once between the copy and the refinement", None
    for e in g.reaching_defs(cp, rhi):
        if e is CFG.ENTRY or not isinstance(e, ast.Assign) or not _wallpressure_call(e.value):
            return False, f"`{rhi}` copied into `{rlo}` is not a pressure evaluation", None
        ve = kwarg(e.value, "wallVelocity", 0)
        if eqx(ve, lo):
            continue
        if eqx(ve, hi) and g.must_pass(e, cp, lambda q: _copies(q, lo, hi)):
            continue
        return False, f"`{rlo}` may hold an evaluation at another velocity than `{lo}`", None
    # wall-parameter guess: element 1 of the upper evaluation (stored by unpacking or by indexing that evaluation)
    def element_of_upper(d):
        """{position: local} when statement d stores elements of the evaluation at the upper end"""
        pr = _projection(d, 5) if d is not CFG.ENTRY else None
        if pr is None or not eqx(pr[0], rhi) or g.reaching_defs(d, rhi) != [ev_hi]:
            return None
        return pr[1]

    rd = g.reaching_defs(at, guess)
    if len(rd) != 1 or element_of_upper(rd[0]) is None:
        return False, f"`{guess}` is not taken from the evaluation at `{hi}`", None
    if _position(element_of_upper(rd[0]), guess) != 1:
        return False, f"`{guess}` is not element 1 (wall parameters) of that evaluation", None
    # the pressure at the upper end: the local(s) holding element 0 of that evaluation when the refinement is reached
    upper = []
    for d in g.nodes:
        names = element_of_upper(d)
        if names is not None and 0 in names and _position(names, names[0]) == 0 and g.reaching_defs(at, names[0]) == [d] and names[0] not in upper:
            upper.append(names[0])
    if not upper:
        return False, f"the pressure (element 0) of the evaluation at `{hi}` is not held in a local", None
    return True, "", upper


def r01_2(chk: Check):
    S = chk.src
    fd = normalised(S, S.func(f"{EOM}.findWallVelocityDetonation"))
    chk.touch(fd.name)
    g = CFG(fd.node)
    cx = Ctx(S, fd)
    rel: set = set()
    for a in own_nodes(fd.node):
        if isinstance(a, ast.Assert):
            rel |= _relations(cx.resolve(a.test), cx)
    want = {P(t, cx) for t in ("self.hydrodynamics.vJ < vmin", "vmin < 1", "vmin < vmax", "vmax < 1")}
    chk.ob("R01.2", fd.where(), "detonation search asserts vJ < vmin < 1 and vmin < vmax < 1", want <= rel, str(sorted(rel)), key="deton-window")
    calls = calls_in(fd.node, "solveWall")
    ok, detail, PHI = (False, "", None)
    if len(calls) == 1:
        ok, detail, PHI = _deton_bracket(S, fd, g, cx, calls[0])
    chk.ob("R01.2", fd.where(), "a detonation root is refined on the bracket [vw2, vw3] with the cached evaluations of exactly these two points", ok,
           detail or (n(calls[0])[:160] if calls else ""), key="deton-bracket")
    guard_ok = False
    if PHI:
        at = g.node_of(calls[0])
        for phi in PHI:
            # the pressure at the lower end: the local the upper pressure is shifted into for the next step
            plo = [t.id for st in g.nodes for t, v in _pairs(st) if isinstance(t, ast.Name) and isinstance(v, ast.Name) and v.id == phi]
            guard_ok = guard_ok or any(_holds_under(g, at, (f"{phi} >= 0", f"0 >= {p}"), cx) for p in plo)
    chk.ob("R01.2", fd.where(), "that refinement happens only when the pressure changes sign from <= 0 to >= 0 between them", guard_ok, key="deton-sign")
    fm = S.func("manager:WallGoManager.solveWallDetonation")
    chk.touch(fm.name)
    cm = Ctx(S, fm)
    users = calls_in(fm.node, "findWallVelocityDetonation")
    ok = False
    shown = {}
    if len(users) == 1:
        lo, hi = kwarg(users[0], "vmin", 0), kwarg(users[0], "vmax", 1)
        lo, hi = (cm.resolve(x) if x is not None else None for x in (lo, hi))
        shown = {"vmin": n(lo) if lo is not None else "", "vmax": n(hi) if hi is not None else ""}
        margin = None
        if isinstance(lo, ast.Call) and eqx(lo.func, "max") and len(lo.args) == 2 and not lo.keywords:
            for a, b in (lo.args, lo.args[::-1]):
                if eqx(b, "self.hydrodynamics.slowestDeton()"):
                    # a - vJ must be a positive number
                    txt = nf(ast.BinOp(left=a, op=ast.Sub(), right=parse_pattern("self.hydrodynamics.vJ")))
                    try:
                        margin = Fraction(txt)
                    except ValueError:
                        margin = None
        ok = margin is not None and margin > 0 and eqx(hi, "self.config.configEOM.vwMaxDeton")
    chk.ob("R01.2", fm.where(), "manager: detonation window = [max(vJ + margin, slowestDeton()), vwMaxDeton]", ok, str(shown), key="manager-window")
    chk.floor("R01.2", 4)


def _arms(e) -> list:
    """the values a (nested) conditional expression may take"""
    return _arms(e.body) + _arms(e.orelse) if isinstance(e, ast.IfExp) else [e]


def _label_of(b, cx: Ctx):
    """(text of the solution type, is it certainly not ERROR / possibly ERROR) of a solutionType argument"""
    if b is None:
        return "", False
    r = cx.resolve(b)
    if isinstance(r, (ast.Name, ast.IfExp)):
        # a computed label: any value ever assigned to the local / any arm of the conditional expression
        vals = [r]
        if isinstance(r, ast.Name):
            vals = [st.value for st in own_nodes(cx.fi.node) if isinstance(st, (ast.Assign, ast.AnnAssign)) and st.value is not None and isinstance(_target(st), ast.Name)
                    and _target(st).id == r.id]
        return "<computed>", any((dotted(a) or n(a)).endswith("ERROR") for v in vals for a in _arms(cx.resolve(v)))
    d = dotted(r) or n(r)
    return d.split(".")[-1], d.endswith("ESolutionType.ERROR")


def r01_3(chk: Check):
    S = chk.src
    count = 0
    for fi in S.all_funcs():
        cf = None
        for c in own_nodes(fi.node):
            if isinstance(c, ast.Call) and isinstance(c.func, ast.Attribute) and c.func.attr == "setSuccessState":
                cf = cf or Ctx(S, fi)
                a = kwarg(c, "success", 0)
                b = kwarg(c, "solutionType", 1)
                a = cf.resolve(a) if a is not None else None
                if isinstance(a, ast.Constant) and isinstance(a.value, bool):
                    count += 1
                    # a non-constant solution type (variable) is allowed only with success True and must never be ERROR
                    label, is_err = _label_of(b, cf)
                    chk.ob("R01.3", fi.where(c), f"setSuccessState({a.value}, {n(b) if b is not None else '?'}): success is False exactly when the label is ERROR",
                           (a.value is False) == is_err, key=f"label|{fi.qual}|{a.value}|{label}|{count}")
                else:
                    chk.ob("R01.3", fi.where(c), "setSuccessState is called with a literal success flag", None, n(c)[:80])
    for q in ("solveWall", "findWallVelocityDetonation"):
        fi = normalised(S, S.func(f"{EOM}.{q}"))
        g = CFG(fi.node)
        cx = Ctx(S, fi)
        R = _result_name(fi)
        labels = set(_method_stmts(g, R, {"setSuccessState"}))
        rets = [r for r in g.nodes if isinstance(r, ast.Return)]
        for r in rets:
            shape = "result" if eqx(r.value, R, cx) else "[result]" if eqx(r.value, f"[{R}]", cx) else None
            if shape is not None:
                ok = g.must_pass(CFG.ENTRY, r, lambda x: x in labels)
                chk.ob("R01.3", fi.where(r), f"{q}: `return {n(r.value)}` is reached only after the result was labelled by setSuccessState", ok,
                       key=f"labelled|{q}|{shape}")
    # RUNAWAY in solveWall only under pressureMax < 0 and with no velocity
    sw = _SolveWall(chk)
    fs, g, cx = sw.fs, sw.g, sw.cx
    PMAX = sw.end_pressure("wallPressureResultsMax")
    novel = [x for x in sw.velset if _is_none(cx.resolve(kwarg(x.value, "wallVelocity", 0)))]
    for st in sw.labels:
        if _label_of(kwarg(st.value, "solutionType", 1), cx)[0] == "RUNAWAY":
            gok = len(PMAX) == 1 and any(_holds_under(g, st, (f"{p} < 0",), cx) for p in PMAX)
            chk.ob("R01.3", fs.where(st), "solveWall reports RUNAWAY only when the pressure at the top of the window is negative", gok,
                   str([n(t) for t, pol in _dominating_tests(g, st) if pol]), key="runaway-guard")
            # every path to the report stores `no velocity`, none stores a velocity
            nv = g.must_pass(CFG.ENTRY, st, lambda q: q in novel) and not any(st in g.reachable(x) for x in sw.velset if x not in novel)
            chk.ob("R01.3", fs.where(st), "and then no wall velocity is returned", nv, key="runaway-no-velocity")
    chk.floor("R01.3", 14)


def _reads(q, flag: str, cx: Ctx) -> bool:
    """CFG node q reads the attribute, directly or inside a simple extracted helper it calls"""
    if reads_of(q, flag):
        return True
    if isinstance(q, (ast.FunctionDef, ast.AsyncFunctionDef, ast.ClassDef, ast.ExceptHandler, ast.With)):
        return False
    return any(isinstance(c, ast.Call) for c in ast.walk(q)) and reads_of(cx.resolve(q, keep=set(cx.local_defs())), flag)


def r01_4(chk: Check):
    sw = _SolveWall(chk)
    fs, g, cx = sw.fs, sw.g, sw.cx
    evals = set(g.stmts_calling("wallPressure"))
    flags = ("self.successWallPressure", "self.successTemperatureProfile")
    J = _Judged(sw)
    cnt = 0
    for x in sw.labels:
        a = kwarg(x.value, "success", 0)
        a = cx.resolve(a) if a is not None else None
        if not (isinstance(a, ast.Constant) and a.value is True):
            continue
        cnt += 1
        missing = []
        for fl in flags:
            readers = {q for q in g.nodes if g.kind.get(q) != "def" and _reads(q, fl, cx)}
            # every path from a pressure evaluation to this success report must read the flag
            for e in evals:
                if x in g.reachable(e) and not g.must_pass(e, x, lambda q: q in readers):
                    # ... unless another evaluation lies in between on that path (then that one is the relevant one)
                    # ... or the report does not rely on this evaluation at all (none of its outputs is tested or reported at this exit)
                    if not g.must_pass(e, x, lambda q: q in readers or (q in evals and q is not e)) and (J.outputs(e) & J.about(x)):
                        missing.append(fl.split(".")[-1])
                        break
        label = _label_of(kwarg(x.value, "solutionType", 1), cx)[0]
        chk.ob("R01.4", fs.where(x), f"solveWall reports success ({label}) only after consulting successWallPressure and successTemperatureProfile "
               "of the pressure evaluation it relies on", not missing,
               f"flag(s) never read on a path from the evaluation to this report: {sorted(set(missing))}", key=f"flags-consulted|{label}")
    if cnt < 2:
        raise AnchorMissing("solveWall: success reports not found")
    chk.floor("R01.4", 2)


def r01_5(chk: Check):
    S = chk.src
    table = {"successWallPressure": ("wallPressure", "True"), "successTemperatureProfile": ("findPlasmaProfile", "True")}
    writers = {}
    for fi in S.all_funcs():
        for x in own_nodes(fi.node):
            tg = list(x.targets) if isinstance(x, ast.Assign) else [x.target] if isinstance(x, (ast.AugAssign, ast.AnnAssign)) else []
            for t in [y for t_ in tg for y in ast.walk(t_)]:
                if isinstance(t, ast.Attribute) and t.attr in table and isinstance(t.ctx, ast.Store):
                    writers.setdefault(t.attr, []).append((fi, x))
    for flag, (owner, init) in table.items():
        ws = writers.get(flag, [])
        outside = [f"{fi.qual}" for fi, x in ws if not (fi.cls == "EOM" and fi.qual.split(".")[-1] in (owner, "__init__"))]
        chk.ob("R01.5", "src/WallGo/equationOfMotion.py", f"{flag} is written only by EOM.{owner} (and initialised in __init__)", not outside and bool(ws),
               str(outside), key=f"writers|{flag}")
        fo = normalised(S, S.func(f"{EOM}.{owner}"))
        chk.touch(fo.name)
        g = CFG(fo.node)
        co = Ctx(S, fo)
        stores = [x for x in g.nodes if isinstance(x, ast.Assign) and len(x.targets) == 1 and eqx(x.targets[0], f"self.{flag}")]
        resets = [x for x in stores if eqx(_through(g, x, x.value), "True", co)]
        lowers = [x for x in stores if eqx(_through(g, x, x.value), "False", co)]
        ok = len(resets) == 1 and bool(lowers) and all(g.must_pass(CFG.ENTRY, l_, lambda q: q in resets) for l_ in lowers)
        # reset happens before any loop / callee that could lower it
        loops = [x for x in g.nodes if g.kind.get(x) in ("iter", "test") and isinstance(getattr(g, "header_of", {}).get(x), (ast.While, ast.For))]
        ok = ok and all(g.must_pass(CFG.ENTRY, l_, lambda q: q in resets) for l_ in loops)
        chk.ob("R01.5", fo.where(), f"{owner} resets {flag} to True on entry, before the iteration that may lower it", ok, key=f"reset|{flag}")
    # wallPressure evaluates the profile through findPlasmaProfile on every iteration when energy conservation is enforced
    fi = S.func(f"{EOM}._intermediatePressureResults")
    calls = calls_in(fi.node, "findPlasmaProfile")
    chk.ob("R01.5", fi.where(), "every pressure iteration recomputes the plasma profile through findPlasmaProfile (unless fixed profiles are supplied)",
           len(calls) == 1, key="profile-per-iteration")
    chk.floor("R01.5", 5)


# stores to objects that outlive one manager call: (class, attribute) -> reason
LONG_LIVED_STORES = {
    ("Hydrodynamics", "success"): "convergence flag of the last 2x2 matching; reset in findvwLTE before it is read (R05.3)",
    ("Hydrodynamics", "doesPhaseTraceLimitvmax"): "function of the model and its traced ranges only (same value on every call)",
}
MANAGER_SOLVER_METHODS = ("solveWall", "solveWallDetonation", "wallSpeedLTE", "setupWallSolver", "buildGrid", "buildEOM")


def _unconditional(g: CFG, node) -> bool:
    return node is not None and g.must_pass(CFG.ENTRY, CFG.EXIT, lambda q: q is node)


def r01_6(chk: Check):
    S = chk.src
    # fresh objects per call
    fsu = normalised(S, S.func("manager:WallGoManager.setupWallSolver"))
    chk.touch(fsu.name)
    gs = CFG(fsu.node)
    cs = Ctx(S, fsu)
    mk = {"grid": calls_in(fsu.node, "self.buildGrid"), "boltzmannSolver": [c for c in calls_in(fsu.node, "BoltzmannSolver") if isinstance(c.func, ast.Name)],
          "eom": calls_in(fsu.node, "self.buildEOM")}
    ok = all(len(v) == 1 and _unconditional(gs, gs.node_of(v[0])) for v in mk.values())
    shown = {k: n(v[0])[:60] if v else "" for k, v in mk.items()}
    if ok:
        G, B, E = (mk[k][0] for k in ("grid", "boltzmannSolver", "eom"))
        # the EOM is built on the grid and the Boltzmann solver made here, and these three objects are what is handed out
        ok = _is_value_of(cs, kwarg(E, "grid", 0), G) and _is_value_of(cs, kwarg(E, "boltzmannSolver", 1), B)
        rets = [r for r in own_nodes(fsu.node) if isinstance(r, ast.Return)]
        for r in rets:
            v = _definition(cs, r.value)
            ok = ok and isinstance(v, ast.Call) and eqx(v.func, "WallSolver") and _is_value_of(cs, kwarg(v, "eom", 0), E) and _is_value_of(cs, kwarg(v, "grid", 1), G) \
                and _is_value_of(cs, kwarg(v, "boltzmannSolver", 2), B)
        ok = ok and len(rets) == 1
    chk.ob("R01.6", fsu.where(), "setupWallSolver builds a fresh grid, BoltzmannSolver and EOM on every call", ok, str(shown), key="fresh-objects")
    for q, ctor in (("buildGrid", "Grid3Scales"), ("buildEOM", "EOM")):
        f_ = S.func(f"manager:WallGoManager.{q}")
        chk.touch(f_.name)
        cq = Ctx(S, f_)
        rets = [r for r in own_nodes(f_.node) if isinstance(r, ast.Return)]
        v = cq.resolve(rets[0].value) if len(rets) == 1 and rets[0].value is not None else None
        ok = len(rets) == 1 and isinstance(v, ast.Call) and eqx(v.func, ctor)
        chk.ob("R01.6", f_.where(), f"{q} returns a newly constructed {ctor}", ok, key=f"ctor|{q}")
    for q in ("solveWall", "solveWallDetonation"):
        f_ = normalised(S, S.func(f"manager:WallGoManager.{q}"))
        chk.touch(f_.name)
        g = CFG(f_.node)
        setup = set(g.stmts_calling("setupWallSolver"))
        users = set(g.stmts_calling("findWallVelocityDeflagrationHybrid")) | set(g.stmts_calling("findWallVelocityDetonation"))
        ok = bool(setup) and bool(users) and all(g.must_pass(CFG.ENTRY, u, lambda x: x in setup) for u in users)
        chk.ob("R01.6", f_.where(), f"manager.{q} sets up a new wall solver before solving", ok, key=f"setup|{q}")
    # no solver object cached on the manager
    mgr = S.cls("manager:WallGoManager")
    cached = []
    for name in MANAGER_SOLVER_METHODS:
        f_ = mgr.methods.get(name)
        if f_ is None:
            raise AnchorMissing(f"WallGoManager.{name} not found")
        for a, st in attr_stores(f_.node):
            cached.append(f"{name}: self.{a}")
    chk.ob("R01.6", "src/WallGo/manager.py", "the solver entry points of the manager store nothing on the manager (no cached solver state between calls)",
           not cached, "; ".join(cached), key="manager-stores")
    # closed table of stores to long-lived objects in the hydrodynamics / thermodynamics layer
    seen = set()
    extra = []
    for cls, mod in (("Hydrodynamics", "hydrodynamics"), ("HydrodynamicsTemplateModel", "hydrodynamicsTemplateModel"), ("Thermodynamics", "thermodynamics")):
        ci = S.cls(f"{mod}:{cls}")
        for mname, f_ in ci.methods.items():
            if mname in ("__init__", "setExtrapolate"):
                continue
            for a, st in attr_stores(f_.node, own=False):
                if (cls, a) in LONG_LIVED_STORES:
                    seen.add((cls, a))
                else:
                    extra.append(f"{cls}.{mname}: self.{a}")
    chk.ob("R01.6", "src/WallGo/hydrodynamics.py", "hydrodynamics / thermodynamics methods used by the solver store only the attributes of the closed table "
           f"{sorted(a for _, a in LONG_LIVED_STORES)}", not extra, "; ".join(extra), key="long-lived-stores")
    # the interpolated free energies cannot grow during solving: adaptive updates are disabled before any solver can run
    fr = normalised(S, S.func("manager:WallGoManager.initTemperatureRange"))
    g = CFG(fr.node)
    cr = Ctx(S, fr)
    dis = g.stmts_calling("disableAdaptiveInterpolation")
    tr = g.stmts_calling("tracePhase")
    ok = len(dis) == 2 and bool(tr) and all(g.must_pass(CFG.ENTRY, t, lambda x: x in dis) for t in tr) and \
        {nf(cr.resolve(d.value.func)) for d in dis if isinstance(d, ast.Expr) and isinstance(d.value, ast.Call)} == {
            P("self.thermodynamics.freeEnergyHigh.disableAdaptiveInterpolation"), P("self.thermodynamics.freeEnergyLow.disableAdaptiveInterpolation")}
    chk.ob("R01.6", fr.where(), "adaptive interpolation of both free energies is disabled right after they are created (their tables cannot change during solving)",
           ok, key="no-adaptive-growth")
    ffe = S.func("freeEnergy:FreeEnergy.__init__")
    cf = Ctx(S, ffe)
    ok = any(isinstance(c, ast.Call) and eqx(c.func, "self.setExtrapolationType") and eqx(kwarg(c, "extrapolationTypeLower", 0), "EExtrapolationType.ERROR", cf)
             and eqx(kwarg(c, "extrapolationTypeUpper", 1), "EExtrapolationType.ERROR", cf) for c in own_nodes(ffe.node))
    chk.ob("R01.6", ffe.where(), "free energies refuse evaluation outside their table (ERROR extrapolation): no silent direct evaluation either", ok, key="error-extrapolation")
    # the Boltzmann background stored in the result is never boosted (deep copy inside the solver)
    fb = S.func("boltzmann:BoltzmannSolver.setBackground")
    cb = Ctx(S, fb)
    prm = [a_.arg for a_ in fb.node.args.args][1:]
    stores = [st for st in own_nodes(fb.node) if isinstance(st, ast.Assign) and any(eqx(t, "self.background") for t in st.targets)]
    ok = bool(stores) and len(prm) == 1
    for st in stores:
        v = cb.resolve(st.value)
        ok = ok and isinstance(v, ast.Call) and (dotted(v.func) or "").endswith("deepcopy") and len(v.args) == 1 and eqx(v.args[0], prm[0])
    chk.ob("R01.6", fb.where(), "the Boltzmann solver boosts a deep copy: the background returned with the result stays in the wall frame", ok, key="deepcopy")
    from ..core import shared_mutable_class_state
    shared = shared_mutable_class_state(S)
    chk.ob("R01.6", "src/WallGo", "no class keeps mutable state at class level that its methods mutate in place (such state is shared by all instances and "
           "survives from one solver call to the next)", not shared, "; ".join(f"{f.qual} mutates class-level `{a}` of {c}" for f, x, c, a in shared)[:300],
           key="no-shared-class-state")
    chk.floor("R01.6", 11)


CONFIG_PLUMBING = {
    # constructor: {parameter: config attribute path}
    "EOM": {"errTol": "configEOM.errTol", "maxIterations": "configEOM.maxIterations", "pressRelErrTol": "configEOM.pressRelErrTol",
            "forceEnergyConservation": "configEOM.conserveEnergyMomentum", "wallThicknessBounds": "configEOM.wallThicknessBounds",
            "wallOffsetBounds": "configEOM.wallOffsetBounds"},
    "Hydrodynamics": {"tmax": "configHydrodynamics.tmax", "tmin": "configHydrodynamics.tmin", "rtol": "configHydrodynamics.relativeTol",
                      "atol": "configHydrodynamics.absoluteTol"},
    "Grid3Scales": {"M": "configGrid.spatialGridSize", "N": "configGrid.momentumGridSize", "ratioPointsWall": "configGrid.ratioPointsWall",
                    "smoothing": "configGrid.smoothing"},
    "BoltzmannSolver": {"collisionMultiplier": "configBoltzmannSolver.collisionMultiplier"},
}


def r01_7(chk: Check):
    """the configured settings reach the solver objects: the result is a function of model AND settings"""
    S = chk.src
    from .c13 import written_out     # f(a, **D) with D a local dict display that is only read passes the keys of D as keyword arguments
    mgr = S.cls("manager:WallGoManager")
    for ctor, mapping in CONFIG_PLUMBING.items():
        site = None
        for name, f0 in mgr.methods.items():
            f_ = written_out(S, f0) if any(isinstance(c, ast.Call) and isinstance(c.func, ast.Name) and c.func.id == ctor for c in own_nodes(f0.node)) else f0
            for c in own_nodes(f_.node):
                if isinstance(c, ast.Call) and isinstance(c.func, ast.Name) and c.func.id == ctor:
                    site = (f_, c)
        if site is None:
            raise AnchorMissing(f"manager: construction of {ctor} not found")
        f_, c = site
        chk.touch(f_.name)
        cx = Ctx(S, f_)
        target = None
        for m_ in S.modules.values():
            if ctor in m_.classes:
                target = m_.classes[ctor].methods.get("__init__")
        params = [p for p in target.params() if p != "self"]
        bound = {}
        for i, a in enumerate(c.args):
            if isinstance(a, ast.Starred):
                break                      # (the positions behind a splat that is not written out are not known)
            if i < len(params):
                bound[params[i]] = a
        for k in c.keywords:
            if k.arg:
                bound[k.arg] = k.value
        for p, path in mapping.items():
            a = bound.get(p)
            e = cx.resolve(a) if a is not None else None
            srcs = n(e) if e is not None else ""
            ok = a is not None and has(e, f"self.config.{path}")
            chk.ob("R01.7", f_.where(c), f"{ctor}({p}=...) receives the configured value config.{path} (not a hard-wired or default value)", ok,
                   f"argument: {n(a) if a is not None else 'not passed (constructor default is used)'} <- {srcs}", key=f"plumbing|{ctor}.{p}")
    chk.floor("R01.7", 15)


def minimiser_bounds(S):
    """the four bound expressions handed to the action minimiser in EOM._intermediatePressureResults:
    {("widths", 0): expr, ("widths", 1): expr, ("offsets", 0): expr, ("offsets", 1): expr}   (0 = lower, 1 = upper)"""
    fi = S.func(f"{EOM}._intermediatePressureResults")
    cx = Ctx(S, fi)
    mins = [c for c in calls_in(fi.node, "minimize") if "optimize" in (dotted(c.func) or "")]
    if len(mins) != 1:
        raise AnchorMissing("_intermediatePressureResults: the scipy.optimize.minimize call of the action not found")
    bd = kwarg(mins[0], "bounds")
    bdr = cx.resolve(bd) if bd is not None else None
    if not (isinstance(bdr, ast.Call) and (dotted(bdr.func) or "").endswith("Bounds")):
        raise AnchorMissing("_intermediatePressureResults: the scipy.optimize.Bounds handed to the minimiser not found")
    out = {}
    for side, e in ((0, kwarg(bdr, "lb", 0)), (1, kwarg(bdr, "ub", 1))):
        e = cx.resolve(e) if e is not None else None
        if not (isinstance(e, ast.Call) and eqx(e.func, "np.concatenate") and e.args and isinstance(e.args[0], (ast.Tuple, ast.List)) and len(e.args[0].elts) == 2):
            raise AnchorMissing("_intermediatePressureResults: bounds are not (width bounds..., offset bounds...)")
        for role, part in zip(("widths", "offsets"), e.args[0].elts):
            # n * [bound]
            lst = None
            if isinstance(part, ast.BinOp) and isinstance(part.op, ast.Mult):
                lst = part.right if isinstance(part.right, ast.List) else part.left if isinstance(part.left, ast.List) else None
            elif isinstance(part, ast.Call) and eqx(part.func, "np.full") and len(part.args) >= 2:
                lst = ast.List(elts=[part.args[1]], ctx=ast.Load())
            if lst is None or len(lst.elts) != 1:
                raise AnchorMissing("_intermediatePressureResults: a bound segment is not `count * [bound]`")
            out[(role, side)] = lst.elts[0]
    return fi, out


def r01_8(chk: Check):
    """a velocity is only reported as a success when the action minimisation was not stopped by its bounds: the saturation test of solveWall
    compares the wall parameters with exactly the bounds that were handed to the minimiser"""
    S = chk.src
    fm, bounds = minimiser_bounds(S)
    sw = _SolveWall(chk)
    fi, cx, g = sw.fs, sw.cx, sw.g
    chk.touch(fi.name, fm.name)
    # the wall parameters of the solution: the local stored by setWallParams together with the reported (finite) velocity
    finite = [vs for vs in sw.velset if not _is_none(_definition(cx, kwarg(vs.value, "wallVelocity", 0)))]
    WP = {a.id for vs in finite for s_ in sw.exit_setters(vs) if s_.value.func.attr == "setWallParams" for a in [kwarg(s_.value, "wallParams", 0)] if isinstance(a, ast.Name)}
    is_params = lambda x, attr: any(has(x, f"{w}.{attr}") for w in WP)
    # success labels that come with a wall velocity (a runaway is reported without velocity and without wall parameters)
    succ = [c for c in calls_in(fi.node, "setSuccessState") if eqx(kwarg(c, "success", 0), "True", cx) and not has(kwarg(c, "solutionType", 1), "ESolutionType.RUNAWAY", cx)]
    tests = []
    for t in g.nodes:
        if g.kind.get(t) != "test":
            continue
        tr = cx.resolve(t, keep=WP)
        cmps = [c for c in ast.walk(tr) if isinstance(c, ast.Compare) and len(c.ops) == 1 and isinstance(c.ops[0], (ast.Eq, ast.GtE, ast.LtE))
                and any(is_params(x, "widths") or is_params(x, "offsets") for x in (c.left, c.comparators[0]))]
        if cmps:
            tests.append((t, cmps))
    if not WP or not succ or len(tests) > 1:
        raise AnchorMissing("solveWall: the bound-saturation test / the success labelling not found")
    if not tests:
        # the parameters stored in the result are not the ones any test compares with the bounds
        for key, what in (("same-bounds", "the saturation test compares the wall parameters stored with the reported velocity with the minimiser bounds"),
                          ("not-success", "a result whose wall parameters saturate the bounds is never labelled a success")):
            chk.ob("R01.8", fi.where(), what, False, f"no test of solveWall compares the stored wall parameters {sorted(WP)} with the bounds", key=f"saturation|{key}")
        chk.floor("R01.8", 2)
        return
    t, cmps = tests[0]
    got = set()
    for c in cmps:
        a, b = c.left, c.comparators[0]
        if is_params(b, "widths") or is_params(b, "offsets"):
            a, b = b, a
        role = "widths" if is_params(a, "widths") else "offsets"
        got.add((role, nf(b, cx)))
    want = {(role, nf(e)) for (role, side), e in bounds.items()}
    chk.ob("R01.8", fi.where(t), "the saturation test compares the widths with both width bounds and the offsets with both offset bounds, each written "
           "exactly as it was handed to the action minimiser (same units: widths in 1/Tnucl)", got == want,
           f"tested against {sorted(got)}; minimiser bounds {sorted(want)}", key="saturation|same-bounds")
    pos = g.branch(t, True)
    sn = [g.node_of(c) for c in succ]
    ok = all(x is not None for x in sn) and not any(g.reaches(pos, x) for x in sn) and all(g.must_pass(CFG.ENTRY, x, lambda q: q is t) for x in sn)
    chk.ob("R01.8", fi.where(t), "a result whose wall parameters saturate the bounds is never labelled a success (every success label is reached only "
           "through the non-saturated branch of the test)", ok, key="saturation|not-success")
    chk.floor("R01.8", 2)

def _pairs(st) -> list:
    """(target, value) pairs of an assignment: element-wise for `a, b = e1, e2`, else the single pair"""
    if not isinstance(st, ast.Assign) or len(st.targets) != 1:
        return []
    t, v = st.targets[0], st.value
    if isinstance(t, (ast.Tuple, ast.List)) and isinstance(v, (ast.Tuple, ast.List)) and len(t.elts) == len(v.elts):
        return list(zip(t.elts, v.elts))
    return [(t, v)]


def _copies(st, dst: str, src_: str) -> bool:
    """statement st stores the value of local src_ into local dst (alone or as one component of a parallel assignment)"""
    return any(isinstance(t, ast.Name) and t.id == dst and isinstance(v, ast.Name) and v.id == src_ for t, v in _pairs(st))


def _stored_names(st) -> set:
    out = set()
    for t in (st.targets if isinstance(st, ast.Assign) else [st.target] if isinstance(st, (ast.AnnAssign, ast.AugAssign)) else []):
        out |= {x.id for x in ast.walk(t) if isinstance(x, ast.Name) and isinstance(x.ctx, ast.Store)}
    return out


class _Judged:
    """which data a decision in solveWall is about, and which locals hold outputs of a pressure evaluation"""

    def __init__(self, sw):
        self.sw, self.g, self.cx = sw, sw.g, sw.cx
        self.evals = set(sw.g.stmts_calling("wallPressure"))
        self.setters = set(sw.setters) | set(sw.velset)
        self._dom = {}

    @staticmethod
    def names(e) -> set:
        return {x.id for x in ast.walk(e) if isinstance(x, ast.Name) and isinstance(x.ctx, ast.Load)}

    def outputs(self, e) -> set:
        """locals holding (parts of) the result of evaluation statement e: its targets, and whatever is unpacked / indexed / copied from them"""
        out = set(_stored_names(e))
        changed = True
        while changed:
            changed = False
            for q in self.g.nodes:
                if q is e or not isinstance(q, (ast.Assign, ast.AnnAssign)) or q.value is None or self.g.kind.get(q) == "def":
                    continue
                v = q.value
                plain = all(isinstance(y, (ast.Name, ast.Subscript, ast.Tuple, ast.List, ast.IfExp, ast.Constant, ast.Slice, ast.Load, ast.Store, ast.UnaryOp, ast.USub,
                                           ast.Compare, ast.Is, ast.IsNot, ast.Eq, ast.NotEq)) for y in ast.walk(v))
                if plain and (self.names(v) & out) and any(d is e or (isinstance(d, ast.AST) and _stored_names(d) & out) for nm in self.names(v) & out
                                                          for d in self.g.reaching_defs(q, nm)):
                    new = _stored_names(q) - out
                    if new:
                        out |= new
                        changed = True
        return out

    def dominating(self, node):
        if id(node) not in self._dom:
            self._dom[id(node)] = _dominating_tests(self.g, node)
        return self._dom[id(node)]

    def about(self, R, depth: int = 0) -> set:
        """names of the data the decision taken at node R is about: what its own expression and the tests it depends on read, and what the
        result setters of the same exit (no pressure evaluation in between) are given"""
        g = self.g
        is_eval = lambda q: q in self.evals
        if isinstance(R, (ast.Assign, ast.AnnAssign)) and depth < 3 and len(_stored_names(R)) == 1:
            # a flag saved in a local: the decision is taken where that local is read
            f = next(iter(_stored_names(R)))
            out = set()
            for u in g.nodes:
                if u is not R and g.kind.get(u) != "def" and isinstance(u, ast.AST) and f in self.names(u) and R in g.reaching_defs(u, f):
                    out |= self.about(u, depth + 1) - {f}
            return out
        out = self.names(R)
        for t, _pol in self.dominating(R):
            out |= self.names(self.cx.resolve(t))
        for q in self.setters:
            if g.reaches([q], R, avoid=is_eval) or g.reaches([R], q, avoid=is_eval):
                out |= self.names(q)
        return out


def r01_9(chk: Check):
    """The convergence flags are overwritten by every pressure evaluation.  A read of a flag therefore judges the LAST evaluation executed
    before it; that evaluation must be the one whose outputs the decision is about (the pressure tested by the guards of the read, or the
    data handed to the result setters of that exit) -- not a later evaluation at another velocity."""
    sw = _SolveWall(chk)
    fs, g, cx = sw.fs, sw.g, sw.cx
    J = _Judged(sw)
    evals = J.evals
    flags = ("self.successWallPressure", "self.successTemperatureProfile")
    cnt = 0
    for R in g.nodes:
        if not isinstance(R, ast.AST) or g.kind.get(R) in ("def", "handler") or not any(_reads(R, fl, cx) for fl in flags):
            continue
        last = [e for e in evals if e is not R and g.reaches([e], R, avoid=lambda q, e=e: q in evals and q is not e)]
        if not last:
            continue
        cnt += 1
        about = J.about(R)
        bad = [e for e in last if not (J.outputs(e) & about)]
        chk.ob("R01.9", fs.where(R), "the convergence flags read here belong to the pressure evaluation the decision is about: the last evaluation executed "
               "before the read produced the pressure tested / the data reported at this exit", not bad,
               "; ".join(f"line {e.lineno}: `{n(e)[:70]}` is the last evaluation on a path to this read but none of its outputs is tested or reported here" for e in bad),
               key=f"flag-pairing|{cnt}")
    if cnt < 2:
        raise AnchorMissing("solveWall: reads of the convergence flags after a pressure evaluation not found")
    chk.floor("R01.9", 2)


def r01_10(chk: Check):
    """The detonation scan may stop before the pressure at the top of its window was evaluated only when no stable root can lie beyond the last
    probed point (pressure there positive) or when a solution was already stored; otherwise the classification after the loop would read the
    pressure of an interior point as the pressure at the top of the window."""
    S = chk.src
    fd = normalised(S, S.func(f"{EOM}.findWallVelocityDetonation"))
    chk.touch(fd.name)
    g, cx = CFG(fd.node), Ctx(S, fd)
    loops = [w for w in own_nodes(fd.node) if isinstance(w, ast.While) and any(True for _ in calls_in(w, "wallPressure"))]
    if len(loops) != 1:
        raise AnchorMissing("findWallVelocityDetonation: the scanning loop (while ...: self.wallPressure(...)) not found")
    w = loops[0]
    # roles: the list of solutions L (classification under `len(L) == 0`), the pressure P at the last probed point (`pIni > 0 > P`), the last
    # probed velocity V (starts at vmin)
    L = P = V = None
    for guards, st in walk_guarded(fd.node):
        for t, pol in guards:
            if isinstance(t, tuple):
                continue
            b = match(t, "len(__L) == 0", cx) or match(t, "not __L", cx) or match(t, "__L == []", cx)
            if b and pol:
                L = b["L"]
            b = match(t, "len(__L) != 0", cx) or match(t, "len(__L) > 0", cx) or (match(t, "__L", cx) if isinstance(t, ast.Name) else None)
            if b and not pol:
                L = b["L"]
        if isinstance(st, ast.Assign):
            b = match(st, "__V = vmin")
            if b and st.lineno < w.lineno:
                V = b["V"]
    for t in g.nodes:
        if g.kind.get(t) == "test":
            b = match(t, "__A > 0 > __P", cx) or match(t, "__A > 0 and __P < 0", cx)
            if b:
                P = b["P"]
    if None in (L, P, V):
        raise AnchorMissing(f"findWallVelocityDetonation: roles not found (solutions list {L}, last pressure {P}, last probed velocity {V})")
    classify = [t for t in g.nodes if g.kind.get(t) == "test" and any(eqx(t, x, cx) for x in (f"len({L}) == 0", f"not {L}", f"{L} == []", f"len({L}) != 0", f"len({L}) > 0", L))]
    in_loop = {id(y) for y in ast.walk(w)}
    appends = [q for q in g.nodes if id(q) in in_loop and isinstance(q, ast.Expr) and has(q, f"{L}.append")]

    def conjuncts(t, pol):
        e, pol = _positive(t, pol, cx)
        if pol and isinstance(e, ast.BoolOp) and isinstance(e.op, ast.And):
            return [c for v in e.values for c in conjuncts(v, True)]
        if not pol and isinstance(e, ast.BoolOp) and isinstance(e.op, ast.Or):
            return [c for v in e.values for c in conjuncts(v, False)]
        return [(e, pol)]

    cnt = 0
    for guards, st in walk_guarded(w):
        if not isinstance(st, ast.Break):
            continue
        if any(isinstance(l_, (ast.For, ast.While)) and l_ is not w and any(y is st for y in ast.walk(l_)) for l_ in ast.walk(w)):
            continue            # leaves an inner loop only
        cnt += 1
        cs = [c for t, pol in guards if not isinstance(t, tuple) for c in conjuncts(t, pol)]
        positive = any((pol and eqx(e, f"{P} > 0")) or (not pol and eqx(e, f"{P} <= 0")) for e, pol in cs)
        at_top = any((pol and (eqx(e, f"{V} >= vmax") or eqx(e, f"{V} == vmax"))) or (not pol and eqx(e, f"{V} < vmax")) for e, pol in cs)
        stored = bool(appends) and g.must_pass(w.test, st, lambda q: q in appends)
        chk.ob("R01.10", fd.where(st), "the detonation scan stops early only when the pressure at the last probed point is positive (no stable root can follow), "
               "when the top of the window was probed, or right after a solution was stored", positive or at_top or stored,
               f"guards: {[n(t)[:60] for t, _ in guards if not isinstance(t, tuple)]}", key=f"scan-exit|{cnt}")
    ok = len(classify) >= 1 and (eqx(w.test, f"{V} < vmax") or any(eqx(w.test, x) for x in ("True", "1")))
    chk.ob("R01.10", fd.where(w), "the scan continues while the last probed velocity is below the top of the window", bool(ok), n(w.test), key="scan-condition")
    if cnt < 2:
        raise AnchorMissing("findWallVelocityDetonation: the early exits of the scanning loop not found")
    chk.floor("R01.10", 3)


def r01_11(chk: Check):
    """solveWall trusts a cached evaluation handed in by its caller: the guard that turns a non-converged negative pressure at the top of the window
    into ERROR applies only to an evaluation solveWall made itself.  The only caller entitled to hand one in is the detonation scan, where R01.2
    proves the cached upper pressure is >= 0 (no runaway verdict can be drawn from it).  Every other call lets solveWall evaluate both ends."""
    S = chk.src
    cnt = 0
    for m in S.modules.values():
        for q, f in m.funcs.items():
            if not isinstance(f.node, (ast.FunctionDef, ast.AsyncFunctionDef)) or f.parent is not None:
                continue
            for c in calls_in(f.node, "solveWall"):
                if not (isinstance(c.func, ast.Attribute) and c.func.attr == "solveWall"):
                    continue
                params = ("wallVelocityMin", "wallVelocityMax", "wallParamsGuess", "wallPressureResultsMin", "wallPressureResultsMax")
                if len(c.args) < 3 and not any(k.arg in params for k in c.keywords):
                    continue        # another method of that name (WallGoManager.solveWall(settings))
                cnt += 1
                cached = [n(a) for nm, i in (("wallPressureResultsMin", 3), ("wallPressureResultsMax", 4)) for a in [kwarg(c, nm, i)]
                          if a is not None and not (isinstance(a, ast.Constant) and a.value is None)]
                ok = not cached or f.qual == "EOM.findWallVelocityDetonation"
                chk.ob("R01.11", f.where(c), f"{f.qual}: cached pressure evaluations are handed to solveWall only by the detonation scan (whose upper pressure is proven >= 0); "
                       "elsewhere solveWall evaluates the window ends itself, so its convergence guard applies", ok, f"passes {cached}", key=f"cached-evaluations|{f.qual}")
    if cnt < 2:
        raise AnchorMissing("calls of EOM.solveWall not found")
    chk.floor("R01.11", 2)


def r01_13(chk: Check):
    """The pressure solveWall evaluates itself at the TOP of the window decides what kind of answer is possible at all: negative -> runaway, otherwise it
    is one end of the bracket handed to the root finder (and is returned to it from the cache, never re-evaluated).  Its convergence flags are
    overwritten by the next evaluation, so they must be consulted on EVERY path from that evaluation to the next one (or to a return) -- not only on
    the path on which the pressure came out negative.  Otherwise a non-converged pressure of the wrong sign makes the root finder converge onto the
    window end, and that velocity is reported as a solution although the converged pressure there is far from zero."""
    sw = _SolveWall(chk)
    fs, g, cx = sw.fs, sw.g, sw.cx
    evals = [e for e in g.stmts_calling("wallPressure")]
    flags = ("self.successWallPressure", "self.successTemperatureProfile")
    def consults(x, fl: str, outs: set) -> bool:
        """x reads the flag whenever it is evaluated -- not behind a short-circuit operand that depends on the outputs of the evaluation"""
        if isinstance(x, ast.Attribute) and n(x) == fl:
            return True
        if isinstance(x, ast.BoolOp):
            for i, v in enumerate(x.values):
                if consults(v, fl, outs):
                    return not any(isinstance(y, ast.Name) and y.id in outs for u in x.values[:i] for y in ast.walk(u))
            return False
        if isinstance(x, ast.IfExp):
            return consults(x.test, fl, outs) or (consults(x.body, fl, outs) and consults(x.orelse, fl, outs))
        if isinstance(x, (ast.Lambda, ast.FunctionDef)):
            return False
        return any(consults(c, fl, outs) for c in ast.iter_child_nodes(x))

    def reads_for(outs: set):
        def reads(q) -> bool:
            if not isinstance(q, ast.AST) or g.kind.get(q) in ("def", "handler"):
                return False
            if not all(_reads(q, fl, cx) for fl in flags):
                return False
            r = cx.resolve(q, keep=set(cx.local_defs())) if any(isinstance(c, ast.Call) for c in ast.walk(q)) else q
            return all(consults(q, fl, outs) or consults(r, fl, outs) for fl in flags)
        return reads

    J = _Judged(sw)
    cnt = 0
    for e in evals:
        # the evaluation may be one arm of a conditional expression or sit in a temporary: look at the wallPressure call itself
        calls_ = [c for c in ast.walk(e) if isinstance(c, ast.Call) and _wallpressure_call(c)] if isinstance(e, ast.AST) and g.kind.get(e) != "def" else []
        vels = [kwarg(c, "wallVelocity", 0) for c in calls_]
        if not any(v is not None and eqx(cx.resolve(v), "wallVelocityMax") for v in vels):
            continue
        cnt += 1
        nxt = [q for q in evals if q is not e] + [q for q in g.nodes if isinstance(q, ast.Return)]
        # every path from this evaluation to the next evaluation / a return consults both flags first
        reads = reads_for(J.outputs(e))
        bad = [q for q in nxt if g.reaches([e], q, avoid=lambda x: x is not q and x is not e and (x in evals or isinstance(x, ast.Return))) and not g.must_pass(e, q, reads)]
        chk.ob("R01.13", fs.where(e), "solveWall consults the convergence flags of its own pressure evaluation at the top of the window on every path before the next "
               "evaluation overwrites them (also when that pressure came out positive and becomes a bracket end)", not bad,
               "; ".join(f"path to line {q.lineno} (`{n(q)[:40]}`) reads no flag" for q in bad)[:300], key="end-flags|wallVelocityMax")
    if cnt != 1:
        raise AnchorMissing("solveWall: its own pressure evaluation at wallVelocityMax not found")
    chk.floor("R01.13", 1)


def rules(chk: Check) -> None:
    for grp in (r01_7, r01_8, r01_1, r01_2, r01_3, r01_4, r01_5, r01_6, r01_9, r01_10, r01_11, r01_13):
        chk.stage(grp, chk)
    # R01.12: every pressure evaluation inside the iteration receives the boundary data in the roles they were computed for (T+ / T- / vevs / c1 / c2:
    # shared with C04 R04.3) -- a swapped pair changes the branch of the plasma equations and the ends of the reported profiles
    from ..core import Remap
    from . import c04
    chk.stage(c04.r04_3, Remap(chk, {"R04.3": "R01.12"}), c04._Point(chk.src))
    chk.floor("R01.12", 3)
