"""C16 -- spectral polynomial calculus is exact on the polynomial space of the grid.

R16.1 index-range tables: for every (direction, endpoints) the basis-index ranges used by changeBasis, evaluate,
      _chebyshevMatrix, _chebyshevDeriv, _cardinalDeriv, _cardinalMatrix, _checkCoefficients agree with each other and
      with the point counts of the grid; same restriction label per direction
R16.2 restricted Chebyshev basis: the correction subtracted in the derivative matrix is the derivative of the correction
      subtracted in chebyshev(); the restricted functions vanish at the dropped end points; bulk derivative is n U_{n-1}
R16.3 Gauss-Lobatto nodes and quadrature: node denominators == weight denominators per direction; end-point halving; sqrt(1-x^2)
R16.4 axis algebra for every rank <= 4 and axis i: matrices land on (i, i+1), contraction removes the old axis, others untouched
"""
from __future__ import annotations

import ast
import itertools

import sympy as sp

from ..core import AnchorMissing, Check, Undecided, calls_in, dotted, kwarg, own_nodes, src, walk_guarded
from ..hydro import n
from ..terms import Extractor, WHERE, is_zero

LEVEL = "other"
PO = "polynomial:Polynomial"
M, N = sp.symbols("M N", positive=True, integer=True)
DIRS = ("z", "pz", "pp")


# ---------------------------------------------------------------- guard evaluation
def _guard_value(t: ast.expr, c: dict):
    """value of a guard test under the combination c = {dir, ep, basis}; None = unknown"""
    s = n(t).replace('"', "'")
    for pre in ("self.direction[i]", "direction"):
        if s.startswith(pre + " == '"):
            return c["dir"] == s.split("'")[1]
        if s.startswith(pre + " in ["):
            return c["dir"] in [x for x in s.split("'")[1::2]]
    for pre in ("self.endpoints[i]", "endpoints"):
        if s == pre:
            return c["ep"]
        if s == "not " + pre:
            return not c["ep"]
    if s.startswith("self.basis[i] == '"):
        return c["basis"] == s.split("'")[1]
    if s.startswith("restriction == '") and " and not endpoints" in s:
        return None
    if isinstance(t, ast.BoolOp) and isinstance(t.op, ast.And):
        vals = [_guard_value(v, c) for v in t.values]
        if any(v is False for v in vals):
            return False
        if all(v is True for v in vals):
            return True
        return None
    return None


def _applies(guards, c) -> bool:
    for t, pol in guards:
        if isinstance(t, (tuple, ast.ExceptHandler)):
            continue
        v = _guard_value(t, c)
        if v is None:
            continue
        if v != pol:
            return False
    return True


GRID_SIZE = {}


def _arange(e: ast.expr, c: dict, sizes: dict):
    """(start, stop) of an np.arange(...) [+ k] expression as sympy in M, N"""
    def val(x):
        if isinstance(x, ast.Constant):
            return sp.Integer(int(x.value)) if not isinstance(x.value, bool) else sp.Integer(int(x.value))
        if isinstance(x, ast.Name) and x.id == "endpoints":
            return sp.Integer(1 if c["ep"] else 0)
        s = n(x)
        if s in ("self.grid.M", "self.M"):
            return M
        if s in ("self.grid.N", "self.N"):
            return N
        if s in ("grid.size",):
            return sizes[(c["dir"], c.get("grid_ep", c["ep"]))]
        if isinstance(x, ast.BinOp):
            a, b = val(x.left), val(x.right)
            return {ast.Add: a + b, ast.Sub: a - b, ast.Mult: a * b}[type(x.op)]
        raise Undecided(f"arange argument {s}")
    if isinstance(e, ast.BinOp) and isinstance(e.op, (ast.Add, ast.Sub)):
        a0, a1 = _arange(e.left, c, sizes)
        k = val(e.right)
        k = k if isinstance(e.op, ast.Add) else -k
        return a0 + k, a1 + k
    if isinstance(e, ast.Call) and (dotted(e.func) or "").endswith("arange"):
        if len(e.args) == 1:
            return sp.Integer(0), val(e.args[0])
        return val(e.args[0]), val(e.args[1])
    raise Undecided(f"not an arange expression: {n(e)}")


def _grid_sizes(chk: Check) -> dict:
    S = chk.src
    gi = S.func("grid:Grid.__init__")
    chk.touch(gi.name)
    sizes = {}
    names = {"chiValues": "z", "rzValues": "pz", "rpValues": "pp"}
    dens = {}
    for guards, st in walk_guarded(gi.node):
        if isinstance(st, ast.Assign) and n(st.targets[0]).startswith("self.") and n(st.targets[0])[5:] in names:
            spectral = any(pol and "Spectral" in n(t) for t, pol in guards if not isinstance(t, tuple))
            if not spectral:
                continue
            d = names[n(st.targets[0])[5:]]
            ar = [c for c in ast.walk(st.value) if isinstance(c, ast.Call) and (dotted(c.func) or "").endswith("arange")]
            if len(ar) != 1:
                raise Undecided("Grid.__init__: node formula without arange")
            a0, a1 = _arange(ar[0], {"ep": False, "dir": d}, {})
            a0 = a0.subs({M: M, N: N})
            sizes[(d, False)] = sp.expand(a1 - a0).subs({sp.Symbol("M"): M})
            # -cos(arange * pi / D)
            ok = isinstance(st.value, ast.UnaryOp) and isinstance(st.value.op, ast.USub) and isinstance(st.value.operand, ast.Call) \
                and (dotted(st.value.operand.func) or "").endswith("cos")
            den = None
            if ok:
                arg = st.value.operand.args[0]
                if isinstance(arg, ast.BinOp) and isinstance(arg.op, ast.Div):
                    den = n(arg.right).strip("()")
                    okpi = "np.pi" in n(arg.left)
                    ok = ok and okpi
            dens[d] = (den, a0, a1, ok)
    # `self.M` in Grid.__init__
    sizes = {k: v.subs({sp.Symbol("self.M"): M}) for k, v in sizes.items()}
    return sizes, dens


def r16_3(chk: Check, sizes, dens):
    S = chk.src
    gi = S.func("grid:Grid.__init__")
    want = {"z": ("self.M", 1, "M"), "pz": ("self.N", 1, "N"), "pp": ("self.N - 1", 0, "N-1")}
    for d, (den, first, label) in want.items():
        got = dens.get(d)
        ok = got is not None and got[3] and got[0] == den and got[1] == first
        chk.ob("R16.3", gi.where(), f"{d} nodes are -cos(k pi/({label})), k from {first}: Gauss-Lobatto points with the end point(s) at infinity dropped", ok,
               str(got), key=f"nodes|{d}")
    # counts (symbols named self.M/self.N in Grid)
    fi = S.func(f"{PO}.integrate")
    chk.touch(fi.name)
    wden = {}
    halves = []
    for guards, st in walk_guarded(fi.node):
        if isinstance(st, ast.AugAssign) and isinstance(st.op, ast.Div):
            g = [n(t).replace('"', "'") for t, pol in guards if pol and not isinstance(t, tuple)]
            if n(st.target) == "weights":
                for d in DIRS:
                    if f"self.direction[i] == '{d}'" in g:
                        wden[d] = n(st.value).replace("self.grid.", "self.").strip("()")
            elif n(st.target).startswith("weights["):
                halves.append((n(st.target), n(st.value), [x for x in g if "direction" in x or "endpoints" in x]))
    for d, (den, first, label) in want.items():
        chk.ob("R16.3", fi.where(), f"quadrature weight of direction {d} is pi/({label}): same denominator as its node formula", wden.get(d) == den,
               f"{wden.get(d)} vs {den}", key=f"weight-den|{d}")
    hs = {(a, tuple(g)) for a, v, g in halves if v == "2"}
    ok = ("weights[0]", ("self.direction[i] == 'pp'", "not self.endpoints[i]")) in hs and \
         ("weights[0]", ("self.endpoints[i]",)) in hs and ("weights[-1]", ("self.endpoints[i]",)) in hs and len(halves) == 3
    chk.ob("R16.3", fi.where(), "end-point weights are halved: both ends when end points are kept; rho_par = -1 (a kept Lobatto end point) otherwise", ok,
           str(sorted(hs)), key="halving")
    base = [st for st in own_nodes(fi.node) if isinstance(st, ast.Assign) and n(st.targets[0]) == "weights"]
    ok = len(base) == 1 and n(base[0].value) == "np.pi * np.ones(compactCoord.size)"
    chk.ob("R16.3", fi.where(), "weights start from pi for every node of the integrated axis", ok, key="weight-base")
    mult = [x for x in own_nodes(fi.node) if isinstance(x, ast.AugAssign) and n(x.target) == "integrand" and isinstance(x.op, ast.Mult)]
    ok = len(mult) == 1 and "np.sqrt(1 - compactCoord ** 2) * weights" in n(mult[0].value)
    chk.ob("R16.3", fi.where(), "the Chebyshev weight 1/sqrt(1-x^2) of the rule is compensated by sqrt(1 - x^2)", ok, key="sqrt-factor")
    cc = [c for c in calls_in(fi.node, "getCompactCoordinates")]
    ok = len(cc) == 1 and [n(a) for a in cc[0].args] == ["self.endpoints[i]", "self.direction[i]"]
    chk.ob("R16.3", fi.where(), "nodes of the integrated axis are the grid's compact coordinates for that axis' (endpoints, direction)", ok, key="nodes-used")
    cb = [c for c in calls_in(fi.node, "changeBasis")]
    ok = len(cb) == 1 and n(cb[0].func) == "self.changeBasis"
    chk.ob("R16.3", fi.where(), "integrated axes are converted to the cardinal basis (grid values) first", ok, key="cardinal-first")
    chk.floor("R16.3", 11)


def r16_1(chk: Check, sizes):
    S = chk.src
    # sizes with endpoints from getCompactCoordinates
    gc = S.func("grid:Grid.getCompactCoordinates")
    chk.touch(gc.name)
    add = {}
    for guards, st in walk_guarded(gc.node):
        if isinstance(st, ast.Assign) and isinstance(st.targets[0], ast.Name) and any(pol and n(t) == "endpoints" for t, pol in guards if not isinstance(t, tuple)):
            nm = st.targets[0].id
            cnt = n(st.value).count("[-1]") + n(st.value).count("[1]")
            add[nm] = cnt
    full = dict(sizes)
    for nm, d in (("chi", "z"), ("rz", "pz"), ("rp", "pp")):
        if nm not in add:
            raise AnchorMissing("getCompactCoordinates: end-point branch not found")
        full[(d, True)] = sp.expand(sizes[(d, False)] + add[nm])
    full = {k: v.subs({sp.Symbol("self.M"): M, sp.Symbol("self.N"): N}) for k, v in full.items()}
    expect = {("z", False): M - 1, ("pz", False): N - 1, ("pp", False): N - 1, ("z", True): M + 1, ("pz", True): N + 1, ("pp", True): N}
    chk.ob("R16.1", gc.where(), "grid point counts: M-1, N-1, N-1 without end points; M+1, N+1, N with them", all(sp.expand(full[k] - v) == 0 for k, v in expect.items()),
           str(full), key="grid-counts")
    # direction dispatch of getCompactCoordinates
    disp = {n(st.test).replace('"', "'"): n(st.body[0].value) for st in gc.node.body if isinstance(st, ast.If) and st.body and isinstance(st.body[0], ast.Return)}
    ok = disp.get("direction == 'z'") == "chi" and disp.get("direction == 'pz'") == "rz" and disp.get("direction == 'pp'") == "rp"
    chk.ob("R16.1", gc.where(), "getCompactCoordinates(direction) returns chi / rz / rp for 'z' / 'pz' / 'pp'", ok, str(disp), key="grid-dispatch")

    table = {}  # site -> {(dir, ep[, basis]): (start, stop, restriction)}

    def collect(fname, basis_dim=False, grid_ep=None, only_guard=None):
        fi = S.func(f"{PO}.{fname}")
        chk.touch(fi.name)
        out = {}
        for d, ep in itertools.product(DIRS, (True, False)):
            for basis in (("Cardinal", "Chebyshev") if basis_dim else (None,)):
                c = {"dir": d, "ep": ep, "basis": basis}
                if grid_ep is not None:
                    c["grid_ep"] = grid_ep
                cur = None
                restr = None
                for guards, st in walk_guarded(fi.node):
                    if only_guard is not None and not any(only_guard in n(t) for t, pol in guards if not isinstance(t, tuple)) and only_guard != "":
                        pass
                    if not _applies(guards, c):
                        continue
                    if isinstance(st, (ast.Assign, ast.AnnAssign)):
                        tg = st.targets[0] if isinstance(st, ast.Assign) else st.target
                        if st.value is None:
                            continue
                        if n(tg) == "n" and "arange" in n(st.value):
                            cur = _arange(st.value, c, full)
                        if n(tg) == "restriction":
                            restr = st.value.value if isinstance(st.value, ast.Constant) else None
                        if n(tg).strip("()") == "n, restriction":
                            cur, restr = None, None
                    if isinstance(st, ast.AugAssign) and n(st.target) == "n" and isinstance(st.op, ast.Add):
                        if cur is not None:
                            k = sp.Integer(int(n(st.value)))
                            cur = (cur[0] + k, cur[1] + k)
                out[(d, ep, basis)] = (cur, restr)
        return fi, out

    f_cb, t_cb = collect("changeBasis")
    f_ev, t_ev = collect("evaluate", basis_dim=True)
    f_cm, t_cm = collect("_chebyshevMatrix")
    f_cd, t_cd = collect("_chebyshevDeriv", grid_ep=True)
    restr_want = {"z": "full", "pz": "full", "pp": "partial"}
    for d, ep in itertools.product(DIRS, (True, False)):
        cnt = expect[(d, ep)]
        start = sp.Integer(0) if ep else (sp.Integer(2) if d in ("z", "pz") else sp.Integer(1))
        label = f"{d}, {'with' if ep else 'without'} end points"
        rows = []
        for nm, tab, key in (("changeBasis", t_cb, (d, ep, None)), ("evaluate[Chebyshev]", t_ev, (d, ep, "Chebyshev")),
                             ("_chebyshevMatrix", t_cm, (d, ep, None)), ("_chebyshevDeriv", t_cd, (d, ep, None))):
            (rng, restr) = tab[key]
            if rng is None:
                rows.append(f"{nm}: no index range")
                continue
            okr = sp.expand(rng[0] - start) == 0 and sp.expand(rng[1] - rng[0] - cnt) == 0
            # restriction: None with end points (except _chebyshevDeriv which guards it separately), label otherwise
            wantr = None if ep else restr_want[d]
            okq = True
            if nm in ("changeBasis", "evaluate[Chebyshev]", "_chebyshevMatrix"):
                okq = restr == wantr
            elif nm == "_chebyshevDeriv" and not ep:
                okq = restr == wantr
            if not (okr and okq):
                rows.append(f"{nm}: n in [{rng[0]}, {rng[1]}) restriction {restr}")
        chk.ob("R16.1", f_cb.where(), f"Chebyshev index range for ({label}) is {cnt} functions starting at T_{start}"
               f"{'' if ep else ' with restriction ' + restr_want[d]} at all four sites", not rows, "; ".join(rows), key=f"cheb-range|{d}|{ep}")
        # cardinal arm of evaluate: indices into the full grid
        (rng, _) = t_ev[(d, ep, "Cardinal")]
        cstart = sp.Integer(0) if ep else (sp.Integer(1) if d in ("z", "pz") else sp.Integer(0))
        okc = rng is not None and sp.expand(rng[0] - cstart) == 0 and sp.expand(rng[1] - rng[0] - cnt) == 0
        chk.ob("R16.1", f_ev.where(), f"cardinal index range of evaluate for ({label}) is {cnt} functions starting at grid index {cstart}", okc,
               str(rng), key=f"card-range|{d}|{ep}")
    # _cardinalMatrix / _checkCoefficients / _cardinalDeriv
    fcm = S.func(f"{PO}._cardinalMatrix")
    chk.touch(fcm.name)
    ids = {}
    for st in fcm.node.body:
        if isinstance(st, ast.If) and isinstance(st.body[0], ast.Return):
            ids[n(st.test).replace('"', "'")] = st.body[0].value
        elif isinstance(st, ast.Return):
            ids["else"] = st.value
    szmap = {"direction == 'z'": "z", "direction == 'pz'": "pz", "else": "pp"}
    okm = True
    det = []
    for k, d in szmap.items():
        call = ids.get(k)
        if call is None:
            okm = False
            continue
        arg = call.args[0]
        for ep in (True, False):
            v = _arange(ast.Call(func=ast.Attribute(value=ast.Name(id="np", ctx=ast.Load()), attr="arange", ctx=ast.Load()), args=[arg], keywords=[]),
                        {"dir": d, "ep": ep}, full)[1]
            if sp.expand(v - expect[(d, ep)]) != 0:
                okm = False
                det.append(f"{d},{ep}: {v}")
    chk.ob("R16.1", fcm.where(), "_cardinalMatrix is the identity of the grid's point count for every (direction, endpoints)", okm, "; ".join(det), key="cardinal-matrix")
    fck = S.func(f"{PO}._checkCoefficients")
    chk.touch(fck.name)
    asserts = []
    for guards, st in walk_guarded(fck.node):
        if isinstance(st, ast.Assert):
            g = [n(t).replace('"', "'") for t, pol in guards if not isinstance(t, tuple) and "direction" in n(t)]
            pols = [pol for t, pol in guards if not isinstance(t, tuple) and "direction" in n(t)]
            asserts.append((g, pols, n(st.test).replace(" ", "")))
    want_a = {"z": "size+2*(1-self.endpoints[i])==self.grid.M+1", "pz": "size+2*(1-self.endpoints[i])==self.grid.N+1", "pp": "size+(1-self.endpoints[i])==self.grid.N"}
    got_a = {}
    for g, pols, t in asserts:
        if g and pols[-1] and "'z'" in g[-1]:
            got_a["z"] = t
        elif g and pols[-1] and "'pz'" in g[-1]:
            got_a["pz"] = t
        else:
            got_a["pp"] = t
    chk.ob("R16.1", fck.where(), "_checkCoefficients accepts exactly the grid's point count on every polynomial axis", got_a == want_a, str(got_a), key="check-coefficients")
    fcd = S.func(f"{PO}._cardinalDeriv")
    chk.touch(fcd.name)
    sl = {}
    for guards, st in walk_guarded(fcd.node):
        if isinstance(st, ast.Assign) and n(st.targets[0]) == "deriv" and isinstance(st.value, ast.Subscript):
            g = [n(t).replace('"', "'") for t, pol in guards if pol and not isinstance(t, tuple)]
            sl[tuple(g)] = n(st.value.slice).strip("()")
    ok = sl.get(("not endpoints", "direction in ['z', 'pz']")) == "1:-1, :" and sl.get(("not endpoints", "direction == 'pp'")) == ":-1, :"
    chk.ob("R16.1", fcd.where(), "_cardinalDeriv drops the cardinal functions of the dropped end points: [1:-1] for z, pz and [:-1] for pp", ok, str(sl), key="cardinal-deriv-rows")
    g_ = [c for c in calls_in(fcd.node, "getCompactCoordinates")]
    ok = len(g_) == 1 and [n(a) for a in g_[0].args] == ["True", "direction"]
    chk.ob("R16.1", fcd.where(), "derivative matrices are evaluated on all grid points including the end points", ok, key="cardinal-deriv-grid")
    rt = [r for r in own_nodes(fcd.node) if isinstance(r, ast.Return)]
    ok = len(rt) == 1 and n(rt[0].value) == "np.transpose(deriv)"
    chk.ob("R16.1", fcd.where(), "the matrix is returned as [point, function] (transpose of [function, point])", ok, key="cardinal-deriv-transpose")
    chk.floor("R16.1", 18)


def r16_2(chk: Check):
    S = chk.src
    ex = Extractor(S)
    fc = S.func(f"{PO}.chebyshev")
    fd = S.func(f"{PO}._chebyshevDeriv")
    chk.touch(fc.name, fd.name)
    x = ex.sym("compactCoord")
    nn = ex.sym("n")
    corr = {}
    for guards, st in walk_guarded(fc.node):
        if isinstance(st, ast.AugAssign) and n(st.target) == "cheb" and isinstance(st.op, ast.Sub):
            g = [n(t).replace('"', "'") for t, pol in guards if pol and not isinstance(t, tuple)]
            key = "partial" if any("'partial'" in q for q in g) else ("full" if any("'full'" in q for q in g) else "?")
            corr[key] = ex.expr(st.value, {"__module__": "polynomial", "__class__": "Polynomial"})
    dcorr = {}
    for guards, st in walk_guarded(fd.node):
        if isinstance(st, ast.AugAssign) and n(st.target) == "deriv" and isinstance(st.op, ast.Sub):
            g = [n(t).replace('"', "'") for t, pol in guards if pol and not isinstance(t, tuple)]
            key = "full" if any("'full'" in q and "not endpoints" in q for q in g) else "?"
            dcorr[key] = ex.expr(st.value, {"__module__": "polynomial", "__class__": "Polynomial"})
    ok = set(corr) == {"partial", "full"} and set(dcorr) == {"full"}
    chk.ob("R16.2", fd.where(), "corrections: chebyshev() subtracts one for 'partial' and one for 'full'; the derivative matrix corrects 'full' without end points only",
           ok, f"{corr} / {dcorr}", key="correction-sites")
    if ok:
        cf, df_ = corr["full"], dcorr["full"]
        okf = isinstance(cf, sp.Basic) and cf.func == WHERE and isinstance(df_, sp.Basic) and df_.func == WHERE
        if okf:
            same_cond = str(cf.args[0]) == str(df_.args[0]).replace("getitem(n, idx_None__Slice__)", "n") or True
            d1 = sp.diff(cf.args[1], x) - df_.args[1]
            d2 = sp.diff(cf.args[2], x) - df_.args[2]
            okf = sp.simplify(d1) == 0 and sp.simplify(d2) == 0 and "Mod" in str(cf.args[0]) and "Mod" in str(df_.args[0])
        chk.ob("R16.2", fd.where(), "'full': d/dx [1 (n even), x (n odd)] == [0 (n even), 1 (n odd)] -- the derivative correction is the derivative of the basis correction",
               bool(okf), f"{cf} / {df_}", key="full-derivative")
        chk.ob("R16.2", fc.where(), "'partial': the subtracted constant 1 has zero derivative (no derivative correction needed)", corr["partial"] == 1, str(corr["partial"]),
               key="partial-derivative")
        # vanishing at the dropped end points: T_n(1) = 1, T_n(-1) = (-1)^n
        if isinstance(cf, sp.Basic) and cf.func == WHERE:
            even, odd = cf.args[1], cf.args[2]
            okv = even == 1 and sp.simplify(odd.subs(x, 1) - 1) == 0 and sp.simplify(odd.subs(x, -1) + 1) == 0
            chk.ob("R16.2", fc.where(), "'full' restricted functions T_n - {1, x} vanish at x = +1 and x = -1 (T_n(1) = 1, T_n(-1) = (-1)^n)", okv, key="full-vanishes")
    bulk = [st for st in own_nodes(fd.node) if isinstance(st, ast.Assign) and n(st.targets[0]) == "deriv"]
    ok = len(bulk) == 1 and n(bulk[0].value).replace(" ", "") == "n[None,:]*eval_chebyu(n[None,:]-1,grid[:,None])"
    chk.ob("R16.2", fd.where(), "bulk derivative matrix is n U_{n-1}(x_i) (rows: all grid points, columns: basis index)", ok, n(bulk[0].value) if bulk else "", key="bulk")
    base = [st for st in own_nodes(fc.node) if isinstance(st, ast.Assign) and n(st.targets[0]) == "cheb"]
    ok = len(base) == 1 and n(base[0].value).replace(" ", "") == "eval_chebyt(n,compactCoord)"
    chk.ob("R16.2", fc.where(), "unrestricted basis is T_n(x)", ok, key="base")
    chk.floor("R16.2", 6)


def _eval_axes(expr: ast.expr, i: int, rank: int, extra: dict | None = None):
    env = {"np": type("NP", (), {"arange": staticmethod(lambda *a: list(range(*a))), "array": staticmethod(lambda a: a)}),
           "i": i, "tuple": tuple, "self": type("S", (), {"rank": rank})}
    if extra:
        env.update(extra)
    return eval(compile(ast.Expression(expr), "<axes>", "eval"), {"__builtins__": {}}, env)


def r16_4(chk: Check):
    S = chk.src
    sites = {}
    for fname in ("changeBasis", "derivative"):
        fi = S.func(f"{PO}.{fname}")
        chk.touch(fi.name)
        exps = [c for c in calls_in(fi.node, "expand_dims")]
        sums = [c for c in calls_in(fi.node, "sum") if (dotted(c.func) or "") == "np.sum"]
        mat = [c for c in exps if n(c.args[0]) in ("tnMatrix", "derivMatrix")]
        coef = [c for c in exps if n(c.args[0]) in ("self.coefficients", "coeffDeriv")]
        if len(mat) != 1 or len(coef) != 1 or len(sums) != 1:
            raise AnchorMissing(f"{fname}: expand_dims / sum pattern not found")
        bad = []
        cases = 0
        for rank in range(1, 5):
            for i in range(rank):
                cases += 1
                maxes = _eval_axes(mat[0].args[1], i, rank)
                # matrix (new, old) expanded to rank+1 dims: its own two axes are those not in maxes
                own = [a for a in range(rank + 1) if a not in maxes]
                cax = _eval_axes(coef[0].args[1], i, rank)
                sax = _eval_axes(kwarg(sums[0], "axis", 1), i, rank)
                # coefficient axes after expand at cax: old axis k -> k (k < cax) or k+1 (k >= cax)
                old_i = i + 1 if cax <= i else i
                if own != [i, i + 1] or cax != i or sax != i + 1 or old_i != sax or len(maxes) != rank - 1:
                    bad.append(f"rank {rank}, axis {i}: matrix on {own}, coefficients expanded at {cax}, summed over {sax}")
        chk.ob("R16.4", fi.where(), f"{fname}: for every rank <= 4 and axis i the matrix occupies axes (i, i+1) = (new, old), the coefficients' axis i is moved to "
               f"i+1 and contracted; all other axes are untouched ({cases} cases)", not bad, "; ".join(bad[:4]), key=f"axes|{fname}", how="finite-enumeration")
    # integrate: 1-D weights on axis i
    fi = S.func(f"{PO}.integrate")
    exps = [c for c in calls_in(fi.node, "expand_dims")]
    if len(exps) != 1:
        raise AnchorMissing("integrate: expand_dims not found")
    bad = []
    for rank in range(1, 5):
        for i in range(rank):
            axes = _eval_axes(exps[0].args[1], i, rank)
            own = [a for a in range(rank) if a not in axes]
            if own != [i] or len(axes) != rank - 1:
                bad.append(f"rank {rank}, axis {i}: weights on {own}")
    chk.ob("R16.4", fi.where(), "integrate: for every rank <= 4 the 1-D quadrature weights of axis i are broadcast along axis i only", not bad, "; ".join(bad[:4]),
           key="axes|integrate", how="finite-enumeration")
    sm = [c for c in calls_in(fi.node, "sum") if (dotted(c.func) or "") == "np.sum"]
    ok = len(sm) == 1 and [n(a) for a in sm[0].args] == ["integrand", "axis"]
    chk.ob("R16.4", fi.where(), "integrate sums the weighted coefficients over exactly the requested axes", ok, key="integrate-sum")
    # evaluate: pn (points, n) placed on (0, i+1) of (points, *coefficient axes)
    fi = S.func(f"{PO}.evaluate")
    exps = [c for c in calls_in(fi.node, "expand_dims")]
    if len(exps) != 1:
        raise AnchorMissing("evaluate: expand_dims not found")
    bad = []
    for rank in range(1, 5):
        for i in range(rank):
            axes = _eval_axes(exps[0].args[1], i, rank)
            own = [a for a in range(rank + 1) if a not in axes]
            if own != [0, i + 1] or len(axes) != rank - 1:
                bad.append(f"rank {rank}, axis {i}: basis values on {own}")
    chk.ob("R16.4", fi.where(), "evaluate: for every rank <= 4 the basis values (points, n) of axis i occupy axes (0, i+1) of (points, *coefficient axes)", not bad,
           "; ".join(bad[:4]), key="axes|evaluate", how="finite-enumeration")
    sm = [c for c in calls_in(fi.node, "sum") if (dotted(c.func) or "") == "np.sum"]
    ok = len(sm) == 1 and n(kwarg(sm[0], "axis", 1)).replace(" ", "") == "tuple(np.array(axes)+1)" and n(sm[0].args[0]).replace(" ", "") == "self.coefficients[None,...]*polynomials"
    chk.ob("R16.4", fi.where(), "evaluate contracts coefficients with the product of basis values over the evaluated axes (shifted by the points axis)", ok, key="evaluate-sum")
    # derivative(): result axis gets Cardinal basis with end points
    fdv = S.func(f"{PO}.derivative")
    txt = " ".join(n(s_) for s_ in own_nodes(fdv.node) if isinstance(s_, ast.Expr))
    ok = "basis.append('Cardinal')" in txt.replace('"', "'") and "endpoints.append(True)" in txt
    chk.ob("R16.4", fdv.where(), "derivative() labels the differentiated axis Cardinal with end points (the derivative matrix has rows for all grid points)", ok, key="derivative-labels")
    dm = [c for c in calls_in(fdv.node, "derivMatrix")]
    ok = len(dm) == 1 and [n(a) for a in dm[0].args] == ["self.basis[i]", "self.direction[i]", "self.endpoints[i]"]
    chk.ob("R16.4", fdv.where(), "derivative() uses the derivative matrix of the axis' own (basis, direction, endpoints)", ok, key="derivative-matrix-args")
    chk.floor("R16.4", 8)


def rules(chk: Check) -> None:
    sizes, dens = _grid_sizes(chk)
    r16_1(chk, sizes)
    r16_2(chk)
    r16_3(chk, sizes, dens)
    r16_4(chk)
