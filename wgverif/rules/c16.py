"""C16 -- spectral polynomial calculus is exact on the polynomial space of the grid.

R16.1 index-range tables: for every (direction, endpoints) the basis-index ranges used by changeBasis, evaluate,
      _chebyshevMatrix, _chebyshevDeriv, _cardinalDeriv, _cardinalMatrix, _checkCoefficients agree with each other and
      with the point counts of the grid; same restriction label per direction
R16.2 restricted Chebyshev basis: the correction subtracted in the derivative matrix is the derivative of the correction
      subtracted in chebyshev(); the restricted functions vanish at the dropped end points; bulk derivative is n U_{n-1}
R16.3 Gauss-Lobatto nodes and quadrature: node denominators == weight denominators per direction; end-point halving; sqrt(1-x^2)
R16.4 axis algebra for every rank <= 4 and axis i: matrices land on (i, i+1), contraction removes the old axis, others untouched

How the code is recognised (spelling independent): every analysed function is *evaluated* by `_PolyEx`, a term extractor
specialised to one combination (direction, endpoints, basis) of the axis under consideration.  Tests on these three are decided,
so exactly the statements of that combination are executed; locals, temporaries, extracted private helpers, guard clauses /
if-elif chains and keyword arguments never appear in what the rules look at.  The rules read
  * the arguments of the public calls  self.chebyshev(x, n, restriction), self.cardinal(x, n, direction), np.identity(k),
    np.expand_dims(a, axes), np.sum(a, axis), self.derivMatrix(...), Polynomial(...), grid.getCompactCoordinates(ep, dir)
  * returned terms and the final values of attributes
and decode them algebraically (ARANGE(a, b) + k, SIZE(grid points), SETITEM(w, 0, w[0] / 2), ...).  Variables are identified by
their role (argument position of a public call, loop target that indexes self.direction / self.basis / self.endpoints), never
by name.

Loops over the axes execute one symbolic iteration; a comprehension over the axes (`zip(self.basis, flags)`, `range(self.rank)`,
`enumerate(<per-axis list>)`) is the same loop and yields a one-element list.  A conditional expression whose arms are not terms
(labels, truth values, lists) and an undecided comprehension filter are two-way branches of the enclosing statement (`_Split`);
a test on a value the current path has already branched on takes the same outcome (`_known`), so a per-axis flag tested in a loop
and again in a comprehension stays consistent.  list.append / insert / extend / `+=` and starred displays build python lists.
A `for` over cases that are written out in the code (a tuple / list display, also in a temporary or under zip / enumerate) is not a loop over
the axes: it is executed case by case as python does, with `break` / `continue` / `else` (`_literal_loop`), so it reads like the if / elif
chain or the copy-pasted blocks it stands for.
A look-up table is the if / elif chain it spells: a dict display / dict(k=v) with literal keys (in a local, or a module / class level constant)
is a value (`_Table`) that is indexed or `.get`-ed with the known label of the combination, the `.get` default being the else branch; an unknown
key leaves the value undecided.  `slice(a, b)` objects are the slices they denote; a slice [lo:hi] of an index range drops lo entries in
front and -hi at the end (ARANGE(a, b)[lo:hi] == ARANGE(a + lo, b + hi), `_range_slice`).  The boolean-mask update `A[:, mask] -= c` is
`A -= np.where(mask[None, :], c, 0)` with the mask broadcast along the axis it indexes (`_masked_update`).
The end-point padding of Grid.getCompactCoordinates is read from the *value* of the getter evaluated with endpoints = True (helpers looked through
with their parameters bound): every sequence construction -- displays and `+`, starred displays, list() / tuple(), np.concatenate / np.hstack /
np.append (a bare number is one element), np.insert in front / behind, np.r_, np.pad(.., constant_values=..), list.insert / append / extend /
`+=` -- evaluates to the python list [numbers.., SPLICE(stored nodes), numbers..] (`_joined`, `_inserted`, `_padded`); an array allocated with
np.empty / np.zeros and filled by `a[0] = lo; a[1:-1] = nodes; a[-1] = hi` is decoded to the same list when every slot is written (`_filled`).
"""
from __future__ import annotations

import ast
import itertools

import sympy as sp

from ..core import AnchorMissing, Check, Undecided, dotted, kwarg, own_nodes
from ..nf import Ctx
from ..terms import Extractor, Guard, Opaque, WHERE, _Ret

LEVEL = "other"
PO = "polynomial:Polynomial"
M, N = sp.symbols("M N", positive=True, integer=True)
DIRS = ("z", "pz", "pp")
GRID_ATTR = {"z": "self.chiValues", "pz": "self.rzValues", "pp": "self.rpValues"}
AXATTR = {"self.direction": "dir", "self.endpoints": "ep", "self.basis": "basis"}

ARANGE, GRIDPTS, SPLICE, SIZE, SETITEM, SUB, GETITEM, SHAPE, TRANSPOSE, BC, SETSLICE, ALLOC = (sp.Function(x) for x in (
    "ARANGE", "GRIDPTS", "SPLICE", "SIZE", "SETITEM", "SUB", "getitem", "SHAPE", "np.transpose", "BC", "SETSLICE", "ALLOC"))
AXIS = sp.Symbol("AXIS__", integer=True, nonnegative=True)
NP_SIG = {"expand_dims": ["a", "axis"], "sum": ["a", "axis"], "identity": ["n"], "eye": ["N"], "transpose": ["a"]}
PKG_RECORD = {"chebyshev", "cardinal", "changeBasis", "derivMatrix", "Polynomial"}


class _Loop:
    """outcome of a `break` / `continue`: ends the (symbolic or written-out) iteration of the loop body"""

    def __init__(self, brk: bool = False):
        self.brk = brk


class _Split(Exception):
    """an undecided two-way choice inside an expression (conditional expression with non-term arms, filter of a per-axis comprehension):
    the enclosing statement is executed once per outcome, exactly like an `if` statement with that test"""

    def __init__(self, test, term):
        super().__init__("split")
        self.test, self.term = test, term


class _Table:
    """the value of a dict display / dict(k=v, ...) whose keys are literals: {decoded key (see _PolyEx._lit): value}.  A look-up table that spells
    an if / elif chain on a label: `{"z": a, "pz": b}.get(d, c)` is `a if d == "z" else b if d == "pz" else c`"""

    def __init__(self, items: dict):
        self.items = dict(items)


class _SliceVal:
    """the value of slice(lo, hi[, step]) (bounds: None or terms): `x[slice(1, -1)]` is `x[1:-1]`"""

    def __init__(self, lo, hi, step=None):
        self.bounds = (lo, hi, step)


def _fn(t, f) -> bool:
    return isinstance(t, sp.Basic) and getattr(t, "func", None) == f


def _named(t, name: str) -> bool:
    return isinstance(t, sp.core.function.AppliedUndef) and t.func.__name__ == name


# ---------------------------------------------------------------- the evaluator
class _PolyEx(Extractor):
    """Term extraction of one Polynomial / Grid method for one combination c = {dir, ep, basis} of the axis that is worked on.

    On top of terms.Extractor: string / None / boolean comparisons are decided; `self.direction[k]`, `self.endpoints[k]`,
    `self.basis[k]` evaluate to the combination; loops execute their body once (the loop target that indexes those attributes is
    the axis index: the symbol AXIS__ or the concrete integer `axis`); np.arange -> ARANGE(a, b) (a tuple of integers when the
    bounds are integers); grid.getCompactCoordinates(ep, dir) -> GRIDPTS(ep, k); list / concatenate spellings of a padded array ->
    python list with SPLICE(x) entries; x.size -> SIZE(x); a[k] = v -> SETITEM(a, k, v); non-trivial slices -> SUB(a, 'sl|lo:hi,..');
    list.append is modelled; the public calls listed in the module docstring are recorded with their bound arguments.
    Anything else that the extractor cannot express becomes a fresh symbol (the rules only accept what they can decode)."""

    # the private methods of the pinned tree are analysed on their own; any *other* private function of the two modules is an extracted
    # helper and is looked through (whatever its control flow: its tests on direction / endpoints / basis are decided here)
    PINNED_PRIVATE = {"_findContraction", "_cardinalMatrix", "_chebyshevMatrix", "_cardinalDeriv", "_chebyshevDeriv", "_checkBasis", "_checkDirection",
                      "_checkEndpoints", "_checkCoefficients", "_checkAxis", "_isBroadcastable", "_cacheCoordinates"}

    def __init__(self, source, c=None, rank=None, axis=None):
        def helper(name: str) -> bool:
            mod, qual = name.split(":")
            short = qual.split(".")[-1]
            return mod in ("polynomial", "grid") and short.startswith("_") and not short.startswith("__") and short not in self.PINNED_PRIVATE

        super().__init__(source, inline=helper)
        self.c = c or {}
        self.rank, self.axis = rank, axis
        self.records: list = []      # (short name, [bound raw arguments])
        self.asserts: list = []      # terms of executed assert tests
        self.idx: set = set()        # index expressions used on self.direction / self.endpoints / self.basis
        self.axis_names: set = set()  # loop targets playing the axis index
        self._k = 0
        self._sigs: dict = {}
        self._forced: dict = {}      # id(test node) -> outcome chosen for it while a statement is re-executed per outcome (see _Split)
        self._nosplit = 0            # > 0 while the elements of a concrete multi-element comprehension are evaluated
        self._guards: list = []      # guards of the path the statement under evaluation lies on
        self._fstack: list = []      # the functions under evaluation (innermost last)
        self._temps: dict = {}       # id(function node) -> (ids of its own statements, its single-assignment temporaries)

    # ---- small helpers
    def fresh(self, what="havoc"):
        self._k += 1
        return sp.Symbol(f"{what}{self._k}__", real=True)

    @staticmethod
    def _num(v):
        if v is sp.true or v is True:
            return sp.Integer(1)
        if v is sp.false or v is False:
            return sp.Integer(0)
        return v

    @staticmethod
    def _lit(v):
        """('s', text) | ('n',) | ('b', bool) | ('q', [..]) for values whose comparison is decidable, else None"""
        if isinstance(v, Opaque):
            return ("s", v.text)
        if v is None:
            return ("n",)
        if v is sp.true or v is sp.false or isinstance(v, bool):
            return ("b", bool(v))
        if isinstance(v, sp.Basic) and v.is_number and v.is_real:
            return ("i", sp.nsimplify(v))
        if isinstance(v, (list, tuple)):
            items = [_PolyEx._lit(x) for x in v]
            return ("q", items) if all(i is not None and i[0] != "q" for i in items) else None
        if isinstance(v, _Table):
            return ("q", list(v.items))      # `key in table` asks for the keys
        return None

    # ---- look-up tables: dict displays with literal keys, indexed / .get-ed by a known label
    def _table(self, keys, values, env, depth):
        """_Table of the (key node | str, value node) pairs when every key is a literal label / number / None / truth value, else None"""
        items = {}
        for k, v in zip(keys, values):
            if k is None:
                return None          # {**other}: not a written-out table
            kk = ("s", k) if isinstance(k, str) else self._lit(self.expr(k, env, depth))
            if kk is None or kk[0] == "q":
                return None
            try:
                items[kk] = self.expr(v, env, depth)      # a later duplicate key wins, as in python
            except Undecided:
                items[kk] = self.fresh()
        return _Table(items)

    def _table_of(self, e, env, depth):
        """the _Table that the expression e denotes: a dict display, a local holding one, a module / class level constant display; else None"""
        d = dotted(e)
        if isinstance(e, ast.Dict) or (d is None and isinstance(e, (ast.Call, ast.IfExp))):
            try:
                v = self.expr(e, env, depth)      # a display, dict(z=.., pz=..), a choice between two tables
            except Undecided:
                return None
            return v if isinstance(v, _Table) else None
        if d is None:
            return None
        if d in env:
            return env[d] if isinstance(env[d], _Table) else None
        node, mod, cls = None, env.get("__module__"), env.get("__class__")
        parts = d.split(".")
        if len(parts) == 1 and mod in self.source.modules:
            node = self.source.modules[mod].globals.get(d)
        elif len(parts) == 2 and mod in self.source.modules:
            cname = cls if parts[0] in ("self", "cls") else parts[0]
            if cname in self.source.modules[mod].classes:
                for ci in self.source.mro(f"{mod}:{cname}"):
                    if parts[1] in ci.consts:
                        node = ci.consts[parts[1]]
                        break
        if isinstance(node, ast.Dict):
            v = self.expr(node, {"__module__": mod, "__class__": cls}, depth)      # a constant: evaluated in the scope it is written in
            return v if isinstance(v, _Table) else None
        return None

    def _lookup(self, tbl, key, default=None, strict=False):
        k = self._lit(key)
        if k is None or k[0] == "q":
            raise Undecided("look-up in a table with a key that is not known")
        if k in tbl.items:
            return tbl.items[k]
        if strict:
            raise Undecided("look-up of a key that the table does not have (KeyError)")
        return default

    def _combo(self, what):
        v = self.c.get(what)
        if what == "ep":
            return None if v is None else (sp.true if v else sp.false)
        return None if v is None else Opaque(v)

    def sig(self, short, d=None, env=None):
        """(parameter names without self, {name: default ast}) of the package callable `short` (`self.m` resolves in the current class)"""
        mod, cls = (env or {}).get("__module__"), (env or {}).get("__class__")
        key = (short, mod, cls) if d is not None and d.startswith("self.") and d.count(".") == 1 else (short, None, None)
        if key not in self._sigs:
            found = []
            if key[1] and key[2]:
                fi = self.source.method(f"{mod}:{cls}", short)
                found = [fi.node] if fi is not None else []
            else:
                for m in self.source.modules.values():
                    for q, fi in m.funcs.items():
                        if q.split(".")[-1] == short and fi.parent is None:
                            found.append(fi.node)
                    if short in m.classes and "__init__" in m.classes[short].methods:
                        found.append(m.classes[short].methods["__init__"].node)
            r = None
            if len(found) == 1:
                a = found[0].args
                names = [x.arg for x in a.args]
                dfl = dict(zip(names[len(names) - len(a.defaults):], a.defaults))
                if names and names[0] in ("self", "cls"):
                    names = names[1:]
                r = (names, dfl)
            self._sigs[key] = r
        return self._sigs[key]

    def bind(self, call, names, dfl, env, depth):
        """arguments of `call` in parameter order (keywords bound, constant defaults filled in); trailing missing ones dropped"""
        out = []
        for i, p in enumerate(names):
            a = kwarg(call, p, i)
            if a is None and p in dfl and isinstance(dfl[p], ast.Constant):
                a = dfl[p]
            if a is None:
                break
            out.append(self.expr(a, env, depth))
        return out

    # ---- statements
    def stmt(self, st, env, guards, depth):
        prev = self._guards
        self._guards = guards
        try:
            return self._stmt(st, env, guards, depth)
        except _Split as s:
            # a conditional expression is a two-way branch: run the statement once with each outcome
            key = id(s.test)
            if key in self._forced:
                raise Undecided("conditional expression: outcome not stable")
            out = []
            for pol in (True, False):
                self._forced[key] = pol
                try:
                    out += self.stmt(st, env, guards + [Guard(s.test, pol, s.term)], depth)
                finally:
                    self._forced.pop(key, None)
            return out
        finally:
            self._guards = prev

    @staticmethod
    def _positive(test):
        """(operand, flipped) of a test with its leading `not`s removed"""
        flip = False
        while isinstance(test, ast.UnaryOp) and isinstance(test.op, ast.Not):
            test, flip = test.operand, not flip
        return test, flip

    @staticmethod
    def _known(c, guards):
        """outcome of the undecided test value c when the current path already branched on the same value (the second loop over the axes asks
        `i in axis` again; a per-axis flag computed once is tested in a loop and in a comprehension): a value has one truth value per path"""
        if isinstance(c, sp.Basic):
            for g in guards:
                if isinstance(g.term, sp.Basic) and g.term == c:
                    return g.polarity
        return None

    def _choice(self, test, env, depth):
        """outcome of a two-way test inside an expression: decided / already branched on -> bool; otherwise the statement is split on it"""
        t, flip = self._positive(test)
        if id(t) in self._forced:
            return self._forced[id(t)] != flip
        c = self.cond(t, env, depth)
        if not isinstance(c, bool):
            c = self._known(c, self._guards)
        if isinstance(c, bool):
            return c != flip
        if self._nosplit:
            raise Undecided("undecided choice inside a multi-element comprehension")
        raise _Split(t, self.cond(t, env, depth))

    LIST_METHODS = ("append", "insert", "extend")

    def _list_method(self, v, env, depth):
        """the new value of a python-list local after `lst.append(x)` / `lst.insert(k, x)` / `lst.extend(seq)`, else None"""
        cur = list(env[v.func.value.id])
        attr = v.func.attr

        def item(a):
            try:
                return self.expr(a, env, depth)
            except Undecided:
                return self.fresh()
        if attr == "append" and len(v.args) == 1:
            return cur + [item(v.args[0])]
        if attr == "insert" and len(v.args) == 2:
            k = self._const_index(v.args[0], env)
            if k is None:
                return None
            x = item(v.args[1])
            k = max(0, len(cur) + k) if k < 0 else min(k, len(cur))
            return cur[:k] + [x] + cur[k:]
        if attr == "extend" and len(v.args) == 1:
            x = item(v.args[0])
            if isinstance(x, (list, tuple)):
                return cur + list(x)
            if isinstance(x, sp.Basic):
                return cur + [SPLICE(x)]
        return None

    # ---- a padded array written as a sequence construction: python list of elements (numbers) and SPLICE(array) entries.
    # Every spelling of "these values, then that array, then those values" evaluates to the same list, so the rules that read the
    # padding (which ends, which values) never see whether it was written with displays and `+`, np.concatenate / np.hstack / np.append,
    # np.insert, np.r_, np.pad or list.insert / list.append, in the getter or in a helper called by it.
    @staticmethod
    def _is_scalar(p) -> bool:
        return isinstance(p, sp.Basic) and not isinstance(p, sp.logic.boolalg.BooleanAtom) and bool(p.is_number)

    def _joined(self, parts):
        """the 1-d sequence made of the parts one after the other: a python sequence contributes its entries, a number one element (np.append /
        np.hstack / np.r_ take bare scalars; np.append(a, c) is canonicalised to np.concatenate((a, c))), any other term is an array"""
        out = []
        for p in parts:
            if isinstance(p, (list, tuple)):
                out.extend(p)
            elif self._is_scalar(p):
                out.append(p)
            elif _named(p, "tuple") and len(p.args) == 1 and not self._is_scalar(p.args[0]):
                out.append(SPLICE(p.args[0]))      # tuple(array): the entries of the array
            elif isinstance(p, sp.Basic):
                out.append(SPLICE(p))
            else:
                raise Undecided("concatenation of a non-term")
        return out

    def _inserted(self, arr, obj, values):
        """np.insert(arr, obj, values) for a 1-d arr: `values` in front (obj == 0) or behind (obj == len(arr) / arr.size / arr.shape[0]);
        None for every other position"""
        obj = self._num(obj) if not isinstance(obj, (list, tuple)) else obj
        if isinstance(obj, (list, tuple)) and len(obj) == 1:
            obj = self._num(obj[0])
        if obj == sp.Integer(0) and isinstance(obj, sp.Integer):
            return self._joined([values, arr])
        if isinstance(arr, sp.Basic) and not self._is_scalar(arr) and isinstance(obj, sp.Basic) and \
                obj in (SIZE(arr), sp.Function("len")(arr), GETITEM(SHAPE(arr), sp.Integer(0))):
            return self._joined([arr, values])
        if isinstance(arr, (list, tuple)) and isinstance(obj, sp.Integer) and 0 <= int(obj) <= len(arr) and not any(_fn(x, SPLICE) for x in arr[:int(obj)]):
            return self._joined([list(arr[:int(obj)]), values, list(arr[int(obj):])])
        return None

    def _padded(self, n, env, depth):
        """np.pad(array, (before, after), constant_values=c | (c0, c1)) with the default mode "constant" on a 1-d array; None otherwise"""
        a, w = kwarg(n, "array", 0), kwarg(n, "pad_width", 1)
        mode = kwarg(n, "mode", 2)
        if a is None or w is None or (mode is not None and not (isinstance(mode, ast.Constant) and mode.value == "constant")):
            return None
        if any(k.arg not in ("array", "pad_width", "mode", "constant_values") for k in n.keywords) or len(n.args) > 3:
            return None
        arr, width = self.expr(a, env, depth), self.expr(w, env, depth)
        cv = kwarg(n, "constant_values")      # keyword only (np.pad(array, pad_width, mode, **kwargs))
        val = self.expr(cv, env, depth) if cv is not None else sp.Integer(0)

        def pair(x):
            if isinstance(x, (list, tuple)) and len(x) == 1:
                x = x[0]                        # ((before, after),)
            if isinstance(x, (list, tuple)):
                return tuple(self._num(y) for y in x) if len(x) == 2 else None
            return (self._num(x), self._num(x))
        width, val = pair(width), pair(val)
        if width is None or val is None or not all(isinstance(k, sp.Integer) and 0 <= int(k) <= 8 for k in width) or not all(self._is_scalar(c) for c in val):
            return None
        return self._joined([[val[0]] * int(width[0]), arr, [val[1]] * int(width[1])])

    def _stmt(self, st, env, guards, depth):
        if isinstance(st, ast.If):
            t, flip = self._positive(st.test)
            c = self.cond(t, env, depth)
            if not isinstance(c, bool) and self._known(c, guards) is not None:
                c = self._known(c, guards)
            if isinstance(c, bool):
                return self.block(st.body if c != flip else st.orelse, env, guards, depth)
            if isinstance(c, sp.Basic):
                # undecided: both branches; the guard remembers the value tested (without the `not`s) so that a later test of it agrees
                return self.block(st.body, env, guards + [Guard(t, not flip, c)], depth) + self.block(st.orelse, env, guards + [Guard(t, flip, c)], depth)
        if isinstance(st, ast.For):
            done = self._literal_loop(st, env, guards, depth)
            if done is not None:
                return done
        if isinstance(st, (ast.For, ast.AsyncFor, ast.While)):
            env = dict(env)
            self._rebind_closures(env)
            if not isinstance(st, ast.While):
                self._bind_iter(st.target, st.iter, st, env, depth)
            out = []
            for e, g, o in self.block(st.body, env, guards, depth):
                out.append((e, g, None if isinstance(o, _Loop) else o))
            return out
        if isinstance(st, (ast.Break, ast.Continue)):
            return [(env, guards, _Loop(isinstance(st, ast.Break)))]
        if isinstance(st, ast.Assert):
            try:
                self.asserts.append(self.expr(st.test, env, depth))
            except Undecided:
                pass
            return [(env, guards, None)]
        if isinstance(st, ast.Expr):
            v = st.value
            if (isinstance(v, ast.Call) and isinstance(v.func, ast.Attribute) and v.func.attr in self.LIST_METHODS and isinstance(v.func.value, ast.Name)
                    and isinstance(env.get(v.func.value.id), list) and not v.keywords):
                env = dict(env)
                self._rebind_closures(env)
                new = self._list_method(v, env, depth)
                env[v.func.value.id] = new if new is not None else self.fresh()
                return [(env, guards, None)]
            if (isinstance(v, ast.Call) and isinstance(v.func, ast.Attribute) and isinstance(v.func.value, ast.Name) and isinstance(env.get(v.func.value.id), _Table)
                    and v.func.attr not in ("get", "keys", "values", "items", "copy")):
                env = dict(env)          # tbl.update(..) / pop / setdefault / clear: no longer the table that was written out
                self._rebind_closures(env)
                env[v.func.value.id] = self.fresh()
                return [(env, guards, None)]
            try:
                if isinstance(v, ast.Call) and self._effect_callee(v, env) is not None:
                    return super().stmt(st, env, guards, depth)
                self.expr(v, env, depth)
            except Undecided:
                pass
            return [(env, guards, None)]
        if isinstance(st, ast.AugAssign) and isinstance(st.target, ast.Subscript):
            try:
                new = self._masked_update(st, env, depth)
            except Undecided:
                new = None
            if new is not None:
                env = dict(env)
                self._rebind_closures(env)
                env[dotted(st.target.value)] = new
                return [(env, guards, None)]
        try:
            return super().stmt(st, env, guards, depth)
        except Undecided:
            if isinstance(st, ast.Return):
                return [(env, guards, _Ret(self.fresh()))]
            env = dict(env)
            self._rebind_closures(env)
            tg = st.targets if isinstance(st, ast.Assign) else ([st.target] if isinstance(st, (ast.AnnAssign, ast.AugAssign)) else [])
            for t in tg:
                for x in ([t] if not isinstance(t, (ast.Tuple, ast.List)) else t.elts):
                    while isinstance(x, (ast.Subscript, ast.Starred)):
                        x = x.value
                    d = dotted(x)
                    if d is not None:
                        env[d] = self.fresh()
            return [(env, guards, None)]

    # ---- `A[:, mask] -= c`: the boolean-mask spelling of `A -= np.where(mask[None, :], c, 0)`
    RELATIONS = {"EQ": "NE", "NE": "EQ", "LT": "GE", "GE": "LT", "GT": "LE", "LE": "GT"}

    def _masked_update(self, st, env, depth):
        """new value of the array A after `A[:, .., mask] op= c` / `A[..., mask] op= c` (op: + - * /) with a boolean mask (a comparison of a 1-d
        term) and a number c: the columns where the mask holds are updated, i.e. `A op= np.where(M, c, neutral)` with the mask M broadcast along
        the axis it indexes.  The number of axes of A is read from the broadcasting subscripts it was built from (n[None, :] * f(x[:, None]) has
        two); None when anything is not of this form (the statement is then handled as any other subscript store)"""
        d = dotted(st.target.value)
        cur = env.get(d) if d is not None else None
        if not isinstance(cur, sp.Basic) or not isinstance(st.op, (ast.Add, ast.Sub, ast.Mult, ast.Div)):
            return None
        sl = st.target.slice
        elts = list(sl.elts) if isinstance(sl, ast.Tuple) else [sl]
        lead, last = elts[:-1], elts[-1]
        ellipsis = len(lead) == 1 and isinstance(lead[0], ast.Constant) and lead[0].value is Ellipsis
        if not ellipsis and not all(isinstance(e, ast.Slice) and self._is_bcast(e) for e in lead):
            return None
        if isinstance(last, (ast.Slice, ast.Constant)):
            return None
        mask = self.expr(last, env, depth)
        while _named(mask, "INVERT") and len(mask.args) == 1 and getattr(mask.args[0].func, "__name__", "") in self.RELATIONS:
            mask = sp.Function(self.RELATIONS[mask.args[0].func.__name__])(*mask.args[0].args)      # ~(a == b) is a != b
        if not (isinstance(mask, sp.Basic) and getattr(mask.func, "__name__", "") in self.RELATIONS and not mask.has(BC) and mask.has(ARANGE)):
            return None
        c = self._num(self.expr(st.value, env, depth))
        if not (isinstance(c, sp.Basic) and c.is_number):
            return None
        ranks = {len(b.args[1].name[3:].split(",")) for b in cur.atoms(sp.Function) if _fn(b, BC) and "..." not in b.args[1].name}
        if len(ranks) != 1:
            return None
        rank = next(iter(ranks))
        axis = rank - 1 if ellipsis else len(lead)
        if axis >= rank:
            return None
        m = BC(mask, sp.Symbol("bc|" + ",".join(":" if k == axis else "None" for k in range(rank)))) if rank > 1 else mask
        w = WHERE(m, c, sp.Integer(0 if isinstance(st.op, (ast.Add, ast.Sub)) else 1))
        return self.binop(st.op, cur, w)

    # ---- a `for` over cases that are written out: `for name, values in (("z", chi), ("pz", rz), ("pp", rp)):`
    MAX_CASES = 8

    def _temporaries(self, st) -> dict:
        """the single-assignment temporaries of the function under evaluation, when `st` is one of its own statements"""
        fi = self._fstack[-1] if self._fstack else None
        if fi is None:
            return {}
        if id(fi.node) not in self._temps:
            self._temps[id(fi.node)] = ({id(x) for x in own_nodes(fi.node)}, Ctx(self.source, fi).local_defs())
        own, defs = self._temps[id(fi.node)]
        return defs if id(st) in own else {}

    def _case_values(self, it, env, depth, defs):
        """the values a `for` statement iterates over when its cases are written out in the code: a tuple / list display (also held in a
        single-assignment temporary), zip(...) of such (equally long) or enumerate(...) of one; None for every other iterable"""
        if isinstance(it, (ast.Tuple, ast.List)):
            if any(isinstance(e, ast.Starred) for e in it.elts):
                return None
            return [self.expr(e, env, depth) for e in it.elts]
        if isinstance(it, ast.Name):
            d, v = defs.get(it.id), env.get(it.id)
            if isinstance(d, (ast.Tuple, ast.List)) and not any(isinstance(e, ast.Starred) for e in d.elts) and isinstance(v, (tuple, list)) and len(v) == len(d.elts):
                return list(v)
            return None
        if isinstance(it, ast.Call) and isinstance(it.func, ast.Name) and it.func.id not in env and not any(isinstance(a, ast.Starred) for a in it.args):
            if it.func.id == "zip" and it.args and all(k.arg == "strict" for k in it.keywords):
                cols = [self._case_values(a, env, depth, defs) for a in it.args]
                if any(c is None for c in cols) or len({len(c) for c in cols}) != 1:
                    return None
                return [tuple(row) for row in zip(*cols)]
            if it.func.id == "enumerate" and it.args and len(it.args) + len(it.keywords) <= 2 and all(k.arg == "start" for k in it.keywords):
                start = kwarg(it, "start", 1)
                first = sp.Integer(0) if start is None else self._num(self.expr(start, env, depth))
                col = self._case_values(it.args[0], env, depth, defs)
                if col is None or not isinstance(first, sp.Integer):
                    return None
                return [(first + i, v) for i, v in enumerate(col)]
        return None

    @staticmethod
    def _fits(target, v) -> bool:
        if isinstance(target, ast.Name):
            return True
        if isinstance(target, (ast.Tuple, ast.List)) and isinstance(v, (tuple, list)) and len(v) == len(target.elts):
            return all(_PolyEx._fits(t, x) for t, x in zip(target.elts, v))
        return False

    def _literal_loop(self, st, env, guards, depth):
        """A loop over written-out cases is executed case by case, exactly as python does (it is the copy-pasted blocks / the if-elif chain
        it replaces): the cases are evaluated once, the body runs for each with the targets bound, `continue` goes on with the next case, `break`
        leaves the loop and skips its `else`, `return` / `raise` end the path.  None when the iterable is anything else (then the loop runs over
        the axes, or over something unknown, and its body is executed once symbolically as before)."""
        try:
            vals = self._case_values(st.iter, env, depth, self._temporaries(st))
        except Undecided:
            return None
        if vals is None or len(vals) > self.MAX_CASES or not all(self._fits(st.target, v) for v in vals):
            return None
        live, out = [(env, guards)], []
        for v in vals:
            nxt = []
            for e, g in live:
                e = dict(e)
                self._rebind_closures(e)
                self.assign(st.target, v, e)
                for e2, g2, o in self.block(st.body, e, g, depth):
                    if o is None or (isinstance(o, _Loop) and not o.brk):
                        nxt.append((e2, g2))
                    else:
                        out.append((e2, g2, None if isinstance(o, _Loop) else o))
            live = nxt
            if len(live) + len(out) > 256:
                raise Undecided("path explosion in a loop over literal cases")
        for e, g in live:
            out += self.block(st.orelse, e, g, depth) if st.orelse else [(e, g, None)]
        return out

    def _bind_iter(self, target, iterable, scope, env, depth) -> bool:
        """bind the targets of `for target in iterable` (a loop statement or the generator of a comprehension; `scope` is the loop /
        comprehension node) for the single symbolic iteration; True when the iteration runs over the axes of the polynomial"""
        tnames = [t.id for t in ast.walk(target) if isinstance(t, ast.Name)]
        used = {x.slice.id for x in ast.walk(scope) if isinstance(x, ast.Subscript) and dotted(x.value) in AXATTR and isinstance(x.slice, ast.Name)}
        ax = [t for t in tnames if t in used]
        bound: dict = {}        # targets drawing from a per-axis sequence: zip(self.basis, self.direction, ...) / enumerate(x.shape)
        counters: list = []     # enumerate counters over per-axis sequences

        def element(seq):
            """the element of the current axis of a per-axis python list (built by an earlier loop / comprehension over the axes)"""
            if len(seq) == 1:
                return seq[0]
            if self.rank is not None and self.axis is not None and len(seq) == self.rank:
                return seq[self.axis]
            return None

        def pair(tgt, it) -> bool:
            """bind the loop target `tgt` to what it draws from `it`; True when `it` is a per-axis sequence"""
            name = dotted(it.func) if isinstance(it, ast.Call) else None
            if name == "enumerate" and len(it.args) == 1 and isinstance(tgt, ast.Tuple) and len(tgt.elts) == 2:
                per_axis = pair(tgt.elts[1], it.args[0])
                if per_axis and isinstance(tgt.elts[0], ast.Name):
                    counters.append(tgt.elts[0].id)
                return per_axis
            if name == "zip" and isinstance(tgt, ast.Tuple) and len(tgt.elts) == len(it.args):
                return any([pair(t_, a_) for t_, a_ in zip(tgt.elts, it.args)])
            if name == "range" and len(it.args) == 1 and dotted(it.args[0]) == "self.rank" and isinstance(tgt, ast.Name):
                counters.append(tgt.id)      # `for i in range(self.rank)`: the index over the axes
                return True
            if isinstance(tgt, ast.Name) and dotted(it) in AXATTR and self._combo(AXATTR[dotted(it)]) is not None:
                bound[tgt.id] = self._combo(AXATTR[dotted(it)])
                return True
            if isinstance(tgt, ast.Name) and isinstance(it, ast.Attribute) and it.attr == "shape":
                bound[tgt.id] = ("shape", it)
                return True
            if isinstance(tgt, ast.Name) and isinstance(it, ast.Name) and isinstance(env.get(it.id), list) and element(env[it.id]) is not None:
                bound[tgt.id] = ("value", element(env[it.id]))      # a per-axis list computed before (one entry per symbolic axis)
                return True
            return False

        per_axis = pair(target, iterable)
        if not ax:
            ax = counters[:1]
        self.axis_names.update(ax)
        for t in tnames:
            if len(ax) == 1 and t == ax[0]:
                env[t] = sp.Integer(self.axis) if self.axis is not None else AXIS
            else:
                env[t] = self.fresh("elem")
        for t, v in bound.items():
            if isinstance(v, tuple) and v[0] == "value":
                env[t] = v[1]
            elif isinstance(v, tuple):
                # an element of <x>.shape is the length of the axis
                try:
                    env[t] = GETITEM(self.expr(v[1], env, depth), env[ax[0]] if len(ax) == 1 else AXIS)
                except Undecided:
                    pass
            else:
                env[t] = v
        return bool(per_axis or ax)

    def comprehension(self, n, env, depth):
        """a comprehension over a concrete tuple of integers (axis bookkeeping of the rank <= 4 enumeration) is evaluated"""
        if len(n.generators) == 1 and not isinstance(n, ast.DictComp) and isinstance(n.generators[0].target, ast.Name):
            g = n.generators[0]
            try:
                seq = self.expr(g.iter, env, depth)
            except Undecided:
                seq = None
            if isinstance(seq, (tuple, list)) and all(isinstance(x, sp.Integer) for x in seq):
                out = []
                self._nosplit += len(seq) != 1
                try:
                    for x in seq:
                        e2 = dict(env)
                        e2[g.target.id] = x
                        conds = [self.cond(c, e2, depth) for c in g.ifs]
                        if not all(isinstance(c, bool) for c in conds):
                            return super().comprehension(n, env, depth)
                        if all(conds):
                            out.append(self.expr(n.elt, e2, depth))
                finally:
                    self._nosplit -= len(seq) != 1
                return out
        if len(n.generators) == 1 and not isinstance(n, ast.DictComp):
            # a comprehension over the axes (zip(self.basis, ...), range(self.rank), enumerate(<per-axis list>), target indexing self.direction ...)
            # is the loop `out = []; for ...: if filters: out.append(elt)`: one symbolic iteration, like the for statement
            g = n.generators[0]
            e2 = dict(env)
            if self._bind_iter(g.target, g.iter, n, e2, depth):
                if not all(self._choice(c, e2, depth) for c in g.ifs):
                    return []
                return [self.expr(n.elt, e2, depth)]
        return super().comprehension(n, env, depth)

    def assign(self, target, v, env):
        if isinstance(target, ast.Subscript):
            d = dotted(target.value)
            if d is not None and isinstance(env.get(d), _Table):
                try:
                    k = self._lit(self.expr(target.slice, env))
                except Undecided:
                    k = None
                env[d] = _Table({**env[d].items, k: v}) if k is not None and k[0] != "q" else self.fresh()
                return
            if d is not None:
                idx = self._const_index(target.slice, env)
                if isinstance(env.get(d), sp.Basic) and isinstance(v, sp.Basic) and idx is not None:
                    env[d] = SETITEM(env[d], sp.Integer(idx), v)
                elif isinstance(env.get(d), sp.Basic) and isinstance(v, sp.Basic) and self._store_bounds(target.slice, env) is not None:
                    lo, hi = self._store_bounds(target.slice, env)      # a[lo:hi] = v: part of an array that is filled slot by slot
                    env[d] = SETSLICE(env[d], sp.Integer(lo), sp.Integer(hi), v)
                elif not (isinstance(env.get(d), list) and idx is not None):
                    env[d] = self.fresh()
                else:
                    super().assign(target, v, env)
                return
        super().assign(target, v, env)

    def _store_bounds(self, sl, env):
        """(lo, hi) of the target slice of a store `a[lo:hi] = v` with integer bounds: lo >= 0 entries skipped in front, -hi >= 0 entries left at the
        end (a missing bound is 0); None for every other subscript"""
        if not isinstance(sl, ast.Slice) or (sl.step is not None and not (isinstance(sl.step, ast.Constant) and sl.step.value == 1)):
            return None
        lo, hi = [sp.Integer(0) if b is None else self._num(self._bound(b, env, 0)) for b in (sl.lower, sl.upper)]
        if not (isinstance(lo, sp.Integer) and isinstance(hi, sp.Integer) and lo >= 0 and (hi < 0 or sl.upper is None)):
            return None
        return int(lo), int(hi)

    # ---- expressions
    def expr(self, n, env, depth=0):
        if isinstance(n, ast.IfExp):
            t, flip = self._positive(n.test)
            c = self._forced[id(t)] if id(t) in self._forced else self.cond(t, env, depth)
            if not isinstance(c, bool):
                c = self._known(c, self._guards)
            if isinstance(c, bool):
                return self.expr(n.body if c != flip else n.orelse, env, depth)
            a, b = self.expr(n.body, env, depth), self.expr(n.orelse, env, depth)
            if _same(a, b):
                return a
            if all(isinstance(x, sp.Basic) and not isinstance(x, sp.logic.boolalg.BooleanAtom) for x in (a, b)):
                return super().expr(n, env, depth)      # arms that are terms: ITE(test, a, b)
            # arms that are not terms (labels, truth values, lists, None): a two-way branch of the enclosing statement
            return a if self._choice(n.test, env, depth) else b
        if isinstance(n, (ast.List, ast.Tuple)) and any(isinstance(e, ast.Starred) for e in n.elts):
            # [a, *xs, b]: the display with xs spliced in (a python sequence is spliced element-wise, an array as SPLICE(xs))
            out = []
            for e in n.elts:
                if isinstance(e, ast.Starred):
                    v = self.expr(e.value, env, depth)
                    if isinstance(v, (list, tuple)):
                        out.extend(v)
                    elif isinstance(v, sp.Basic):
                        out.append(SPLICE(v))
                    else:
                        raise Undecided("starred non-term in a display")
                else:
                    out.append(self.expr(e, env, depth))
            return tuple(out) if isinstance(n, ast.Tuple) else out
        if isinstance(n, ast.Dict):
            try:
                t = self._table(n.keys, n.values, env, depth)
            except Undecided:
                t = None          # a key that cannot be evaluated: not a written-out table
            if t is not None:
                return t
        if isinstance(n, ast.Attribute):
            d, base = dotted(n), dotted(n.value)
            if d is not None and d not in env and base is not None and base in env and base not in ("self", "cls", "np", "numpy"):
                return self._attr(env[base], n.attr, n)
            if d is None and n.attr in ("size", "shape", "T", "ndim"):
                return self._attr(self.expr(n.value, env, depth), n.attr, n)
        if isinstance(n, ast.BoolOp):
            vals = [self.cond(v, env, depth) for v in n.values]
            stop = isinstance(n.op, ast.Or)
            if any(v is stop for v in vals):
                return sp.true if stop else sp.false
            if all(isinstance(v, bool) for v in vals):
                return sp.false if stop else sp.true
        return super().expr(n, env, depth)

    def _attr(self, v, attr, node):
        if attr == "real":
            return v
        if isinstance(v, (list, tuple)) and attr == "size" and all(isinstance(x, sp.Basic) for x in v):
            return SIZE(sp.Tuple(*v))
        if not isinstance(v, sp.Basic):
            raise Undecided(f"attribute {attr} of a non-term")
        if attr == "size":
            return SIZE(v)
        if attr == "shape":
            return SHAPE(v)
        if attr == "T":
            return TRANSPOSE(v)
        return sp.Function(f"attr_{attr}")(v)

    def cond(self, test, env, depth):
        # `<expression> is None` / `is not None` on a value that is known (a literal bound to a helper's parameter, a list, a label):
        # terms.Extractor decides this for names only
        if (isinstance(test, ast.Compare) and len(test.ops) == 1 and isinstance(test.ops[0], (ast.Is, ast.IsNot)) and isinstance(test.comparators[0], ast.Constant)
                and test.comparators[0].value is None and dotted(test.left) is None):
            try:
                v = self.expr(test.left, env, depth)
                known = v is None or isinstance(v, (list, tuple, Opaque)) or (isinstance(v, sp.Basic) and (v.is_number or isinstance(v, sp.logic.boolalg.BooleanAtom)))
            except Undecided:
                v, known = None, False
            if known:
                return (v is None) == isinstance(test.ops[0], ast.Is)
        return super().cond(test, env, depth)

    def binop(self, op, a, b):
        a, b = self._num(a), self._num(b)
        if isinstance(op, ast.Add):
            # (lo,) + tuple(xs) + (hi,): tuple(array) is the tuple of the array's entries
            if isinstance(a, tuple) and _named(b, "tuple") and len(b.args) == 1 and not self._is_scalar(b.args[0]):
                b = (SPLICE(b.args[0]),)
            elif isinstance(b, tuple) and _named(a, "tuple") and len(a.args) == 1 and not self._is_scalar(a.args[0]):
                a = (SPLICE(a.args[0]),)
        try:
            return super().binop(op, a, b)
        except (TypeError, ValueError, AttributeError) as e:
            raise Undecided(f"arithmetic: {e}")

    def compare(self, n, env, depth):
        if len(n.ops) == 1 and isinstance(n.ops[0], (ast.Eq, ast.NotEq, ast.In, ast.NotIn)):
            try:
                a, b = self._lit(self.expr(n.left, env, depth)), self._lit(self.expr(n.comparators[0], env, depth))
            except Undecided:
                a = b = None
            if a is not None and b is not None:
                op = n.ops[0]
                if isinstance(op, (ast.Eq, ast.NotEq)) and a[0] != "q" and b[0] != "q":
                    return sp.true if (a == b) == isinstance(op, ast.Eq) else sp.false
                if isinstance(op, (ast.In, ast.NotIn)) and a[0] != "q" and b[0] == "q":
                    return sp.true if (a in b[1]) == isinstance(op, ast.In) else sp.false
        return super().compare(n, env, depth)

    def subscript(self, n, env, depth):
        d = dotted(n.value)
        if d in AXATTR and d not in env and self._combo(AXATTR[d]) is not None:
            self.idx.add(" ".join(ast.unparse(n.slice).split()))
            return self._combo(AXATTR[d])
        if d in ("np.r_", "numpy.r_") and d not in env:
            # np.r_[a, xs, b]: the entries one after the other (no slice / string directives)
            parts = list(n.slice.elts) if isinstance(n.slice, ast.Tuple) else [n.slice]
            if not any(isinstance(e, (ast.Slice, ast.Starred)) or (isinstance(e, ast.Constant) and not isinstance(e.value, (int, float))) for e in parts):
                return self._joined([self.expr(e, env, depth) for e in parts])
        tbl = self._table_of(n.value, env, depth)
        if tbl is not None:
            return self._lookup(tbl, self.expr(n.slice, env, depth), strict=True)
        sl = n.slice
        elts = [self._written_slice(e, env, depth) for e in (sl.elts if isinstance(sl, ast.Tuple) else [sl])]
        if len(elts) == 1 and isinstance(elts[0], ast.Slice) and not self._is_bcast(elts[0]):
            r = self._range_slice(self.expr(n.value, env, depth), elts[0], env, depth)
            if r is not None:
                return r
        if all(self._is_bcast(e) for e in elts):
            # pure broadcasting subscript: the value with its orientation, e.g. BC(x, 'bc|:,None') (dropped again where only the value matters)
            v = self.expr(n.value, env, depth)
            if not isinstance(v, sp.Basic) or all(isinstance(e, ast.Slice) for e in elts):
                return v
            pat = ",".join(":" if isinstance(e, ast.Slice) else ("..." if isinstance(e, ast.Constant) and e.value is Ellipsis else "None") for e in elts)
            return BC(v, sp.Symbol("bc|" + pat))
        if any(isinstance(e, ast.Slice) and (e.lower is not None or e.upper is not None or e.step is not None) for e in elts):
            v = self.expr(n.value, env, depth)
            if isinstance(v, sp.Basic):
                while elts and self._is_bcast(elts[-1]) and isinstance(elts[-1], ast.Slice):
                    elts.pop()          # trailing `:` entries select everything
                parts = []
                for e in elts:
                    if isinstance(e, ast.Slice):
                        parts.append(":".join("" if b is None else str(self._bound(b, env, depth)) for b in ((e.lower, e.upper) + ((e.step,) if e.step is not None else ()))))
                    else:
                        parts.append("None" if (isinstance(e, ast.Constant) and e.value is None) else str(self._bound(e, env, depth)))
                return SUB(v, sp.Symbol("sl|" + ",".join(parts)))
        return super().subscript(n, env, depth)

    def _written_slice(self, e, env, depth):
        """the index entry e as it would be written: a slice object with integer bounds (`slice(1, -1)`, also held in a local or taken from a
        look-up table) is the slice `1:-1`"""
        if isinstance(e, (ast.Name, ast.Call, ast.Subscript, ast.IfExp)):
            try:
                v = self.expr(e, env, depth)
            except Undecided:
                return e
            if isinstance(v, _SliceVal) and all(b is None or isinstance(b, sp.Integer) for b in v.bounds):
                lo, hi, step = [None if b is None else (ast.Constant(value=int(b)) if b >= 0 else ast.UnaryOp(op=ast.USub(), operand=ast.Constant(value=-int(b))))
                                for b in v.bounds]
                return ast.fix_missing_locations(ast.copy_location(ast.Slice(lower=lo, upper=hi, step=step), e))
        return e

    SIZE_NAMES = ("self.grid.M", "self.grid.N", "self.M", "self.N", "M", "N")

    def _range_slice(self, v, s, env, depth):
        """v[lo:hi] for an index range v = f(ARANGE(a, b)) whose other operands are scalars (numbers, the grid sizes, sizes of arrays), lo >= 0 a
        number of entries dropped in front and hi < 0 a number dropped at the end: slicing commutes with element-wise arithmetic, and
        ARANGE(a, b)[lo:hi] == ARANGE(a + lo, b + hi) (both empty when fewer entries exist than are dropped).  None for anything else"""
        if s.step is not None and not (isinstance(s.step, ast.Constant) and s.step.value == 1):
            return None
        lo, hi = [None if b is None else self._num(self._bound(b, env, depth)) for b in (s.lower, s.upper)]
        lo = sp.Integer(0) if lo is None else lo
        hi = sp.Integer(0) if hi is None else hi
        if not (isinstance(lo, sp.Integer) and isinstance(hi, sp.Integer) and lo >= 0 and (hi < 0 or s.upper is None)):
            return None
        if isinstance(v, tuple) and all(isinstance(x, sp.Integer) for x in v):
            return v[int(lo):(int(hi) if s.upper is not None else None)]
        if not isinstance(v, sp.Basic):
            return None
        ar = [a for a in v.atoms(sp.Function) if _fn(a, ARANGE)]
        if len(ar) != 1:
            return None
        dummy = sp.Dummy("range")
        rest = v.xreplace({ar[0]: dummy})
        rest = rest.xreplace({a: sp.Dummy("size") for a in rest.atoms(sp.Function) if _fn(a, SIZE)})
        if rest.atoms(sp.Function) or any(x.name not in self.SIZE_NAMES for x in rest.free_symbols if not isinstance(x, sp.Dummy)):
            return None
        a, b = ar[0].args
        return v.xreplace({ar[0]: ARANGE(a + lo, b + hi)})

    def _const_index(self, sl, env):
        """also a name that holds a concrete integer: the counter of `enumerate(<written-out cases>)`"""
        k = super()._const_index(sl, env)
        if k is None and isinstance(sl, ast.Name) and isinstance(env.get(sl.id), sp.Integer) and sl.id not in self.axis_names:
            return int(env[sl.id])
        return k

    def _bound(self, e, env, depth):
        try:
            return self.expr(e, env, depth)
        except Undecided:
            return " ".join(ast.unparse(e).split())

    def call(self, n, env, depth):
        d = dotted(n.func)
        if isinstance(n.func, ast.Attribute) and n.func.attr == "get" and 1 <= len(n.args) <= 2 and not n.keywords:
            tbl = self._table_of(n.func.value, env, depth)
            if tbl is not None:
                return self._lookup(tbl, self.expr(n.args[0], env, depth), self.expr(n.args[1], env, depth) if len(n.args) == 2 else None)
        if d == "slice" and d not in env and 1 <= len(n.args) <= 3 and not n.keywords:
            b = [self.expr(a, env, depth) for a in n.args]
            b = [None if x is None else self._num(x) for x in b]
            return _SliceVal(*((None, b[0]) if len(b) == 1 else b))
        if d == "dict" and d not in env and not n.args and n.keywords:
            t = self._table([k.arg for k in n.keywords], [k.value for k in n.keywords], env, depth)
            if t is not None:
                return t
        if d is not None and d not in env:
            parts = d.split(".")
            short, isnp = parts[-1], parts[0] in ("np", "numpy")
            if ((isnp and short == "arange") or d == "range") and not any(k.arg not in ("start", "stop") for k in n.keywords):
                pos = [self.expr(a, env, depth) for a in n.args]
                kw = {k.arg: self.expr(k.value, env, depth) for k in n.keywords}
                lo = hi = None
                if len(pos) == 1 and not kw:
                    lo, hi = sp.Integer(0), pos[0]
                elif len(pos) == 2 and not kw:
                    lo, hi = pos
                elif len(pos) == 1 and set(kw) == {"stop"}:
                    lo, hi = pos[0], kw["stop"]
                elif not pos and "stop" in kw:
                    lo, hi = kw.get("start", sp.Integer(0)), kw["stop"]
                if lo is not None:
                    lo, hi = self._num(lo), self._num(hi)
                    if isinstance(lo, sp.Integer) and isinstance(hi, sp.Integer):
                        return tuple(sp.Integer(k) for k in range(int(lo), int(hi)))
                    if isinstance(lo, sp.Basic) and isinstance(hi, sp.Basic):
                        return ARANGE(lo, hi)
            if isnp and short == "expand_dims" and len(n.args) + len(n.keywords) == 2:
                # np.expand_dims(v, 1) == v[:, None] and np.expand_dims(v, 0) == v[None, :] for a vector v (grid points, index range):
                # the same broadcasting wrapper as the subscript spelling, not a contraction step
                ax = kwarg(n, "axis", 1)
                a0 = kwarg(n, "a", 0)
                if isinstance(ax, ast.Constant) and ax.value in (0, 1) and a0 is not None:
                    v = self.expr(a0, env, depth)
                    if isinstance(v, sp.Basic) and (_fn(v, GRIDPTS) or (v.has(ARANGE) and not v.has(BC) and not v.has(GRIDPTS))):
                        return BC(v, sp.Symbol("bc|:,None" if ax.value == 1 else "bc|None,:"))
            if short == "getCompactCoordinates" and len(parts) > 1 and self.sig(short):
                names, dfl = self.sig(short)
                a = self.bind(n, names, dfl, env, depth)
                self.records.append((short, a))
                if len(a) == 2:
                    ep, di = self._lit(a[0]), self._lit(a[1])
                    if ep is not None and ep[0] == "b" and di is not None:
                        if di[0] == "n":
                            return tuple(GRIDPTS(sp.Integer(int(ep[1])), sp.Integer(k)) for k in range(3))
                        if di[0] == "s" and di[1] in DIRS:
                            return GRIDPTS(sp.Integer(int(ep[1])), sp.Integer(DIRS.index(di[1])))
            if isnp and short in ("concatenate", "hstack") and n.args:
                ax = kwarg(n, "axis", 1) if short == "concatenate" else None
                if ax is None or (isinstance(ax, ast.Constant) and ax.value == 0):
                    seq = self.expr(n.args[0], env, depth)
                    if isinstance(seq, (list, tuple)):
                        return self._joined(seq)
            if isnp and short == "append" and kwarg(n, "arr", 0) is not None and kwarg(n, "values", 1) is not None:
                # np.append(arr=a, values=b) (the positional spelling is canonicalised to np.concatenate((a, b)))
                ax = kwarg(n, "axis", 2)
                if ax is None or (isinstance(ax, ast.Constant) and ax.value in (None, 0)):
                    return self._joined([self.expr(kwarg(n, "arr", 0), env, depth), self.expr(kwarg(n, "values", 1), env, depth)])
            if isnp and short == "insert" and kwarg(n, "arr", 0) is not None and kwarg(n, "obj", 1) is not None and kwarg(n, "values", 2) is not None:
                ax = kwarg(n, "axis", 3)
                if ax is None or (isinstance(ax, ast.Constant) and ax.value in (None, 0)):
                    r = self._inserted(*[self.expr(kwarg(n, p, i), env, depth) for i, p in enumerate(("arr", "obj", "values"))])
                    if r is not None:
                        return r
            if isnp and short == "pad":
                r = self._padded(n, env, depth)
                if r is not None:
                    return r
            if isnp and short in ("empty", "zeros") and kwarg(n, "shape", 0) is not None and all(k.arg in ("shape", "dtype") for k in n.keywords) and len(n.args) <= 2:
                # a 1-d array that is allocated first and filled slot by slot afterwards (its element type is not looked at)
                shape = self.expr(kwarg(n, "shape", 0), env, depth)
                if isinstance(shape, (tuple, list)) and len(shape) == 1:
                    shape = shape[0]
                shape = self._num(shape)
                if isinstance(shape, sp.Basic) and not isinstance(shape, sp.logic.boolalg.BooleanAtom):
                    return ALLOC(shape)
            if isnp and short == "full" and kwarg(n, "shape", 0) is not None and kwarg(n, "fill_value", 1) is not None:
                shape, val = self.expr(kwarg(n, "shape", 0), env, depth), self.expr(kwarg(n, "fill_value", 1), env, depth)
                if isinstance(shape, sp.Basic) and isinstance(val, sp.Basic):
                    return val * sp.Function("np.ones")(shape)
            if d == "len" and len(n.args) == 1 and not n.keywords:
                v = self.expr(n.args[0], env, depth)
                if _fn(v, GRIDPTS):
                    return SIZE(v)      # a 1-d array: its length is its size
            if d == "list" and len(n.args) == 1 and not n.keywords:
                v = self.expr(n.args[0], env, depth)
                if isinstance(v, sp.Basic):
                    return [SPLICE(v)]
                if isinstance(v, (list, tuple)):
                    return list(v)
            rec = None
            if isnp and short in NP_SIG:
                rec = (NP_SIG[short], {})
            elif not isnp and short in PKG_RECORD:
                rec = self.sig(short, d, env)
            if rec is not None:
                raw = self.bind(n, rec[0], rec[1], env, depth)
                self.records.append((short, raw))
                name = {"sum": "NPSUM", "eye": "np.identity"}.get(short, ("np." + short) if isnp else short)
                return self._unint(name, raw, {})
        f = n.func
        if isinstance(f, ast.Attribute) and f.attr not in ("view", "astype", "copy", "item", "append"):
            b = dotted(f.value)
            if b is not None and b in env and isinstance(env[b], sp.Basic):
                # method of a local value: keep the receiver (terms.Extractor would name the function after the local variable)
                if f.attr == "tolist":
                    return env[b]
                args = [self.expr(a, env, depth) for a in n.args]
                kwargs = {k.arg: self.expr(k.value, env, depth) for k in n.keywords if k.arg}
                return self._unint("meth_" + f.attr, [env[b]] + args, kwargs)
        return super().call(n, env, depth)

    # ---- running
    _outer = None

    def paths(self, finfo, args=None, outer_env=None, depth=0):
        if outer_env is None and self._outer:
            outer_env = dict(self._outer)      # inlined helpers see the same fixed attributes (self.rank) as the analysed method
        self._fstack.append(finfo)
        try:
            return super().paths(finfo, args, outer_env, depth)
        finally:
            self._fstack.pop()

    def run(self, fi, args=None, outer=None):
        """normal paths of fi"""
        self._outer = outer
        return [p for p in self.paths(fi, args or {}, outer) if p.raised is None]

    def value(self, fi, args=None):
        vals = []
        for p in self.run(fi, args):
            if not any(_same(p.value, v) for v in vals):
                vals.append(p.value)
        if len(vals) != 1:
            raise Undecided(f"{fi.name}: {len(vals)} distinct return values for {self.c or args}")
        return vals[0]

    def recorded(self, short, bc=False):
        """distinct argument lists of the recorded calls of `short` (without broadcasting wrappers unless bc=True)"""
        out = []
        for s, raw in self.records:
            if s != short:
                continue
            raw = raw if bc else _nobc(raw)
            if not any(_same(raw, o) for o in out):
                out.append(raw)
        return out


def _nobc(t):
    """t without the broadcasting wrappers BC(x, pattern) -> x"""
    if isinstance(t, (list, tuple)):
        return type(t)(_nobc(x) for x in t)
    if isinstance(t, sp.Basic) and t.has(BC):
        return t.replace(lambda e: _fn(e, BC), lambda e: _nobc(e.args[0]))
    return t


def _same(a, b) -> bool:
    if isinstance(a, (list, tuple)) and isinstance(b, (list, tuple)):
        return len(a) == len(b) and all(_same(x, y) for x, y in zip(a, b))
    if isinstance(a, Opaque) and isinstance(b, Opaque):
        return a.text == b.text
    if isinstance(a, _Table) and isinstance(b, _Table):
        return list(a.items) == list(b.items) and all(_same(a.items[k], b.items[k]) for k in a.items)
    if isinstance(a, _SliceVal) and isinstance(b, _SliceVal):
        return a.bounds == b.bounds
    if isinstance(a, (list, tuple, Opaque)) or isinstance(b, (list, tuple, Opaque)):
        return False
    return a == b


# ---------------------------------------------------------------- decoding of terms
def _msub(e):
    """the grid sizes are called self.grid.M / self.M / M (constructor argument stored in self.M): one symbol each"""
    if not isinstance(e, sp.Basic):
        return e
    rep = {}
    for s in e.free_symbols:
        if s.name in ("self.grid.M", "self.M", "M"):
            rep[s] = M
        elif s.name in ("self.grid.N", "self.N", "N"):
            rep[s] = N
    return e.xreplace(rep)


def _sized(e, full):
    """replace SIZE(grid points) by the point count"""
    if not isinstance(e, sp.Basic):
        return e
    rep = {}
    for a in e.atoms(sp.Function):
        if _fn(a, SIZE) and _fn(a.args[0], GRIDPTS):
            ep, k = a.args[0].args
            rep[a] = full[(DIRS[int(k)], bool(ep))]
        elif _fn(a, GETITEM) and a.args[1] == 0 and _fn(a.args[0], SHAPE) and _fn(a.args[0].args[0], GRIDPTS):
            ep, k = a.args[0].args[0].args      # shape[0] of a 1-d array
            rep[a] = full[(DIRS[int(k)], bool(ep))]
    return e.xreplace(rep)


def _rng(t, full):
    """(start, stop) of a term ARANGE(a, b) + k with a, b, k polynomials in M, N"""
    if not isinstance(t, sp.Basic):
        return None
    t = _msub(_sized(_nobc(t), full))
    ar = [a for a in t.atoms(sp.Function) if _fn(a, ARANGE)]
    if len(ar) != 1:
        return None
    k = sp.expand(t - ar[0])
    a, b = ar[0].args
    if k.has(ARANGE) or not (k.free_symbols | a.free_symbols | b.free_symbols) <= {M, N}:
        return None
    return sp.expand(a + k), sp.expand(b + k)


def _label(v):
    return None if v is None else (v.text if isinstance(v, Opaque) else f"?{v}")


def _parity(w, k):
    """(value for even k, value for odd k) of WHERE(k % 2 == 0 | != 0 | == 1, a, b), else None"""
    if isinstance(w, sp.Basic) and w.has(sp.Mod(k, 2)) and not w.has(WHERE):
        m = sp.Mod(k, 2)
        return sp.simplify(w.subs(m, 0)), sp.simplify(w.subs(m, 1))     # k % 2 is 0 for even and 1 for odd k
    if isinstance(w, sp.Mul):
        # q * WHERE(c, a, b) == WHERE(c, q * a, q * b) for a number q  (`x += np.where(c, 0, -1)` spells `x -= np.where(c, 0, 1)`)
        q, rest = w.as_coeff_Mul()
        inner = _parity(rest, k) if _fn(rest, WHERE) else None
        return None if inner is None else (q * inner[0], q * inner[1])
    if not _fn(w, WHERE):
        return None
    c, a, b = w.args
    name = getattr(c.func, "__name__", "")
    if name not in ("EQ", "NE") or len(c.args) != 2:
        return None
    l, r = c.args
    if r.has(k) and not l.has(k):
        l, r = r, l
    if l != sp.Mod(k, 2) or r not in (sp.Integer(0), sp.Integer(1)):
        return None
    even_first = (name == "EQ") == (r == 0)
    return (a, b) if even_first else (b, a)


def _deriv_decode(v, d, full):
    """Chebyshev derivative matrix  n U_{n-1}(x_i) - correction:  dict(nvec, rng, corr, bulk) from the returned term.
    nvec is the index vector (from the order n - 1 of U), bulk says that value and orientation (rows x[:, None], columns n[None, :]) fit"""
    out = dict(nvec=None, rng=None, corr=None, bulk=False)
    if not isinstance(v, sp.Basic):
        return out
    g = GRIDPTS(sp.Integer(1), sp.Integer(DIRS.index(d)))
    flat = _nobc(v)
    us = {a for a in flat.atoms(sp.Function) if _named(a, "eval_chebyu")}
    if len(us) != 1:
        return out
    u = next(iter(us))
    if len(u.args) != 2 or u.args[1] != g:
        return out
    nvec = sp.expand(u.args[0] + 1)
    out["nvec"] = _sized(nvec, full)
    out["rng"] = _rng(nvec, full)
    c = sp.simplify(nvec * u - flat)
    out["corr"] = _sized(c, full)
    # orientation: every occurrence of the index vector sits in BC(., 'None,:'), every occurrence of the grid in BC(., ':,None')
    k = [0]

    def dummy(e):
        k[0] += 1
        return sp.Dummy(f"bc{k[0]}")
    outside = v.replace(lambda e: _fn(e, BC), dummy)
    pats_ok = all((b.args[1].name == "bc|None,:") if b.args[0].has(ARANGE) else (b.args[1].name == "bc|:,None") if b.args[0].has(GRIDPTS) else True
                  for b in v.atoms(sp.Function) if _fn(b, BC))
    out["bulk"] = not c.has(sp.Function("eval_chebyu")) and not out["corr"].has(g) and pats_ok and not outside.has(ARANGE) and not outside.has(GRIDPTS)
    return out


def _filled(t):
    """the sequence [c1, .., SPLICE(x), .., ck] that an array allocated with n slots holds after the stores a[0] = c1, .., a[lo:hi] = x, .., a[-1] = ck:
    exactly one slice store of an array x, n == len(x) + lo - hi, and every slot outside the slice written with a number (the last store of a
    slot wins; the stores do not overlap, so their order is irrelevant).  None when a slot is left unwritten or anything else is stored"""
    writes = []
    while _fn(t, SETITEM) or _fn(t, SETSLICE):
        writes.append(t)
        t = t.args[0]
    if not _fn(t, ALLOC) or len(t.args) != 1:
        return None
    size = t.args[0]
    writes.reverse()
    slices = [w for w in writes if _fn(w, SETSLICE)]
    if len(slices) != 1:
        return None
    _, lo, hi, x = slices[0].args
    if _PolyEx._is_scalar(x) or not isinstance(x, sp.Symbol):
        return None
    lo, hi = int(lo), int(hi)
    length = sp.Dummy("length")
    # len(x) == x.size == x.shape[0] for the 1-d array x (an attribute of self is a symbol named after its dotted path)
    n = size.xreplace({SIZE(x): length, sp.Function("len")(x): length, GETITEM(SHAPE(x), sp.Integer(0)): length})
    n = n.xreplace({s_: length for s_ in n.free_symbols if s_.name in (f"{x.name}.size", f"{x.name}.shape[0]")})
    if sp.expand(n - (length + lo - hi)) != 0:
        return None
    items = {}
    for w in writes:
        if _fn(w, SETITEM):
            k, val = w.args[1], w.args[2]
            if not (isinstance(k, sp.Integer) and _PolyEx._is_scalar(val)):
                return None
            items[int(k)] = val
    if set(items) != set(range(lo)) | set(range(hi, 0)):
        return None
    return [items[k] for k in range(lo)] + [SPLICE(x)] + [items[k] for k in range(hi, 0)]


def _array(v):
    """(origin direction, entries before, entries after) of a padded copy of one of the grid's compact coordinate arrays"""
    inv = {a: d for d, a in GRID_ATTR.items()}
    if _fn(v, SETITEM) or _fn(v, SETSLICE):
        v = _filled(v)          # allocated, then filled slot by slot
    if isinstance(v, sp.Symbol):
        v = [SPLICE(v)]
    if isinstance(v, tuple):
        v = list(v)              # np.array((lo, *xs, hi)): a tuple display pads like a list display
    if not isinstance(v, list):
        return None
    sp_ = [i for i, x in enumerate(v) if _fn(x, SPLICE)]
    if len(sp_) != 1 or not isinstance(v[sp_[0]].args[0], sp.Symbol) or v[sp_[0]].args[0].name not in inv:
        return None
    i = sp_[0]
    if not all(isinstance(x, sp.Basic) and x.is_number for x in v[:i] + v[i + 1:]):
        return None
    return inv[v[i].args[0].name], v[:i], v[i + 1:]


# ---------------------------------------------------------------- the grid
def _grid(chk: Check) -> dict:
    S = chk.src
    gi = S.func("grid:Grid.__init__")
    chk.touch(gi.name)
    if "spacing" not in gi.params():
        raise AnchorMissing("Grid.__init__ has no `spacing` parameter")
    ps = _PolyEx(S).run(gi, {"spacing": Opaque("Spectral")})
    envs = [p.env for p in ps]
    sizes, nodes = {}, {}
    for d, attr in GRID_ATTR.items():
        vals = []
        for e in envs:
            if not any(_same(e.get(attr), v) for v in vals):
                vals.append(e.get(attr))
        if len(vals) != 1 or not isinstance(vals[0], sp.Basic):
            raise AnchorMissing(f"Grid.__init__: spectral nodes {attr} not found")
        t = _msub(vals[0])
        ar = [a for a in t.atoms(sp.Function) if _fn(a, ARANGE)]
        if len(ar) != 1:
            raise Undecided(f"Grid.__init__: node formula of {attr} without a single arange")
        a0, a1 = ar[0].args
        sizes[(d, False)] = sp.expand(a1 - a0)
        # -cos(k pi / D)
        k = sp.Dummy("k", positive=True)
        u = -t.xreplace({ar[0]: k})
        den = None
        if u.func == sp.cos:
            q = sp.simplify(sp.pi * k / u.args[0])
            if not q.has(k):
                den = q
        nodes[d] = (den, a0, a1, str(t))
    gc = S.func("grid:Grid.getCompactCoordinates")
    chk.touch(gc.name)
    prm = gc.params()
    if len(prm) < 3:
        raise AnchorMissing("Grid.getCompactCoordinates(endpoints, direction) not found")
    arrays = {}
    for ep in (True, False):
        for d in DIRS + (None,):
            v = _PolyEx(S).value(gc, {prm[1]: sp.true if ep else sp.false, prm[2]: Opaque(d) if d else None})
            arrays[(d, ep)] = [_array(x) for x in v] if d is None and isinstance(v, tuple) else _array(v)
    full = dict(sizes)
    for d in DIRS:
        a = arrays[(d, True)]
        if a is None or (a[0], False) not in sizes:
            raise AnchorMissing("getCompactCoordinates: end-point branch not understood")
        full[(d, True)] = sp.expand(sizes[(a[0], False)] + len(a[1]) + len(a[2]))
    return dict(sizes=sizes, nodes=nodes, arrays=arrays, full=full, gi=gi, gc=gc)


EXPECT = {("z", False): M - 1, ("pz", False): N - 1, ("pp", False): N - 1, ("z", True): M + 1, ("pz", True): N + 1, ("pp", True): N}


def quadrature_factors(S, fi, full=None):
    """({(direction, endpoints): decoded factor that Polynomial.integrate broadcasts onto an integrated axis}, {labels handed to changeBasis}).
    Term level, one evaluation per combination: used by R16.3 and by C09 / C13 (the z weight is pi / M)."""
    got = {}      # (d, ep) -> decoded weighted factor
    cb = set()
    for d, ep in itertools.product(DIRS, (True, False)):
        ex = _PolyEx(S, {"dir": d, "ep": ep, "basis": "Chebyshev"})
        ex.run(fi)
        # one symbolic axis: the new basis is ('Cardinal',) when the axis is integrated and its own basis otherwise
        cb.add(tuple(sorted(str([_label(x) for x in r[0]]) if r and isinstance(r[0], tuple) else "?" for r in ex.recorded("changeBasis"))))
        g = GRIDPTS(sp.Integer(int(ep)), sp.Integer(DIRS.index(d)))
        facs = [r[0] for r in ex.recorded("expand_dims") if r and isinstance(r[0], sp.Basic)]
        dec = dict(n=len(facs), sqrt=False, grid=False, ones=None, scale=None, half=None)
        if len(facs) == 1:
            t = facs[0]
            gp = [a for a in t.atoms(sp.Function) if _fn(a, GRIDPTS)]
            dec["grid"] = gp == [g]
            w = sp.simplify(t / sp.sqrt(1 - g**2))
            if not any(a.has(g) for a in w.atoms(sp.Pow)):
                dec["sqrt"] = True
                half = []
                ok = True
                while _fn(w, SETITEM):
                    inner, k, val = w.args
                    if sp.simplify(val - GETITEM(inner, k) / 2) != 0:
                        ok = False
                    half.append(int(k))
                    w = inner
                ones = [a for a in w.atoms(sp.Function) if _named(a, "np.ones")]
                if ok and len(ones) == 1 and len(ones[0].args) == 1:
                    dec["ones"] = _sized(ones[0].args[0], full) if full is not None else ones[0].args[0]
                    dec["scale"] = _msub(sp.simplify(w / ones[0]))
                    dec["half"] = sorted(half)
        got[(d, ep)] = dec
    return got, cb


def r16_3(chk: Check, G: dict):
    S = chk.src
    gi, full = G["gi"], G["full"]
    want = {"z": (M, 1, "M"), "pz": (N, 1, "N"), "pp": (N - 1, 0, "N-1")}
    for d, (den, first, label) in want.items():
        got = G["nodes"].get(d)
        ok = got is not None and got[0] is not None and sp.expand(got[0] - den) == 0 and got[1] == first
        chk.ob("R16.3", gi.where(), f"{d} nodes are -cos(k pi/({label})), k from {first}: Gauss-Lobatto points with the end point(s) at infinity dropped", ok,
               str(got), key=f"nodes|{d}")
    fi = S.func(f"{PO}.integrate")
    chk.touch(fi.name)
    got, cb = quadrature_factors(S, fi, full)
    shown = {f"{d},{ep}": v for (d, ep), v in got.items()}
    for d, (den, first, label) in want.items():
        sc = [got[(d, ep)]["scale"] for ep in (True, False)]
        ok = all(s is not None and sp.simplify(s * den / sp.pi) == 1 for s in sc)
        chk.ob("R16.3", fi.where(), f"quadrature weight of direction {d} is pi/({label}): same denominator as its node formula", ok,
               f"{sc} vs pi/({den})", key=f"weight-den|{d}")
    ok = all(v["half"] == ([-1, 0] if ep else ([0] if d == "pp" else [])) for (d, ep), v in got.items())
    chk.ob("R16.3", fi.where(), "end-point weights are halved: both ends when end points are kept; rho_par = -1 (a kept Lobatto end point) otherwise", ok,
           str({k: v["half"] for k, v in shown.items()}), key="halving")
    ok = all(v["scale"] is not None and sp.simplify(v["scale"] / sp.pi).free_symbols <= {M, N} and v["ones"] is not None
             and sp.expand(v["ones"] - full[k]) == 0 for k, v in got.items())
    chk.ob("R16.3", fi.where(), "weights start from pi for every node of the integrated axis", ok, str({k: (v["ones"], v["scale"]) for k, v in shown.items()}),
           key="weight-base")
    ok = all(v["n"] == 1 and v["sqrt"] for v in got.values())
    chk.ob("R16.3", fi.where(), "the Chebyshev weight 1/sqrt(1-x^2) of the rule is compensated by sqrt(1 - x^2)", ok, key="sqrt-factor")
    ok = all(v["grid"] for v in got.values())
    chk.ob("R16.3", fi.where(), "nodes of the integrated axis are the grid's compact coordinates for that axis' (endpoints, direction)", ok, key="nodes-used")
    chk.ob("R16.3", fi.where(), "integrated axes are converted to the cardinal basis (grid values) first", cb == {("['Cardinal']", "['Chebyshev']")}, str(cb), key="cardinal-first")
    chk.floor("R16.3", 11)


def _private_args(fi, d, ep):
    """(direction, endpoints) are parameters 1 and 2 of the private matrix builders (called positionally by matrix / derivMatrix)"""
    p = fi.params()
    if len(p) < 3:
        raise AnchorMissing(f"{fi.name}(direction, endpoints) not found")
    return {p[1]: Opaque(d), p[2]: sp.true if ep else sp.false}


def r16_1(chk: Check, G: dict):
    S = chk.src
    gc, full, arrays = G["gc"], G["full"], G["arrays"]
    chk.ob("R16.1", gc.where(), "grid point counts: M-1, N-1, N-1 without end points; M+1, N+1, N with them", all(sp.expand(full[k] - v) == 0 for k, v in EXPECT.items()),
           str(full), key="grid-counts")
    ok = all(arrays[(d, ep)] is not None and arrays[(d, ep)][0] == d for d in DIRS for ep in (True, False)) and \
        all(isinstance(arrays[(None, ep)], list) and [a and a[0] for a in arrays[(None, ep)]] == list(DIRS) for ep in (True, False)) and \
        all(arrays[(None, ep)] == [arrays[(d, ep)] for d in DIRS] for ep in (True, False))
    chk.ob("R16.1", gc.where(), "getCompactCoordinates(direction) returns chi / rz / rp for 'z' / 'pz' / 'pp'", ok, str({k: v and v[0] for k, v in arrays.items() if k[0]}),
           key="grid-dispatch")
    pads = {(d, ep): (arrays[(d, ep)][1], arrays[(d, ep)][2]) if arrays[(d, ep)] else None for d in DIRS for ep in (True, False)}
    ok = all(pads[(d, False)] == ([], []) for d in DIRS) and pads[("z", True)] == ([-1], [1]) and pads[("pz", True)] == ([-1], [1]) and pads[("pp", True)] == ([], [1])
    chk.ob("R16.1", gc.where(), "with end points the arrays are padded by chi = -1, +1, rho_z = -1, +1 and rho_par = +1 (rho_par = -1 is a regular node)", ok, str(pads),
           key="grid-endpoints")

    fns = {nm: S.func(f"{PO}.{nm}") for nm in ("changeBasis", "evaluate", "_chebyshevMatrix", "_chebyshevDeriv", "_cardinalMatrix", "_checkCoefficients", "_cardinalDeriv")}
    chk.touch(*[f.name for f in fns.values()])
    f_cb, f_ev = fns["changeBasis"], fns["evaluate"]
    restr_want = {"z": "full", "pz": "full", "pp": "partial"}
    axis_use = {}

    def cheb_sites(ex, x_is_grid, d, ep):
        """[(range, restriction label, x is the grid of the combination)] of the recorded self.chebyshev(x, n, restriction) calls"""
        out = []
        for raw in ex.recorded("chebyshev"):
            if len(raw) < 3:
                out.append((None, "?", False))
                continue
            xg = _fn(raw[0], GRIDPTS) and raw[0] == GRIDPTS(sp.Integer(int(ep)), sp.Integer(DIRS.index(d)))
            item = (_rng(raw[1], full), _label(raw[2]), bool(xg) or not x_is_grid)
            if item not in out:
                out.append(item)
        return out

    deriv_terms = {}
    for d, ep in itertools.product(DIRS, (True, False)):
        cnt = EXPECT[(d, ep)]
        start = sp.Integer(0) if ep else (sp.Integer(2) if d in ("z", "pz") else sp.Integer(1))
        label = f"{d}, {'with' if ep else 'without'} end points"
        sites = {}
        ex = _PolyEx(S, {"dir": d, "ep": ep, "basis": "Cardinal"})
        ex.run(f_cb)
        sites["changeBasis"] = cheb_sites(ex, True, d, ep)
        axis_use.setdefault("changeBasis", []).append((ex.idx, ex.axis_names))
        ex = _PolyEx(S, {"dir": d, "ep": ep, "basis": "Chebyshev"})
        ex.run(f_ev)
        sites["evaluate[Chebyshev]"] = cheb_sites(ex, False, d, ep)
        axis_use.setdefault("evaluate", []).append((ex.idx, ex.axis_names))
        ex = _PolyEx(S)
        ex.run(fns["_chebyshevMatrix"], _private_args(fns["_chebyshevMatrix"], d, ep))
        sites["_chebyshevMatrix"] = cheb_sites(ex, True, d, ep)
        rows = []
        wantr = None if ep else restr_want[d]
        for nm, found in sites.items():
            if len(found) != 1 or found[0][0] is None:
                rows.append(f"{nm}: no single index range ({len(found)} chebyshev calls)")
                continue
            rng, restr, xg = found[0]
            if not (sp.expand(rng[0] - start) == 0 and sp.expand(rng[1] - rng[0] - cnt) == 0 and restr == wantr and xg):
                rows.append(f"{nm}: n in [{rng[0]}, {rng[1]}) restriction {restr}{'' if xg else ' on other points than the grid of this axis'}")
        # _chebyshevDeriv: n U_{n-1}(x) on all grid points (with the end points); 'full' correction exactly without end points (R16.2)
        fd = fns["_chebyshevDeriv"]
        v = _PolyEx(S).value(fd, _private_args(fd, d, ep))
        deriv_terms[(d, ep)] = v
        rng = _deriv_decode(v, d, full)["rng"]
        if rng is None:
            rows.append("_chebyshevDeriv: no index range")
        elif not (sp.expand(rng[0] - start) == 0 and sp.expand(rng[1] - rng[0] - cnt) == 0):
            rows.append(f"_chebyshevDeriv: n in [{rng[0]}, {rng[1]})")
        chk.ob("R16.1", f_cb.where(), f"Chebyshev index range for ({label}) is {cnt} functions starting at T_{start}"
               f"{'' if ep else ' with restriction ' + restr_want[d]} at all four sites", not rows, "; ".join(rows), key=f"cheb-range|{d}|{ep}")
        # cardinal arm of evaluate: indices into the full grid
        ex = _PolyEx(S, {"dir": d, "ep": ep, "basis": "Cardinal"})
        ex.run(f_ev)
        card = []
        for raw in ex.recorded("cardinal"):
            item = (_rng(raw[1], full), _label(raw[2])) if len(raw) == 3 else (None, None)
            if item not in card:
                card.append(item)
        cstart = sp.Integer(0) if ep else (sp.Integer(1) if d in ("z", "pz") else sp.Integer(0))
        rng = card[0][0] if len(card) == 1 else None
        okc = rng is not None and sp.expand(rng[0] - cstart) == 0 and sp.expand(rng[1] - rng[0] - cnt) == 0 and card[0][1] == d and not ex.recorded("chebyshev")
        chk.ob("R16.1", f_ev.where(), f"cardinal index range of evaluate for ({label}) is {cnt} functions starting at grid index {cstart}", okc,
               str(rng), key=f"card-range|{d}|{ep}")
    # _cardinalMatrix / _checkCoefficients / _cardinalDeriv
    fcm = fns["_cardinalMatrix"]
    det = []
    for d, ep in itertools.product(DIRS, (True, False)):
        v = _PolyEx(S).value(fcm, _private_args(fcm, d, ep))
        k = _msub(_sized(v.args[0], full)) if _named(v, "np.identity") and len(v.args) == 1 else None
        if k is None or sp.expand(k - EXPECT[(d, ep)]) != 0:
            det.append(f"{d},{ep}: {k if k is not None else v}")
    chk.ob("R16.1", fcm.where(), "_cardinalMatrix is the identity of the grid's point count for every (direction, endpoints)", not det, "; ".join(det), key="cardinal-matrix")
    fck = fns["_checkCoefficients"]
    got_a = {}
    for d, ep in itertools.product(DIRS, (True, False)):
        ex = _PolyEx(S, {"dir": d, "ep": ep, "basis": "Cardinal"})
        ex.run(fck)
        axis_use.setdefault("_checkCoefficients", []).append((ex.idx, ex.axis_names))
        acc = []
        for t in ex.asserts:
            if not (isinstance(t, sp.Basic) and getattr(t.func, "__name__", "") == "EQ"):
                continue
            sz = [a for a in t.atoms(sp.Function) if _fn(a, GETITEM) and _fn(a.args[0], SHAPE)]
            if len(sz) != 1:
                continue
            e = sp.expand(_msub(t.args[0] - t.args[1]))
            co = e.coeff(sz[0])
            rest = sp.expand(e - co * sz[0])
            if co in (1, -1) and not rest.has(sz[0]):
                acc.append(sp.expand(-rest / co))
        got_a[(d, ep)] = acc
    ok = all(len(v) == 1 and sp.expand(v[0] - EXPECT[k]) == 0 for k, v in got_a.items())
    chk.ob("R16.1", fck.where(), "_checkCoefficients accepts exactly the grid's point count on every polynomial axis", ok, str(got_a), key="check-coefficients")
    fcd = fns["_cardinalDeriv"]
    rows, grids, tr, mats = {}, [], [], {}
    for d, ep in itertools.product(DIRS, (True, False)):
        ex = _PolyEx(S)
        v = ex.value(fcd, _private_args(fcd, d, ep))
        gcalls = ex.recorded("getCompactCoordinates")
        tr.append(_fn(v, TRANSPOSE) and len(v.args) == 1)
        inner = v.args[0] if tr[-1] else v
        sl = ""
        if _fn(inner, SUB):
            inner, sl = inner.args[0], inner.args[1].name[3:]
        rows[(d, ep)] = sl
        mats[(d, ep)] = inner
        gp = {a for a in inner.atoms(sp.Function) if _fn(a, GRIDPTS)} if isinstance(inner, sp.Basic) else set()
        grids.append(gp == {GRIDPTS(sp.Integer(1), sp.Integer(DIRS.index(d)))} and len(gcalls) == 1)
    ok = all(rows[(d, True)] == "" for d in DIRS) and rows[("z", False)] == "1:-1" and rows[("pz", False)] == "1:-1" and rows[("pp", False)] == ":-1" \
        and all(mats[(d, False)] == mats[(d, True)] for d in DIRS)
    chk.ob("R16.1", fcd.where(), "_cardinalDeriv drops the cardinal functions of the dropped end points: [1:-1] for z, pz and [:-1] for pp", ok, str(rows), key="cardinal-deriv-rows")
    chk.ob("R16.1", fcd.where(), "derivative matrices are evaluated on all grid points including the end points", all(grids), key="cardinal-deriv-grid")
    chk.ob("R16.1", fcd.where(), "the matrix is returned as [point, function] (transpose of [function, point])", all(tr), key="cardinal-deriv-transpose")
    # per-axis attributes are read at the index of the axis that is being worked on
    for nm, uses in axis_use.items():
        idx = set().union(*[u[0] for u in uses])
        names = set().union(*[u[1] for u in uses])
        chk.ob("R16.1", fns[nm].where(), f"{nm}: direction, endpoints and basis are all read at the index of the axis the loop is working on", len(names) == 1 and idx <= names,
               f"indices {sorted(idx)}, loop index {sorted(names)}", key=f"axis-index|{nm}")
    chk.floor("R16.1", 23)
    return deriv_terms


def r16_2(chk: Check, G: dict, deriv_terms: dict):
    S = chk.src
    full = G["full"]
    fc = S.func(f"{PO}.chebyshev")
    fd = S.func(f"{PO}._chebyshevDeriv")
    chk.touch(fc.name, fd.name)
    prm = fc.params()
    if len(prm) < 4:
        raise AnchorMissing("Polynomial.chebyshev(compactCoord, n, restriction) not found")
    vals = {}
    for r in (None, "partial", "full"):
        ex = _PolyEx(S)
        vals[r] = ex.value(fc, {prm[3]: Opaque(r) if r else None})
    x, nn = (Extractor.sym(ex, prm[1]), Extractor.sym(ex, prm[2]))
    base = vals[None]
    okb = _named(base, "eval_chebyt") and base.args == (nn, x)
    corr = {r: sp.simplify(base - vals[r]) if isinstance(vals[r], sp.Basic) and isinstance(base, sp.Basic) else None for r in ("partial", "full")}
    # derivative matrix: bulk n U_{n-1}(grid) minus a correction
    dcorr, bulk_ok = {}, True
    for (d, ep), v in deriv_terms.items():
        dec = _deriv_decode(v, d, full)
        bulk_ok = bulk_ok and dec["bulk"]
        dcorr[(d, ep)] = (dec["corr"], dec["nvec"]) if dec["corr"] is not None else None
    nz = {k for k, v in dcorr.items() if v is None or v[0] != 0}
    ok = corr["partial"] not in (None, 0) and corr["full"] not in (None, 0) and nz == {("z", False), ("pz", False)} and bulk_ok
    chk.ob("R16.2", fd.where(), "corrections: chebyshev() subtracts one for 'partial' and one for 'full'; the derivative matrix corrects 'full' without end points only",
           ok, f"{corr} / {({k: v and v[0] for k, v in dcorr.items()})}", key="correction-sites")
    if ok:
        cf = _parity(corr["full"], nn)
        okf, okv = False, False
        shown = []
        if cf is not None:
            okf = True
            for k in (("z", False), ("pz", False)):
                c, A = dcorr[k]
                df_ = _parity(c, A)
                shown.append(str(c))
                okf = okf and df_ is not None and sp.simplify(sp.diff(cf[0], x) - df_[0]) == 0 and sp.simplify(sp.diff(cf[1], x) - df_[1]) == 0
            even, odd = cf
            okv = even == 1 and sp.simplify(odd.subs(x, 1) - 1) == 0 and sp.simplify(odd.subs(x, -1) + 1) == 0
        chk.ob("R16.2", fd.where(), "'full': d/dx [1 (n even), x (n odd)] == [0 (n even), 1 (n odd)] -- the derivative correction is the derivative of the basis correction",
               bool(okf), f"{corr['full']} / {shown}", key="full-derivative")
        chk.ob("R16.2", fc.where(), "'partial': the subtracted constant 1 has zero derivative (no derivative correction needed)", corr["partial"] == 1, str(corr["partial"]),
               key="partial-derivative")
        # vanishing at the dropped end points: T_n(1) = 1, T_n(-1) = (-1)^n
        if cf is not None:
            chk.ob("R16.2", fc.where(), "'full' restricted functions T_n - {1, x} vanish at x = +1 and x = -1 (T_n(1) = 1, T_n(-1) = (-1)^n)", okv, key="full-vanishes")
    chk.ob("R16.2", fd.where(), "bulk derivative matrix is n U_{n-1}(x_i) (rows: all grid points, columns: basis index)", bulk_ok,
           str(deriv_terms.get(("pp", True))), key="bulk")
    chk.ob("R16.2", fc.where(), "unrestricted basis is T_n(x)", okb, str(base), key="base")
    chk.floor("R16.2", 6)


def _ints(v):
    """tuple of python ints of a tuple / sympy Tuple of integers (an int for a single integer), else None"""
    if isinstance(v, sp.Integer):
        return int(v)
    if isinstance(v, (tuple, list, sp.Tuple)) and all(isinstance(x, sp.Integer) for x in v):
        return tuple(int(x) for x in v)
    return None


def r16_4(chk: Check):
    S = chk.src
    C = {"dir": "pp", "ep": False, "basis": "Chebyshev"}
    for fname in ("changeBasis", "derivative"):
        fi = S.func(f"{PO}.{fname}")
        chk.touch(fi.name)
        bad = []
        cases = 0
        for rank in range(1, 5):
            for i in range(rank):
                cases += 1
                ex = _PolyEx(S, C, rank=rank, axis=i)
                ps = ex.run(fi, outer={"self.rank": sp.Integer(rank)})
                sums = ex.recorded("sum")
                exps = [r for r in ex.recorded("expand_dims") if len(r) == 2]
                # roles: the operand expanded by rank-1 axes is the matrix (2 -> rank+1 axes), the one expanded by one axis the coefficients
                mat = [r for r in exps if isinstance(_ints(r[1]), tuple)]
                coef = [r for r in exps if isinstance(_ints(r[1]), int)]
                if not mat or not coef or not sums or any(len(r) != 2 for r in sums) or len(mat) + len(coef) != len(exps):
                    raise AnchorMissing(f"{fname}: expand_dims / sum pattern not found")
                maxes, cax, sax = {_ints(r[1]) for r in mat}, {_ints(r[1]) for r in coef}, {_ints(r[1]) for r in sums}
                if len(maxes) != 1 or len(cax) != 1 or len(sax) != 1 or not isinstance(next(iter(sax)), int):
                    bad.append(f"rank {rank}, axis {i}: axes differ between the variants of the matrix: {maxes}, {cax}, {sax}")
                    continue
                maxes, cax, sax = next(iter(maxes)), next(iter(cax)), next(iter(sax))
                # matrix (new, old) expanded to rank+1 dims: its own two axes are those not in maxes
                own = [a for a in range(rank + 1) if a not in maxes]
                # coefficient axes after expand at cax: old axis k -> k (k < cax) or k+1 (k >= cax)
                old_i = i + 1 if cax <= i else i
                # every contracted product is (expanded matrix) * (expanded coefficients); the matrix comes from the basis functions /
                # derivative matrix of this axis, the coefficients are the polynomial's coefficients; the contraction becomes the new coefficients
                src_call = "chebyshev" if fname == "changeBasis" else "derivMatrix"
                mterm = [Extractor._unint(ex, src_call, r, {}) for r in ex.recorded(src_call)]
                prods = [Extractor._unint(ex, "np.expand_dims", m_, {}) * Extractor._unint(ex, "np.expand_dims", c_, {}) for m_ in mat for c_ in coef]
                roles = all(any(sp.expand(r[0] - p_) == 0 for p_ in prods) for r in sums) and len(mterm) == 1 and all(isinstance(m_[0], sp.Basic) and m_[0].has(mterm[0]) for m_ in mat) \
                    and all(c_[0] == ex.sym("self.coefficients") for c_ in coef)
                res = [Extractor._unint(ex, "NPSUM", r, {}) for r in sums]
                if fname == "changeBasis":
                    out = [_nobc(p.env.get("self.coefficients")) for p in ps]
                    flows = all(any(o == r for o in out) for r in res) and all(o is None or o == ex.sym("self.coefficients") or o in res for o in out)
                else:
                    out = [r[0] for r in ex.recorded("Polynomial") if r]
                    flows = all(any(o == r for o in out) for r in res) and all(o == ex.sym("self.coefficients") or o in res for o in out)
                if own != [i, i + 1] or cax != i or sax != i + 1 or old_i != sax or len(maxes) != rank - 1 or not roles or not flows:
                    bad.append(f"rank {rank}, axis {i}: matrix on {own}, coefficients expanded at {cax}, summed over {sax}"
                               f"{'' if roles else '; the contracted product is not (matrix of ' + src_call + ') * (self.coefficients)'}"
                               f"{'' if flows else '; the contraction does not become the new coefficients'}")
        chk.ob("R16.4", fi.where(), f"{fname}: for every rank <= 4 and axis i the matrix occupies axes (i, i+1) = (new, old), the coefficients' axis i is moved to "
               f"i+1 and contracted; all other axes are untouched ({cases} cases)", not bad, "; ".join(bad[:4]), key=f"axes|{fname}", how="finite-enumeration")
    # integrate: 1-D weights on axis i
    fi = S.func(f"{PO}.integrate")
    bad = []
    sum_ok = True
    axp = fi.params()[1] if len(fi.params()) > 1 else None
    for rank in range(1, 5):
        for i in range(rank):
            ex = _PolyEx(S, C, rank=rank, axis=i)
            ex.run(fi, outer={"self.rank": sp.Integer(rank)})
            exps = [r for r in ex.recorded("expand_dims") if len(r) == 2]
            if not exps:
                raise AnchorMissing("integrate: expand_dims not found")
            co = ex.sym("self.coefficients")
            for r in exps:
                axes = _ints(r[1])
                own = [a for a in range(rank) if not isinstance(axes, tuple) or a not in axes]
                if own != [i] or not isinstance(axes, tuple) or len(axes) != rank - 1:
                    bad.append(f"rank {rank}, axis {i}: weights on {own}")
            sums = ex.recorded("sum")
            a = ex.sym(axp)
            e_w = [Extractor._unint(ex, "np.expand_dims", r, {}) for r in exps]
            for r in sums:
                # the summed array is (weight) * coefficients [* the expanded quadrature weights of the integrated axis], summed over `axis`
                okr = len(r) == 2 and (r[1] == a or _same(r[1], (a,))) and isinstance(r[0], sp.Basic) and r[0].has(co) and not sp.simplify(r[0] / co).has(co)
                sum_ok = sum_ok and okr
            sum_ok = sum_ok and bool(sums) and any(isinstance(r[0], sp.Basic) and any(r[0].has(w) for w in e_w) for r in sums)
    chk.ob("R16.4", fi.where(), "integrate: for every rank <= 4 the 1-D quadrature weights of axis i are broadcast along axis i only", not bad, "; ".join(bad[:4]),
           key="axes|integrate", how="finite-enumeration")
    chk.ob("R16.4", fi.where(), "integrate sums the weighted coefficients over exactly the requested axes", sum_ok, key="integrate-sum")
    # evaluate: pn (points, n) placed on (0, i+1) of (points, *coefficient axes)
    fi = S.func(f"{PO}.evaluate")
    bad = []
    sum_ok = True
    axp = fi.params()[2] if len(fi.params()) > 2 else None
    for rank in range(1, 5):
        for i in range(rank):
            ex = _PolyEx(S, C, rank=rank, axis=i)
            ex.run(fi, outer={"self.rank": sp.Integer(rank)})
            exps = [r for r in ex.recorded("expand_dims") if len(r) == 2]
            if not exps:
                raise AnchorMissing("evaluate: expand_dims not found")
            basis_vals = [Extractor._unint(ex, "chebyshev", r, {}) for r in ex.recorded("chebyshev")]
            for r in exps:
                axes = _ints(r[1])
                own = [a for a in range(rank + 1) if not isinstance(axes, tuple) or a not in axes]
                if own != [0, i + 1] or not isinstance(axes, tuple) or len(axes) != rank - 1 or r[0] not in basis_vals:
                    bad.append(f"rank {rank}, axis {i}: basis values on {own}")
            sums = ex.recorded("sum")
            e_p = [Extractor._unint(ex, "np.expand_dims", r, {}) for r in exps]
            co = ex.sym("self.coefficients")
            for r in sums:
                okr = len(r) == 2 and r[1] == sp.Function("tuple")(ex.sym(axp) + 1) and isinstance(r[0], sp.Basic) \
                    and any(r[0].has(q) and not sp.simplify(r[0] / (co * q)).has(co, q) for q in e_p)
                sum_ok = sum_ok and okr
            sum_ok = sum_ok and bool(sums)
    chk.ob("R16.4", fi.where(), "evaluate: for every rank <= 4 the basis values (points, n) of axis i occupy axes (0, i+1) of (points, *coefficient axes)", not bad,
           "; ".join(bad[:4]), key="axes|evaluate", how="finite-enumeration")
    chk.ob("R16.4", fi.where(), "evaluate contracts coefficients with the product of basis values over the evaluated axes (shifted by the points axis)", sum_ok, key="evaluate-sum")
    # derivative(): result axis gets Cardinal basis with end points
    fdv = S.func(f"{PO}.derivative")
    labels, margs = [], True
    for b, d, ep in itertools.product(("Cardinal", "Chebyshev"), DIRS, (True, False)):
        ex = _PolyEx(S, {"dir": d, "ep": ep, "basis": b}, rank=1, axis=0)
        ex.run(fdv, outer={"self.rank": sp.Integer(1)})
        dm = ex.recorded("derivMatrix")
        margs = margs and len(dm) == 1 and len(dm[0]) == 3 and (_label(dm[0][0]), _label(dm[0][1]), dm[0][2]) == (b, d, sp.true if ep else sp.false)
        for r in ex.recorded("Polynomial"):
            if len(r) == 5 and _named(r[0], "NPSUM"):
                labels.append((b, ep, [_label(x) for x in r[2]] if isinstance(r[2], tuple) else None, list(r[4]) if isinstance(r[4], tuple) else None))
    ok = len(labels) == 12 and all(lb == ["Cardinal"] and le == [sp.true] for _, _, lb, le in labels)
    chk.ob("R16.4", fdv.where(), "derivative() labels the differentiated axis Cardinal with end points (the derivative matrix has rows for all grid points)", ok,
           str(labels[:3]), key="derivative-labels")
    chk.ob("R16.4", fdv.where(), "derivative() uses the derivative matrix of the axis' own (basis, direction, endpoints)", margs, key="derivative-matrix-args")
    chk.floor("R16.4", 8)


def rules(chk: Check) -> None:
    # R16.5: exactness "for every call history": the read-only methods leave the stored coefficients untouched
    chk.stage(coefficients_not_modified, chk, "R16.5")
    # R16.6: the basis label says in which representation the coefficients are held: only a method that transforms the coefficients re-assigns it
    from .shared import label_stored_with_data
    chk.stage(label_stored_with_data, chk, "R16.6", "polynomial:Polynomial", "basis", ("coefficients",))
    G = chk.stage(_grid, chk)
    if G is None:
        return
    deriv_terms = chk.stage(r16_1, chk, G)
    if deriv_terms is not None:
        chk.stage(r16_2, chk, G, deriv_terms)
    chk.stage(r16_3, chk, G)
    chk.stage(r16_4, chk)
    chk.floor("R16.5", 6)


# ---------------------------------------------------------------------------------------------------------------------------------
# purity: the read-only methods of Polynomial must not modify the stored coefficients (nor the caller's array they alias)
# ---------------------------------------------------------------------------------------------------------------------------------

NO_COPY_WRAPPERS = {"asarray", "asanyarray", "ascontiguousarray", "atleast_1d", "atleast_2d", "ravel", "reshape", "squeeze", "transpose", "view",
                    "swapaxes", "moveaxis", "expand_dims", "broadcast_to", "real"}
INPLACE_METHODS = {"sort", "fill", "resize", "put", "itemset", "partition", "setfield", "byteswap"}
READ_ONLY_METHODS = ("integrate", "evaluate", "derivative", "matrix", "derivMatrix", "cardinal", "chebyshev", "__getitem__", "__mul__", "__add__",
                     "__sub__", "__rmul__", "__radd__", "__rsub__", "_findContraction")


def coefficients_not_modified(chk: Check, rule: str) -> None:
    """For every call history `p.integrate(..); p.integrate(..); p.evaluate(..)` to give what each call gives on a fresh object, the methods that
    only *read* a Polynomial must leave `self.coefficients` untouched.  Alias analysis inside one method: a name is an alias when it is assigned
    `self.coefficients` directly or through a numpy function / method that does not copy; an augmented assignment to an alias, a subscript store
    into it, an `out=` argument naming it or an in-place ndarray method on it is a violation."""
    S = chk.src
    ci = S.cls("polynomial:Polynomial")
    n_checked = 0
    for mname in READ_ONLY_METHODS:
        fi = ci.methods.get(mname)
        if fi is None:
            continue
        n_checked += 1
        chk.touch(fi.name)

        def is_alias_expr(e, aliases) -> bool:
            if isinstance(e, ast.Attribute) and isinstance(e.value, ast.Name) and e.value.id == "self" and e.attr == "coefficients":
                return True
            if isinstance(e, ast.Name):
                return e.id in aliases
            if isinstance(e, ast.Subscript):
                # basic slicing gives a view
                return is_alias_expr(e.value, aliases)
            if isinstance(e, ast.Call):
                f = e.func
                short = f.attr if isinstance(f, ast.Attribute) else (f.id if isinstance(f, ast.Name) else "")
                if short in NO_COPY_WRAPPERS:
                    if isinstance(f, ast.Attribute) and isinstance(f.value, ast.Name) and f.value.id in ("np", "numpy"):
                        return bool(e.args) and is_alias_expr(e.args[0], aliases)
                    if isinstance(f, ast.Attribute):
                        return is_alias_expr(f.value, aliases)
            if isinstance(e, ast.IfExp):
                return is_alias_expr(e.body, aliases) or is_alias_expr(e.orelse, aliases)
            return False

        aliases: set[str] = set()
        changed = True
        while changed:            # flow-insensitive fixpoint: once an alias, always an alias (sound for "must not modify")
            changed = False
            for st in ast.walk(fi.node):
                if isinstance(st, ast.Assign) and len(st.targets) == 1 and isinstance(st.targets[0], ast.Name) and is_alias_expr(st.value, aliases):
                    if st.targets[0].id not in aliases:
                        aliases.add(st.targets[0].id)
                        changed = True
                elif isinstance(st, ast.AnnAssign) and st.value is not None and isinstance(st.target, ast.Name) and is_alias_expr(st.value, aliases):
                    if st.target.id not in aliases:
                        aliases.add(st.target.id)
                        changed = True
        bad = []
        for st in ast.walk(fi.node):
            if isinstance(st, ast.AugAssign) and is_alias_expr(st.target, aliases):
                bad.append((st, f"in-place `{_n(st)[:70]}`"))
            elif isinstance(st, ast.Assign):
                for t in st.targets:
                    if isinstance(t, ast.Subscript) and is_alias_expr(t.value, aliases):
                        bad.append((st, f"store into `{_n(t)[:60]}`"))
                    if isinstance(t, ast.Attribute) and isinstance(t.value, ast.Name) and t.value.id == "self" and t.attr == "coefficients":
                        bad.append((st, "re-assigns self.coefficients"))
            elif isinstance(st, ast.Call):
                for k in st.keywords:
                    if k.arg == "out" and is_alias_expr(k.value, aliases):
                        bad.append((st, f"out= names the coefficients: `{_n(st)[:70]}`"))
                f = st.func
                if isinstance(f, ast.Attribute) and f.attr in INPLACE_METHODS and is_alias_expr(f.value, aliases):
                    bad.append((st, f"in-place method `{_n(st)[:60]}`"))
        chk.ob(rule, fi.where(), f"Polynomial.{mname} does not modify the stored coefficients (aliases followed: {sorted(aliases) or 'none'})", not bad,
               "; ".join(f"line {x.lineno}: {m}" for x, m in bad)[:400], key=f"pure|Polynomial.{mname}")
    if n_checked < 6:
        raise AnchorMissing("Polynomial: read-only methods (integrate, evaluate, derivative, matrix ...) not found")


def _n(x) -> str:
    return " ".join(ast.unparse(x).split())
