"""C17 -- grid coordinate maps are monotone bijections with consistent Jacobians.

R17.1 compactificationDerivatives == d(decompactify)/d(compact coordinate), 3 directions, both grids
R17.2 Grid.compactify o Grid.decompactify == id
R17.3 z(0) == wall centre; three-scale slope at the centre == wallThickness/ratioPointsWall
R17.4 Jacobians positive (Grid always; Grid3Scales as a sum of non-negative terms when smoothing < 1/2)
R17.5 cache coherence: every public mutator of a map parameter re-caches on all paths; nobody else writes
R17.6 rescale == construct: attributes depending on a rescaled constructor argument are re-assigned
R17.7 a subclass overriding decompactify overrides the inverse compactify

Recognition is by role, not by spelling: the maps are compared as terms (terms.Extractor); their arguments are addressed by
position; the caching method is the method that stores all six cached arrays; what the constructor stores / asserts is read off
the constructor's term environment with private helpers inlined (their parameter names do not matter); the root function of the
numerical inverse is evaluated as a closure (a helper wrapping self.decompactify(chi, ., .)[0] is looked through); it may be a lambda, a
nested def, a method or a function of the module, with further parameters bound through the solver's `args=` or functools.partial
(`_root_function_term`: scipy calls f(x, *args); partial(g, a) is lambda *rest: g(a, *rest)).
"""
from __future__ import annotations

import ast

import sympy as sp

from ..core import AnchorMissing, Check, Undecided, attr_stores, calls_in, dotted, kwarg, own_nodes, src
from ..flow import CFG
from ..nf import Ctx
from ..terms import Closure, Extractor, is_zero

LEVEL = "proof"
GRIDS = ("grid:Grid", "grid3Scales:Grid3Scales")
DIRS = ("zCompact", "pzCompact", "ppCompact")
POS = {"self.wallThickness", "self.ratioPointsWall", "self.tailLengthInside", "self.tailLengthOutside",
       "self.aIn", "self.aOut", "self.smoothing", "self.momentumFalloffT", "self.positionFalloff"}
CACHED = {"xiValues", "pzValues", "ppValues", "dxidchi", "dpzdrz", "dppdrp"}


def _self_reads(fnode: ast.AST) -> set[str]:
    out = set()
    for n in ast.walk(fnode):
        if isinstance(n, ast.Attribute) and isinstance(n.value, ast.Name) and n.value.id == "self" \
                and isinstance(n.ctx, ast.Load):
            out.add(n.attr)
    return out


def _map_args(fi, k: int = 3) -> list[str]:
    """names of the first k parameters after self of a coordinate map (addressed by position)"""
    p = [a for a in fi.params() if a not in ("self", "cls")]
    if len(p) < k:
        raise AnchorMissing(f"{fi.name}: expected {k} coordinate arguments")
    return p[:k]


def _aligned(ex: Extractor, j, fj, fd):
    """Jacobian terms with the parameters of fj renamed (by position) to those of fd"""
    ren = {ex.sym(a): ex.sym(b) for a, b in zip(_map_args(fj), _map_args(fd)) if a != b}
    return tuple(t.xreplace(ren) if isinstance(t, sp.Basic) else t for t in j) if ren and isinstance(j, tuple) else j


def _cache_method(S, g: str):
    """the method (in the MRO of g) that stores all six cached arrays: the re-caching method, whatever it is called"""
    for ci in S.mro(g):
        for fi in ci.methods.values():
            if CACHED <= {a for a, _ in attr_stores(fi.node)}:
                return fi
    raise AnchorMissing(f"{g}: no method stores all of {sorted(CACHED)}")


def _canonical(ex: Extractor, fi, value, names):
    """value of a coordinate map with its parameters renamed (by position) to the canonical names"""
    ren = {ex.sym(a): ex.sym(b) for a, b in zip(_map_args(fi, len(names)), names) if a != b}
    if not ren:
        return value
    return tuple(t.xreplace(ren) if isinstance(t, sp.Basic) else t for t in value) if isinstance(value, tuple) else value


def jacobian_identity(chk: Check, rule: str, grid: str = "grid3Scales:Grid3Scales", directions=(0,)) -> None:
    """Jacobian == derivative of the map, reusable by the properties that integrate with this Jacobian (C09, C13)."""
    S = chk.src
    ex = Extractor(S, positive=POS)
    fd = S.method(grid, "decompactify")
    fj = S.method(grid, "compactificationDerivatives")
    if fd is None or fj is None:
        raise AnchorMissing(f"{grid}: decompactify / compactificationDerivatives not found")
    chk.touch(fd.name, fj.name)
    d, j = ex.single(fd), ex.single(fj)
    j = _aligned(ex, j, fj, fd)
    for i in directions:
        x = ex.sym(_map_args(fd)[i])
        ok, how = is_zero(sp.diff(d[i], x) - j[i], chk.seed, budget_s=60, allow_numeric=(chk.tier == "quick"))
        chk.ob(rule, fj.where(), f"{grid.split(':')[1]}: Jacobian[{i}] == d decompactify[{i}] / d {DIRS[i]} (the quadrature weight is the derivative of the map "
               "that produced the grid points)", ok, how, key=f"jac|{grid}|{i}", how=how)


def cache_coherence(chk: Check, rule: str = "R17.5") -> None:
    """Typestate rule shared with the properties that consume cached grid data (C09, C13, C16)."""
    S = chk.src
    # ---------------- R17.5 -------------------------------------------------
    params: dict[str, set[str]] = {}
    for g in GRIDS:
        ci = S.cls(g)
        reads = set()
        for ci2 in S.mro(g):
            for m in ("decompactify", "compactificationDerivatives"):
                if m in ci2.methods:
                    reads |= _self_reads(ci2.methods[m].node)
        params[g] = reads
    all_params = set().union(*params.values())
    chk.note(f"map parameters read by the maps: {sorted(all_params)}")
    # stores of derived parameters (aIn, aOut depend on others): any self.<attr> store in the classes
    for g in GRIDS:
        ci = S.cls(g)
        mro = S.mro(g)
        cachefn = _cache_method(S, g)
        meths: dict[str, object] = {}
        for c2 in reversed(mro):
            meths.update(c2.methods)
        P = all_params | {"chiValues", "rzValues", "rpValues"}

        def direct_stores(fi):
            return [(a, n) for a, n in attr_stores(fi.node) if a in P]

        # transitive summaries over self-calls / super().__init__
        def callees(fi):
            out = []
            for n in own_nodes(fi.node):
                if isinstance(n, ast.Call) and isinstance(n.func, ast.Attribute):
                    if isinstance(n.func.value, ast.Name) and n.func.value.id == "self" and n.func.attr in meths:
                        out.append((n, meths[n.func.attr]))
                    elif isinstance(n.func.value, ast.Call) and dotted(n.func.value.func) == "super":
                        for c2 in mro[1:] if fi.cls == ci.name else S.mro(f"{fi.module}:{fi.cls}")[1:]:
                            if n.func.attr in c2.methods:
                                out.append((n, c2.methods[n.func.attr]))
                                break
            return out

        stores_memo: dict = {}

        def stores(fi, depth=0):
            if fi.name in stores_memo:
                return stores_memo[fi.name]
            stores_memo[fi.name] = False
            r_ = bool(direct_stores(fi)) or (depth < 6 and any(stores(c, depth + 1) for _, c in callees(fi)))
            stores_memo[fi.name] = r_
            return r_

        caches_memo: dict = {}

        def always_caches(fi, depth=0):
            if fi.name in caches_memo:
                return caches_memo[fi.name]
            caches_memo[fi.name] = False
            if fi.name == cachefn.name:
                caches_memo[fi.name] = True
                return True
            g_ = CFG(fi.node)
            cn = {g_.node_of(n) for n, c in callees(fi) if depth < 6 and always_caches(c, depth + 1)}
            cn.discard(None)
            r_ = bool(cn) and g_.must_pass(CFG.ENTRY, CFG.EXIT, lambda n: n in cn)
            caches_memo[fi.name] = r_
            return r_

        for name, fi in sorted(ci.methods.items()):
            if name.startswith("_") and name != "__init__":
                continue
            chk.touch(fi.name)
            if not stores(fi):
                continue
            g_ = CFG(fi.node)
            store_nodes = {g_.node_of(n) for _, n in direct_stores(fi)} | \
                          {g_.node_of(n) for n, c in callees(fi) if stores(c)}
            store_nodes.discard(None)
            cache_nodes = {g_.node_of(n) for n, c in callees(fi) if always_caches(c)}
            cache_nodes.discard(None)
            bad = []
            for sn in store_nodes:
                if sn in cache_nodes:
                    continue  # the storing call itself re-caches before returning
                if not g_.must_pass(sn, CFG.EXIT, lambda n: n in cache_nodes):
                    bad.append(f"line {getattr(sn, 'lineno', '?')}")
            chk.ob(rule, fi.where(), f"{ci.name}.{name} changes map parameters and re-caches coordinates and Jacobians "
                   "on every path before returning", not bad, "store not followed by _cacheCoordinates: " + ", ".join(bad),
                   key=f"recache|{ci.name}.{name}")
        # cached attributes written only by _cacheCoordinates
        for name, fi in sorted(ci.methods.items()):
            w = [a for a, _ in attr_stores(fi.node) if a in CACHED]
            if w:
                chk.ob(rule, fi.where(), f"cached coordinates/Jacobians are written only by _cacheCoordinates ({ci.name}.{name} writes {sorted(set(w))})",
                       fi.name == cachefn.name, key=f"cachewriter|{ci.name}.{name}")
    # _cacheCoordinates computes all six from the current compact grids with the (dynamically dispatched) maps
    fcache = _cache_method(S, "grid:Grid")
    chk.touch(fcache.name)
    exc = _StarEx(S)
    cps = [p_ for p_ in exc.paths(fcache) if p_.raised is None]
    grids3 = [exc.sym(a) for a in ("self.chiValues", "self.rzValues", "self.rpValues")]
    want_t = {}
    for fn_, attrs in (("decompactify", ("xiValues", "pzValues", "ppValues")), ("compactificationDerivatives", ("dxidchi", "dpzdrz", "dppdrp"))):
        app = sp.Function(fn_)(*grids3)
        for k_, a_ in enumerate(attrs):
            want_t[f"self.{a_}"] = sp.Function("getitem")(app, sp.Integer(k_))
    got = {k_: sorted({str(p_.env.get(k_)) for p_ in cps}) for k_ in want_t}
    ok = bool(cps) and all(p_.env.get(k_) == v_ for p_ in cps for k_, v_ in want_t.items())
    chk.ob(rule, fcache.where(), "_cacheCoordinates stores (xi,pz,pp) = self.decompactify(chi,rz,rp) and "
           "(dxidchi,dpzdrz,dppdrp) = self.compactificationDerivatives(chi,rz,rp) in matching order", ok, str(got),
           key="cache|assignments")
    # getters return the cached attributes in the same order
    for getter, want in (("getCoordinates", ["self.xiValues", "self.pzValues", "self.ppValues"]),
                         ("getCompactificationDerivatives", ["self.dxidchi", "self.dpzdrz", "self.dppdrp"]),
                         ("getCompactCoordinates", None)):
        fg = S.func(f"grid:Grid.{getter}")
        chk.touch(fg.name)
        if want is None:
            continue
        # without end points (first argument False) the getter hands out exactly the cached arrays
        prm_ = [a for a in fg.params() if a != "self"]
        exg = Extractor(S)
        vals = [p_.value for p_ in exg.paths(fg, {prm_[0]: sp.false} if prm_ else {}) if p_.raised is None]
        okg = bool(vals) and all(isinstance(v_, tuple) and [getattr(e, "name", None) for e in v_] == want for v_ in vals)
        chk.ob(rule, fg.where(), f"{getter}() returns {want} in this order", okg, key=f"getter|{getter}")
    # nobody outside the grid classes writes grid parameters or caches
    outside = []
    guarded = all_params | CACHED | {"chiValues", "rzValues", "rpValues"}
    gridmods = {"grid", "grid3Scales"}
    # names that hold grid objects: parameters annotated Grid/Grid3Scales, locals built by the constructors
    gridnames = set()
    for fi in S.all_funcs():
        a_ = fi.node.args
        for p_ in a_.posonlyargs + a_.args + a_.kwonlyargs:
            if p_.annotation is not None and src(p_.annotation).strip("'\"").split(".")[-1] in ("Grid", "Grid3Scales"):
                gridnames.add(p_.arg)
        for n in own_nodes(fi.node):
            if isinstance(n, (ast.Assign, ast.AnnAssign)) and isinstance(getattr(n, "value", None), ast.Call):
                cn = (dotted(n.value.func) or "").split(".")[-1]
                if cn in ("Grid", "Grid3Scales", "buildGrid"):
                    tg_ = n.targets if isinstance(n, ast.Assign) else [n.target]
                    for t_ in tg_:
                        if isinstance(t_, ast.Name):
                            gridnames.add(t_.id)
    chk.note(f"names holding grid objects: {sorted(gridnames)}")
    for fi in S.all_funcs():
        if fi.module in gridmods and fi.cls in ("Grid", "Grid3Scales"):
            continue
        for n in ast.walk(fi.node):
            tg = []
            if isinstance(n, ast.Assign):
                tg = n.targets
            elif isinstance(n, ast.AugAssign):
                tg = [n.target]
            for t_ in tg:
                for tt in ([t_] if not isinstance(t_, ast.Tuple) else t_.elts):
                    base = tt
                    while isinstance(base, ast.Subscript):
                        base = base.value
                    if isinstance(base, ast.Attribute) and base.attr in guarded:
                        d_ = dotted(base.value) or ""
                        if d_.split(".")[-1] in gridnames:
                            outside.append(fi.where(n))
    chk.ob(rule, "src/WallGo", "no code outside Grid/Grid3Scales stores grid parameters or cached arrays on a grid object",
           not outside, "; ".join(outside), key="outside-writers")



SOLVER_ARGS_POS = {"root_scalar": 1}        # position of `args` in the solver's signature (brentq / brenth / ridder / bisect / toms748 / newton: 3)


def _is_partial(call: ast.AST) -> bool:
    return isinstance(call, ast.Call) and (dotted(call.func) or "") in ("partial", "functools.partial") and len(call.args) >= 1 \
        and not any(isinstance(a, ast.Starred) for a in call.args) and all(k.arg for k in call.keywords)


def _root_function_term(S, fi, solver: ast.Call, ex: Extractor, unknown):
    """the term  f(unknown, *args)  of the function a scalar root finder is called with inside `fi`; None when the function cannot be identified.

    scipy's solvers call `f(x, *args)`.  f may be: a lambda; a nested def or a local name bound (once) to one of the other forms; a method reached
    through self / cls / the class; a function of the module; `functools.partial(g, a, .., k=v)`, which is `lambda *rest: g(a, .., *rest, k=v)`.
    Free names of the extra arguments are symbols (exactly as the free names of a lambda written in place)."""
    env0 = {"__module__": fi.module, "__class__": fi.cls}
    ctx = Ctx(S, fi)
    fn_ = kwarg(solver, "f", 0)
    if fn_ is None:
        fn_ = kwarg(solver, "func", 0)
    short = (dotted(solver.func) or "").split(".")[-1]
    extra = kwarg(solver, "args", SOLVER_ARGS_POS.get(short, 3))
    tail: list = []
    if extra is not None:
        extra = ctx.resolve(extra)
        # scipy: a non-tuple `args` is wrapped into a 1-tuple
        tail = [ex.expr(e, env0, 0) for e in (extra.elts if isinstance(extra, ast.Tuple) else [extra])]
        if any(isinstance(e, ast.Starred) for e in (extra.elts if isinstance(extra, ast.Tuple) else [])):
            return None

    def local_value(name: str):
        bound_ = [st_.value for st_ in own_nodes(fi.node) if isinstance(st_, ast.Assign) and any(isinstance(t_, ast.Name) and t_.id == name for t_ in st_.targets)]
        others = [st_ for st_ in own_nodes(fi.node) if not isinstance(st_, ast.Assign) and isinstance(st_, (ast.AugAssign, ast.AnnAssign, ast.For, ast.NamedExpr, ast.comprehension))
                  and any(isinstance(t_, ast.Name) and t_.id == name and isinstance(t_.ctx, ast.Store) for t_ in ast.walk(st_.target))]
        ann = [st_.value for st_ in others if isinstance(st_, ast.AnnAssign) and st_.value is not None]
        if len(bound_) + len(ann) == 1 and len(others) == len(ann):
            return (bound_ + ann)[0]
        return None

    def unwrap(node, head: list, kws: dict, depth: int = 0):
        """(callable, positional terms bound in front, keyword terms)"""
        if depth > 4 or node is None:
            return None
        if isinstance(node, ast.Lambda):
            return Closure(node, env0, None, fi.cls), head, kws
        if _is_partial(node):
            more = [ex.expr(a, env0, 0) for a in node.args[1:]]
            kw2 = {k.arg: ex.expr(k.value, env0, 0) for k in node.keywords}
            # partial(partial(g, a), b) == partial(g, a, b); the outer keywords override the inner ones
            inner = unwrap(node.args[0], [], {}, depth + 1)
            if inner is None:
                return None
            return inner[0], inner[1] + more + head, {**inner[2], **kw2, **kws}
        if isinstance(node, ast.Name):
            nested = S.modules[fi.module].funcs.get(f"{fi.qual}.{node.id}")
            if nested is not None:
                return Closure(nested.node, env0, None, fi.cls), head, kws
            v_ = local_value(node.id)
            if v_ is not None:
                return unwrap(v_, head, kws, depth + 1)
            tgt = S.resolve_import(fi.module, node.id) or (f"{fi.module}:{node.id}" if node.id in S.modules[fi.module].funcs else None)
            if tgt and S.has_func(tgt):
                return S.func(tgt), head, kws
            return None
        if isinstance(node, ast.Attribute) and isinstance(node.value, ast.Name) and fi.cls:
            own_cls = f"{fi.module}:{fi.cls}"
            if node.value.id in ("self", "cls") or node.value.id == fi.cls:
                m_ = S.method(own_cls, node.attr)
                if m_ is None:
                    return None
                static = any(dotted(d_) == "staticmethod" for d_ in m_.node.decorator_list)
                klass = any(dotted(d_) == "classmethod" for d_ in m_.node.decorator_list)
                if node.value.id == fi.cls and not (static or klass):
                    return None          # an unbound method: its first argument would be the instance
                if node.value.id == "cls" and not (static or klass):
                    return None
                return m_, head, kws
        return None

    got = unwrap(fn_, [], {})
    if got is None:
        return None
    f_, head, kws = got
    args = head + [unknown] + tail
    if isinstance(f_, Closure):
        if len(f_.node.args.args) < len(args) and not f_.node.args.vararg:
            return None
        return ex.apply(f_, args, kws, 0)
    prm = [p_ for p_ in f_.params() if p_ not in ("self", "cls")]
    if len(prm) < len(args) or any(k_ in prm[:len(args)] or k_ not in prm for k_ in kws):
        return None
    if fi.cls and not (set(f_.params()) & {"self", "cls"}):
        # a function of the module / a static method that receives the instance as an argument (`args=(self, target)`): the parameter bound to `self` IS self
        # inside the function -- evaluate a copy with that parameter spelled `self`, in the class of the caller
        me = ex.sym("self")
        bound = dict(zip(prm, args), **kws)
        inst = [p_ for p_, v_ in bound.items() if v_ == me]
        if inst:
            import copy as _copy
            fn2 = _copy.deepcopy(f_.node)
            if len(inst) > 1 or any((isinstance(x, ast.Name) and x.id == "self") or (isinstance(x, ast.arg) and x.arg == "self") for x in ast.walk(fn2)) \
                    or any(isinstance(x, ast.Name) and x.id == inst[0] and isinstance(x.ctx, ast.Store) for x in ast.walk(fn2)):
                return None
            for x in ast.walk(fn2):
                if isinstance(x, ast.Name) and x.id == inst[0]:
                    x.id = "self"
                elif isinstance(x, ast.arg) and x.arg == inst[0]:
                    x.arg = "self"
            return ex.apply(Closure(fn2, {"__module__": f_.module, "__class__": fi.cls}, None, fi.cls), args, kws, 0)
    return ex.apply_func(f_, args, kws, 0)


def rules(chk: Check) -> None:
    # structural typestate rule first: it stays decidable when a map can no longer be extracted as a closed-form term
    chk.stage(cache_coherence, chk, "R17.5")
    S = chk.src
    ex = Extractor(S, positive=POS)
    maps = {}
    # ---------------- R17.1 -------------------------------------------------
    for g in GRIDS:
        fd = S.method(g, "decompactify")
        fj = S.method(g, "compactificationDerivatives")
        if fd is None or fj is None:
            raise AnchorMissing(f"{g}: decompactify / compactificationDerivatives not found")
        chk.touch(fd.name, fj.name)
        d = _canonical(ex, fd, ex.single(fd), DIRS)
        j = _canonical(ex, fj, ex.single(fj), DIRS)
        if not (isinstance(d, tuple) and isinstance(j, tuple) and len(d) == 3 and len(j) == 3):
            raise Undecided(f"{g}: maps do not return 3-tuples")
        maps[g] = (d, j, fd, fj)
        for i, nm in enumerate(DIRS):
            x = ex.sym(nm)
            ok, how = is_zero(sp.diff(d[i], x) - j[i], chk.seed, budget_s=60 if chk.tier == "quick" else 240,
                              allow_numeric=(chk.tier == "quick"))
            chk.ob("R17.1", fj.where(), f"{g.split(':')[1]}: Jacobian[{i}] == d decompactify[{i}] / d {nm}", ok, how,
                   key=f"jac|{g}|{i}", how=how)
            others = [ex.sym(o) for o in DIRS if o != nm]
            chk.ob("R17.1", fd.where(), f"{g.split(':')[1]}: decompactify[{i}] depends on {nm} only (maps act per direction)",
                   not any(d[i].has(o) for o in others) and not any(j[i].has(o) for o in others),
                   key=f"sep|{g}|{i}")

    # ---------------- R17.2 -------------------------------------------------
    fc = S.func("grid:Grid.compactify")
    chk.touch(fc.name)
    args = ("z", "pz", "pp")
    c = _canonical(ex, fc, ex.single(fc), args)
    if not (isinstance(c, tuple) and len(c) == 3):
        raise Undecided("Grid.compactify does not return a 3-tuple")
    d, j, fd, fj = maps["grid:Grid"]
    t = sp.Symbol("t", real=True)
    u = sp.Symbol("u", real=True)
    subs_dom = {ex.sym("zCompact"): sp.tanh(t), ex.sym("pzCompact"): sp.tanh(t), ex.sym("ppCompact"): 1 - 2 * sp.exp(-u)}
    for i, nm in enumerate(DIRS):
        comp = c[i].subs(ex.sym(args[i]), d[i])
        res = (comp - ex.sym(nm)).subs(subs_dom)
        res = res.rewrite(sp.exp) if i == 0 else res
        ok, how = is_zero(sp.simplify(res), chk.seed)
        if ok is None:
            ok, how = is_zero(sp.simplify(res.rewrite(sp.exp)), chk.seed)
        chk.ob("R17.2", fc.where(), f"Grid.compactify[{i}](decompactify[{i}](x)) == x on the open interval", ok, how,
               key=f"inverse|{i}", how=how)
    # the other composition: decompactify(compactify(z)) == z
    for i, nm in enumerate(DIRS):
        comp = d[i].subs(ex.sym(nm), c[i])
        zz = ex.sym(args[i])
        dom = {zz: (sp.sinh(t) * ex.sym("self.positionFalloff") if i == 0 else (2 * ex.sym("self.momentumFalloffT") * t if i == 1
               else ex.sym("self.momentumFalloffT") * sp.exp(u)))}
        res = sp.simplify((comp - zz).subs(dom).rewrite(sp.exp))
        ok, how = is_zero(res, chk.seed)
        chk.ob("R17.2", fc.where(), f"Grid.decompactify[{i}](compactify[{i}](x)) == x", ok, how, key=f"inverse2|{i}", how=how)

    # ---------------- R17.3 -------------------------------------------------
    d3, j3, fd3, fj3 = maps["grid3Scales:Grid3Scales"]
    z0 = d3[0].subs(ex.sym("zCompact"), 0)
    ok, how = is_zero(z0 - ex.sym("self.wallCenter"), chk.seed)
    chk.ob("R17.3", fd3.where(), "Grid3Scales: z(chi=0) == wallCenter", ok, how, key="centre|3scales", how=how)
    ok, how = is_zero(d[0].subs(ex.sym("zCompact"), 0), chk.seed)
    chk.ob("R17.3", fd.where(), "Grid: z(chi=0) == 0", ok, how, key="centre|grid", how=how)
    # what the constructor stores and asserts, in terms of its own (public) arguments: private helpers are inlined, so neither their
    # names nor their parameter names matter
    g3 = "grid3Scales:Grid3Scales"
    init3 = S.method(g3, "__init__")
    cache3 = _cache_method(S, g3)
    scales = ("wallThickness", "ratioPointsWall", "smoothing", "tailLengthInside", "tailLengthOutside")
    missing = [q for q in scales + ("wallCenter",) if q not in init3.params()]
    if missing:
        raise AnchorMissing(f"Grid3Scales.__init__ has no parameter(s) {missing}")
    exu = _AssertEx(S, positive=set(scales), inline=lambda n: n.split(":")[0] in ("grid", "grid3Scales") and n != cache3.name)
    ps = [p for p in exu.paths(init3) if p.raised is None]
    if not ps:
        raise Undecided("Grid3Scales.__init__: no normal path")
    envs = [p.env for p in ps]
    envu = {k: v for k, v in envs[0].items() if k.startswith("self.") and all(e.get(k) == v for e in envs[1:])}
    # the method that computes the derived parameters (for the location of the reports)
    own = [fi_ for fi_ in S.cls(g3).methods.values() if "aIn" in {a_ for a_, _ in attr_stores(fi_.node)}]
    fu = own[0] if own else init3
    chk.touch(fu.name, init3.name)
    L, r, s_, tin, tout = (exu.sym(n) for n in scales)
    direct = {"self.wallThickness": L, "self.ratioPointsWall": r, "self.smoothing": s_, "self.tailLengthInside": tin,
              "self.tailLengthOutside": tout, "self.wallCenter": exu.sym("wallCenter")}
    for k, v in direct.items():
        chk.ob("R17.3", fu.where(), f"_updateParameters stores {k} from the argument of the same name", envu.get(k) == v,
               f"found {envu.get(k)}", key=f"store|{k}")
    dIn, dOut = sp.Symbol("dIn", positive=True), sp.Symbol("dOut", positive=True)
    # the class's own asserts: tail > L (1/2 + s)/r   <=>   2 r tail = L(1+2s) + d, d > 0
    asserted = _asserts_tail_bounds(exu.asserted, L, r, s_, tin, tout)
    chk.ob("R17.3", fu.where(), "_updateParameters asserts tail lengths > wallThickness*(1/2+smoothing)/ratioPointsWall, "
           "wallThickness > 0, smoothing > 0, 0 < ratioPointsWall < 1 (the assumptions of the proofs below)", asserted,
           key="asserts")
    sub_par = {ex.sym("self.wallThickness"): L, ex.sym("self.ratioPointsWall"): r, ex.sym("self.smoothing"): s_,
               ex.sym("self.tailLengthInside"): tin, ex.sym("self.tailLengthOutside"): tout}
    aIn, aOut = envu.get("self.aIn"), envu.get("self.aOut")
    if not isinstance(aIn, sp.Basic) or not isinstance(aOut, sp.Basic):
        raise AnchorMissing("the constructor of Grid3Scales does not assign aIn / aOut")
    sub_par[ex.sym("self.aIn")] = aIn
    sub_par[ex.sym("self.aOut")] = aOut
    slope = j3[0].subs(ex.sym("zCompact"), 0).subs(sub_par, simultaneous=True)
    slope = slope.subs({tin: (L * (1 + 2 * s_) + dIn) / (2 * r), tout: (L * (1 + 2 * s_) + dOut) / (2 * r)})
    ok, how = is_zero(sp.simplify(slope - L / r), chk.seed)
    chk.ob("R17.3", fj3.where(), "Grid3Scales: slope at the centre == wallThickness / ratioPointsWall (aIn, aOut substituted)",
           ok, how, key="slope", how=how)

    # ---------------- R17.4 -------------------------------------------------
    # Grid
    jg = j
    pos_dom = {ex.sym("zCompact"): sp.tanh(t), ex.sym("pzCompact"): sp.tanh(t), ex.sym("ppCompact"): 1 - 2 * sp.exp(-u)}
    for i in range(3):
        e = sp.simplify(jg[i].subs(pos_dom))
        chk.ob("R17.4", fj.where(), f"Grid: Jacobian[{i}] > 0 on the open interval", e.is_positive is True, str(e),
               key=f"positive|grid|{i}", how="sign-analysis")
    for i in (1, 2):
        e = sp.simplify(j3[i].subs(pos_dom))
        chk.ob("R17.4", fj3.where(), f"Grid3Scales: Jacobian[{i}] > 0 on the open interval", e.is_positive is True, str(e),
               key=f"positive|3scales|{i}", how="sign-analysis")
    # Grid3Scales position Jacobian: replace (1 -/+ u/sqrt(a^2+u^2)) by positive symbols, then sign analysis
    e = j3[0]
    chi = ex.sym("zCompact")
    wild_terms = []

    def bounded(expr):
        # u * (a**2 + u**2)**(-1/2)  with a positive  -> value in (-1, 1)
        if isinstance(expr, sp.Mul):
            for f in expr.args:
                if isinstance(f, sp.Pow) and f.exp == sp.Rational(-1, 2) and isinstance(f.base, sp.Add) and len(f.base.args) == 2:
                    rest = expr / f
                    a2 = f.base - rest**2
                    if sp.simplify(a2).is_positive:
                        return True
        return False

    cnt = [0]

    def repl(expr):
        if isinstance(expr, sp.Add) and len(expr.args) == 2 and sp.Integer(1) in expr.args:
            other = [a for a in expr.args if a != 1][0]
            if bounded(other) or bounded(-other):
                cnt[0] += 1
                return sp.Symbol(f"pos{cnt[0]}__", positive=True)
        return expr

    e2 = e.replace(lambda x: isinstance(x, sp.Add), repl)
    delta = sp.Symbol("delta", positive=True)  # smoothing = 1/2 - delta... i.e. smoothing < 1/2
    e2 = e2.subs({ex.sym("self.tailLengthInside"): (ex.sym("self.wallThickness") * (1 + 2 * ex.sym("self.smoothing")) + dIn) / (2 * ex.sym("self.ratioPointsWall")),
                  ex.sym("self.tailLengthOutside"): (ex.sym("self.wallThickness") * (1 + 2 * ex.sym("self.smoothing")) + dOut) / (2 * ex.sym("self.ratioPointsWall"))})
    e2 = e2.subs(chi, sp.tanh(t))
    half = sp.Symbol("h__", positive=True)
    e3 = sp.simplify(e2.subs(ex.sym("self.smoothing"), sp.Rational(1, 2) * half / (1 + half)))  # smoothing in (0, 1/2)
    num, den = sp.fraction(sp.together(e3))
    pos_ok = (sp.expand(num).is_positive is True and sp.expand(den).is_positive is True) or e3.is_positive is True
    chk.ob("R17.4", fj3.where(), "Grid3Scales: position Jacobian > 0 for smoothing < 1/2 under the class's asserts "
           "(sum of non-negative terms; 1/2 <= smoothing < 1 is not decided)", pos_ok,
           f"{cnt[0]} bounded factors abstracted", key="positive|3scales|0", how="sign-analysis")
    # the default smoothing values respect the bound
    sm_defaults = []
    gi = S.func("grid3Scales:Grid3Scales.__init__")
    a = gi.node.args
    names = [x.arg for x in a.args]
    dfl = dict(zip(names[len(names) - len(a.defaults):], a.defaults))
    if "smoothing" in dfl and isinstance(dfl["smoothing"], ast.Constant):
        sm_defaults.append(("Grid3Scales.__init__", dfl["smoothing"].value))
    cfg = S.cls("config:ConfigGrid")
    for st in cfg.node.body:
        if isinstance(st, ast.AnnAssign) and isinstance(st.target, ast.Name) and st.target.id == "smoothing" \
                and isinstance(st.value, ast.Constant):
            sm_defaults.append(("ConfigGrid.smoothing", st.value.value))
    chk.ob("R17.4", "src/WallGo/config.py", "default smoothing values lie in (0, 1/2), where monotonicity is proved",
           len(sm_defaults) == 2 and all(0 < v < 0.5 for _, v in sm_defaults), str(sm_defaults), key="smoothing-defaults")


    # ---------------- R17.6 -------------------------------------------------
    for g, ctor_cls in (("grid:Grid", "grid:Grid"), ("grid3Scales:Grid3Scales", "grid3Scales:Grid3Scales")):
        ci = S.cls(g)
        nocache = _cache_method(S, g).name       # the re-caching method only fills the cache: not part of the parameters compared here
        exc = Extractor(S, inline=lambda n: n.split(":")[0] in ("grid", "grid3Scales") and n != nocache)
        init = S.method(g, "__init__")
        cpaths = [p for p in exc.paths(init) if p.raised is None]
        if not cpaths:
            raise Undecided(f"{g}.__init__: no path")
        C = {k[5:]: v for k, v in cpaths[0].env.items() if k.startswith("self.") and isinstance(v, sp.Basic)}
        cparams = set(init.params()) - {"self"}
        for name, fi in sorted(ci.methods.items()):
            if not name.startswith("change"):
                continue
            chk.touch(fi.name)
            exr = Extractor(S, inline=lambda n: n.split(":")[0] in ("grid", "grid3Scales") and n != nocache)
            rp = [p for p in exr.paths(fi) if p.raised is None]
            if not rp:
                raise Undecided(f"{fi.name}: no normal path")
            # several syntactic paths: every one must re-assign (take the attributes assigned on all of them)
            Rs = [{k[5:]: v for k, v in p_.env.items() if k.startswith("self.") and isinstance(v, sp.Basic)} for p_ in rp]
            R = {k: v for k, v in Rs[0].items() if all(k in r2 and r2[k] == v for r2 in Rs[1:])}
            mparams = [p for p in fi.params() if p != "self"]
            # correspondence: method param p  <->  ctor param q  when  self.a = p  here and  C[a] == q
            corr = {}
            for a_, v in R.items():
                if isinstance(v, sp.Symbol) and v.name in mparams and isinstance(C.get(a_), sp.Symbol) and C[a_].name in cparams:
                    corr[v.name] = C[a_].name
            chk.ob("R17.6", fi.where(), f"{ci.name}.{name}: every argument is stored into the attribute its constructor counterpart initialises",
                   set(corr) == set(mparams), f"matched {corr}, parameters {mparams}", key=f"corr|{ci.name}.{name}")
            new = {q: sp.Symbol(f"{q}__new", real=True) for q in corr.values()}
            bad = []
            for a_, cv in sorted(C.items()):
                if not any(cv.has(sp.Symbol(q, real=True)) or cv.has(exc.sym(q)) for q in new):
                    continue
                want = cv.subs({exc.sym(q): s for q, s in new.items()})
                if a_ in R:
                    have = R[a_]
                    # old attribute values inside R are the constructor values
                    have = have.subs({exr.sym(f"self.{b}"): C[b] for b in C}, simultaneous=True)
                    have = have.subs({exr.sym(p): new[q] for p, q in corr.items()}, simultaneous=True)
                else:
                    have = cv
                ok_, how = is_zero(have - want, chk.seed)
                if not ok_:
                    bad.append(a_)
                chk.ob("R17.6", fi.where(), f"{ci.name}.{name}: attribute `{a_}` ends up as the constructor would set it for the new scales",
                       ok_, ("not re-assigned by the rescaling method" if a_ not in R else how), key=f"rescale|{ci.name}.{name}|{a_}", how=how)

    # ---------------- R17.7 -------------------------------------------------
    for g in GRIDS[1:]:
        ci = S.cls(g)
        if "decompactify" in ci.methods:
            chk.ob("R17.7", S.func(f"{g}.decompactify").where(),
                   f"{ci.name} overrides decompactify, so it must override the inverse map compactify "
                   "(the inherited one inverts the base-class map)", "compactify" in ci.methods,
                   f"{ci.name}.compactify is inherited from Grid", key=f"override|{ci.name}")
    # the overriding inverse must invert the class's own map: its root function is self.decompactify(chi, ...)[0] - target,
    # the momentum directions are delegated to Grid.compactify (closed forms, proved inverse in R17.2) and the momentum maps are Grid's
    for g in GRIDS[1:]:
        ci = S.cls(g)
        fcomp = ci.methods.get("compactify")
        if fcomp is None:
            continue
        chk.touch(fcomp.name)
        roots = [c_ for c_ in own_nodes(fcomp.node) if isinstance(c_, ast.Call)
                 and (dotted(c_.func) or "").split(".")[-1] in ("brentq", "brenth", "ridder", "toms748", "root_scalar", "bisect", "newton")]
        okr = bool(roots)
        shown = []
        for r_ in roots:
            # the root function, evaluated on a fresh symbol in the position of the unknown: a term of the form  self.decompactify(chi, ., .)[0] - target.
            # It may be a lambda, a nested def, a method or a module-level function; further parameters may be bound through `args=` of the
            # solver or through functools.partial (see _root_function_term)
            one = False
            exf = Extractor(S)
            chi_ = sp.Symbol("chi__", real=True)
            try:
                val_ = _root_function_term(S, fcomp, r_, exf, chi_)
            except Undecided as e_:
                val_ = None
                shown.append(str(e_))
            if isinstance(val_, sp.Basic):
                shown.append(str(val_))
                apps = [a_ for a_ in val_.atoms(sp.Function) if isinstance(a_, sp.core.function.AppliedUndef) and a_.func.__name__ == "decompactify"]
                if len(apps) == 1 and len(apps[0].args) == 3 and apps[0].args[0] == chi_:
                    rest_ = sp.expand(val_ - sp.Function("getitem")(apps[0], sp.Integer(0)))
                    one = not rest_.has(chi_) and not rest_.has(apps[0]) and rest_ != 0
            okr = okr and one
        chk.ob("R17.7", fcomp.where(), f"{ci.name}.compactify solves self.decompactify(chi, ., .)[0] == z for chi (it inverts the class's own position map)",
               okr, "; ".join(shown)[:300], key=f"inverse-of-own-map|{ci.name}")
        sup = [c_ for c_ in own_nodes(fcomp.node) if isinstance(c_, ast.Call) and isinstance(c_.func, ast.Attribute) and c_.func.attr == "compactify"
               and isinstance(c_.func.value, ast.Call) and dotted(c_.func.value.func) == "super"]
        rets = [r_ for r_ in own_nodes(fcomp.node) if isinstance(r_, ast.Return)]
        retv = [Ctx(S, fcomp).resolve(r_.value) if r_.value is not None else None for r_ in rets]
        oks = len(sup) == 1 and len(rets) == 1 and isinstance(retv[0], ast.Tuple) and len(retv[0].elts) == 3
        chk.ob("R17.7", fcomp.where(), f"{ci.name}.compactify delegates the momentum directions to Grid.compactify and returns three components", oks,
               key=f"momentum-delegated|{ci.name}")
        d3_, _, _, _ = maps[g]
        dg_, _, _, _ = maps["grid:Grid"]
        okm = all(is_zero(d3_[i] - dg_[i], chk.seed)[0] for i in (1, 2))
        chk.ob("R17.7", fcomp.where(), f"{ci.name} uses Grid's momentum maps unchanged, so Grid's closed-form momentum inverses apply", okm, key=f"momentum-maps|{ci.name}")
    # callers of compactify on a Grid3Scales (informational)
    users = []
    for fi in S.all_funcs():
        for c_ in calls_in(fi.node, "compactify"):
            users.append(fi.where(c_))
    chk.note(f"call sites of compactify in the package: {users}")

    chk.floor("R17.1", 12)
    chk.floor("R17.2", 6)
    chk.floor("R17.3", 9)
    chk.floor("R17.4", 7)
    chk.floor("R17.5", 8)
    chk.floor("R17.6", 8)
    chk.floor("R17.7", 4)
    # R17.8: with endpoints=True coordinates, compact coordinates and Jacobians are padded at the same ends per direction (used element by element)
    from .shared import endpoint_padding_agrees, no_inplace_mutation_of_aliased_state
    chk.stage(endpoint_padding_agrees, chk, "R17.8")
    # R17.9: the grid classes never update a cached array through a view (the cache stays what _cacheCoordinates computed)
    chk.stage(no_inplace_mutation_of_aliased_state, chk, "R17.9", ("grid", "grid3Scales"), 1)


class _StarEx(Extractor):
    """terms.Extractor that splices `*t` arguments when t evaluates to a tuple / list (f(*(a, b)) is f(a, b))"""

    def call(self, n, env, depth):
        if any(isinstance(a, ast.Starred) for a in n.args):
            env2, args2 = dict(env), []
            for i, a in enumerate(n.args):
                v = self.expr(a.value, env, depth) if isinstance(a, ast.Starred) else None
                if isinstance(v, (tuple, list)):
                    for k, x in enumerate(v):
                        env2[f"star{i}_{k}__"] = x
                        args2.append(ast.Name(id=f"star{i}_{k}__", ctx=ast.Load()))
                else:
                    args2.append(a)
            n = ast.copy_location(ast.Call(func=n.func, args=args2, keywords=n.keywords), n)
            env = env2
        return super().call(n, env, depth)


class _AssertEx(Extractor):
    """terms.Extractor that also records the terms of the assert statements it passes (with helpers inlined, in the caller's symbols)"""

    def __init__(self, *a, **kw):
        super().__init__(*a, **kw)
        self.asserted: list = []

    def stmt(self, st, env, guards, depth):
        if isinstance(st, ast.Assert):
            try:
                t = self.expr(st.test, env, depth)
                if isinstance(t, sp.Basic):
                    self.asserted.append(t)
            except Undecided:
                pass
        return super().stmt(st, env, guards, depth)


def _strict(t) -> list:
    """[(big, small)] of the strict inequalities big > small asserted by the term t (conjunctions / chains flattened)"""
    name = getattr(getattr(t, "func", None), "__name__", "")
    if name == "AND":
        return [q for a in t.args for q in _strict(a)]
    if name == "GT" and len(t.args) == 2:
        return [(t.args[0], t.args[1])]
    if name == "LT" and len(t.args) == 2:
        return [(t.args[1], t.args[0])]
    return []


def _asserts_tail_bounds(asserted: list, L, r, sm, tin, tout) -> bool:
    rel = [q for t in asserted for q in _strict(t)]
    bound = L * (sp.Rational(1, 2) + sm) / r
    need = {"wallThickness > 0": L, "smoothing > 0": sm, "tin": tin - bound, "tout": tout - bound, "ratio > 0": r, "ratio < 1": 1 - r}

    def has(diff) -> bool:
        return any(sp.simplify((big - small) - diff) == 0 for big, small in rel)
    return all(has(v) for v in need.values())
