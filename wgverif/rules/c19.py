"""C19 -- finite-difference derivatives are exact on low-degree polynomials.

R19.1  exact-rational moment conditions of every stencil row (tables folded from the AST)
R19.2  bound safety of the row selection (the row selector of helpers.derivative as a function of the distance to the bounds)
R19.3  pairing: position/coefficient tables, common selector, power of the step, stencil axis
R19.4  EffectivePotential.derivT bounds the temperature derivative below by 0
R19.5  positions and coefficients are built from one exactly representable step h = (x + h) - x (def-use chains)

How the code is recognised (spelling independent): helpers.derivative / gradient / hessian are *evaluated* by `_Ex19`, a term
extractor with decided numeric comparisons (n and order are fixed per run) that keeps table accesses as TABV(table, selectors...).
The rules decode the returned term  sum_k coeff_k * f(pos_k):  the positions are the first argument of the call of the
differentiated function (parameter 0), the coefficients are its cofactor under the sum; the step is the public parameter `dx`
(or `scale` when dx is None), the row selector is the non-trivial entry of the table selector.  Locals (`offset`, `dxFloat`,
`pos`, `coeff`, `temp`, ...), temporaries, extracted helpers, keyword arguments and the nesting of the n / order branches never
appear in what is compared.  Module-level temporaries holding (parts of) a table are inlined before the table is folded.
Module-level *constants* built from the tables (`_STENCILS = {1: (FIRST_DERIV_POS, FIRST_DERIV_COEFF), ..}`, pairs, aliases; bound once, never
stored into anywhere in the package) are evaluated like a local display and count as tables in the def-use chains of R19.5.
`np.multiply.outer(a, b)` is evaluated exactly as `a[(...,) + (None,) * b.ndim] * b`; the number of axes of b must follow from its construction
(`_layout`), otherwise the statement is undecided.  The axis algebra (`_apply_sel`, `_layout`) also places the stencil axis of every table access
of gradient / hessian on the axis that is summed over.
"""
from __future__ import annotations

import ast
import copy
from fractions import Fraction
from math import factorial

import sympy as sp

from ..core import AnchorMissing, Check, Undecided, dotted, kwarg, src, calls_in
from ..fold import fold
from ..nf import Ctx
from ..terms import Extractor, Opaque, _Ret

LEVEL = "proof"
TABLES = ["FIRST_DERIV_COEFF", "SECOND_DERIV_COEFF", "FIRST_DERIV_POS", "SECOND_DERIV_POS",
          "HESSIAN_POS", "HESSIAN_COEFF"]

TABV, GETI, RESHAPE, EXPAND, TRANSPOSE, SUMA, ONES, IDENT = (sp.Function(x) for x in ("TABV", "GETI", "RESHAPE", "EXPAND", "TRANSPOSE", "SUMA", "ONES", "IDENT"))
LINEAR = (GETI, RESHAPE, EXPAND, TRANSPOSE)       # f(a, shape...) is linear in a
COLON, NONE, DOTS, TSEL = sp.Symbol(":"), sp.Symbol("None"), sp.Symbol("..."), sp.Symbol("T")


def _fn(t, f) -> bool:
    return isinstance(t, sp.Basic) and getattr(t, "func", None) == f


def _inline_globals(node: ast.expr, globs: dict, depth: int = 0) -> ast.expr:
    """table expression with module-level temporaries (names bound once at module level) replaced by their definitions"""
    class R(ast.NodeTransformer):
        def visit_Name(self, x):
            if isinstance(x.ctx, ast.Load) and x.id in globs and depth < 6:
                return _inline_globals(globs[x.id], globs, depth + 1)
            return x
    return R().visit(copy.deepcopy(node))


def _tables(chk: Check) -> dict:
    m = chk.src.module("helpers")
    out = {}
    for t in TABLES:
        if t not in m.globals:
            raise AnchorMissing(f"helpers.{t} not found")
        out[t] = fold(_inline_globals(m.globals[t], {k: v for k, v in m.globals.items() if k != t}))
        chk.touch(f"helpers:{t}")
    return out


def _is_table_name(nm: str) -> bool:
    return nm.endswith("_POS") or nm.endswith("_COEFF")


MUTATORS = {"update", "pop", "popitem", "clear", "setdefault", "append", "extend", "insert", "remove", "sort", "reverse", "fill", "put", "itemset", "resize",
            "__setitem__", "__delitem__"}


def _module_constants(S, modname: str) -> dict:
    """name -> defining expression of the module-level names that are constants: bound exactly once at the top level of the module (never in a
    nested block, never by an import / def / class / loop), not declared `global` anywhere, and never stored into (`NAME[k] = ..`, `NAME.a = ..`,
    `NAME += ..`) anywhere in the package"""
    cache = S.__dict__.setdefault("_c19_module_constants", {})
    if modname in cache:
        return cache[modname]
    m = S.modules[modname]
    count: dict = {}
    value: dict = {}

    def bump(t, v=None):
        if isinstance(t, ast.Name):
            count[t.id] = count.get(t.id, 0) + 1
            if v is not None:
                value[t.id] = v
        elif isinstance(t, (ast.Tuple, ast.List, ast.Starred)):
            for x in (t.elts if not isinstance(t, ast.Starred) else [t.value]):
                bump(x)
                bump(x)

    for st in m.tree.body:
        if isinstance(st, ast.Assign):
            for t in st.targets:
                bump(t, st.value if len(st.targets) == 1 else None)
                if len(st.targets) != 1:
                    bump(t)
        elif isinstance(st, ast.AnnAssign) and st.value is not None:
            bump(st.target, st.value)
        elif isinstance(st, (ast.FunctionDef, ast.AsyncFunctionDef, ast.ClassDef)):
            count[st.name] = count.get(st.name, 0) + 2
        elif isinstance(st, (ast.Import, ast.ImportFrom)):
            for al in st.names:
                nm = (al.asname or al.name).split(".")[0]
                count[nm] = count.get(nm, 0) + 2
        elif isinstance(st, ast.Expr):
            continue
        else:
            # anything else at module level (if / for / try / with / del / augmented assignment): every name it binds is not a constant
            for x in ast.walk(st):
                if isinstance(x, ast.Name) and isinstance(x.ctx, (ast.Store, ast.Del)):
                    count[x.id] = count.get(x.id, 0) + 2
    spoiled = set()
    for mm in S.modules.values():
        for x in ast.walk(mm.tree):
            if isinstance(x, (ast.Global, ast.Nonlocal)):
                spoiled |= set(x.names)
            else:
                b = None
                if isinstance(x, (ast.Subscript, ast.Attribute)) and isinstance(x.ctx, (ast.Store, ast.Del)):
                    b = x
                elif isinstance(x, ast.Call) and isinstance(x.func, ast.Attribute) and x.func.attr in MUTATORS:
                    b = x.func.value
                # NAME[k] = .., module.NAME[k] = .., NAME.update(..): every name on the way to the base is no longer a constant
                while isinstance(b, (ast.Subscript, ast.Attribute)):
                    if isinstance(b, ast.Attribute):
                        spoiled.add(b.attr)
                    b = b.value
                if isinstance(b, ast.Name):
                    spoiled.add(b.id)
    out = {k: v for k, v in value.items() if count.get(k) == 1 and k not in spoiled}
    cache[modname] = out
    return out


def _table_derived(S, modname: str) -> set:
    """module-level constants whose value is built from the stencil tables (a dict / tuple display of tables, an alias, a selection), transitively"""
    consts = _module_constants(S, modname)
    out: set = set()
    changed = True
    while changed:
        changed = False
        for k, v in consts.items():
            if k in out or _is_table_name(k):
                continue
            if any(isinstance(x, ast.Name) and (_is_table_name(x.id) or x.id in out) for x in ast.walk(v)):
                out.add(k)
                changed = True
    return out


def _table_rank(S, name: str):
    """number of axes of the arrays held by the table `name` (the same for every order key), None when not decided"""
    cache = S.__dict__.setdefault("_c19_table_rank", {})
    if name not in cache:
        r = None
        try:
            m = S.modules["helpers"]
            t = fold(_inline_globals(m.globals[name], {k: v for k, v in m.globals.items() if k != name}))

            def depth(v):
                if isinstance(v, list):
                    ds = {depth(x) for x in v}
                    return 1 + ds.pop() if len(ds) == 1 and None not in ds else None
                return 0
            if isinstance(t, dict) and t:
                ds = {depth(v) for v in t.values()}
                r = ds.pop() if len(ds) == 1 else None
        except (Undecided, KeyError):
            r = None
        cache[name] = r
    return cache[name]


def _index_rank(e):
    """rank of an index expression: 0 for an integer, 1 for a list (a list display of scalars, list(..), np.arange(..).tolist(), range(..)); None otherwise
    (index arrays shaped like the input, symbols).  The axis lists of gradient / hessian are lists of integers (each element is compared with
    nbrVariables in an assert), which is what the pinned spelling `identity[axisList, None, :]` relies on as well."""
    if isinstance(e, sp.Integer):
        return 0
    if isinstance(e, sp.Tuple):
        return 1 if all(not isinstance(x, sp.Tuple) for x in e) else None
    if isinstance(e, sp.core.function.AppliedUndef) and e.func.__name__ in ("list", "np.arange", "numpy.arange", "range"):
        return 1
    return None


IDX = "<list>"      # label of the result axis made by a list index


def _apply_sel(axes, sel, lenient: bool = False):
    """axis labels after subscripting a value with axis labels `axes` by the selector `sel` (numpy basic indexing plus at most one list index);
    None when not decided.  New axes are labelled None, the axis made by a list index IDX.  `lenient`: an index whose construction is not visible
    (the result of a helper, a value merged from several branches) is taken to be the list of axes, as the pairing rule has always done."""
    if axes is None:
        return None
    if sel == TSEL:
        return list(axes[::-1])
    if not isinstance(sel, sp.Tuple):
        return None
    entries = list(sel)
    consuming = [e for e in entries if e not in (NONE, DOTS)]
    if entries.count(DOTS) > 1 or len(consuming) > len(axes):
        return None
    out, i, lists = [], 0, 0
    for e in entries:
        if e == NONE:
            out.append(None)
        elif e == DOTS:
            k = len(axes) - len(consuming)
            out += list(axes[i:i + k])
            i += k
        elif e == COLON or (isinstance(e, sp.Symbol) and ":" in e.name):
            out.append(axes[i])
            i += 1
        else:
            r = _index_rank(e)
            if r is None and lenient:
                r = 1
            if r == 0:
                i += 1
            elif r == 1:
                lists += 1
                out.append(IDX)
                i += 1
            else:
                return None
    if lists > 1:
        return None
    return out + list(axes[i:])


def _layout(t, S, lenient: bool = False):
    """axis labels of the array term t as far as they follow from its construction: ('tab', k) axis k of a table array, IDX, None (a new / other
    axis); None when the number of axes is not known"""
    if not isinstance(t, sp.Basic):
        return None
    if t.is_number:
        return []
    if _fn(t, IDENT):
        return [("id", 0), ("id", 1)]
    if _fn(t, TABV):
        if len(t.args) < 2 or not isinstance(t.args[1], sp.Tuple) or len(t.args[1]) != 1:
            return None
        r = _table_rank(S, _tabname(t))
        axes = [("tab", k) for k in range(r)] if r is not None else None
        for s in t.args[2:]:
            axes = _apply_sel(axes, s, lenient)
        return axes
    if _fn(t, GETI):
        return _apply_sel(_layout(t.args[0], S, lenient), t.args[1], lenient)
    if _fn(t, TRANSPOSE):
        a = _layout(t.args[0], S, lenient)
        return a[::-1] if a is not None else None
    if _fn(t, EXPAND):
        a = _layout(t.args[0], S, lenient)
        ax = t.args[1]
        ax = list(ax) if isinstance(ax, sp.Tuple) else [ax]
        if a is None or not all(isinstance(k, sp.Integer) for k in ax):
            return None
        rank = len(a) + len(ax)
        where = sorted({int(k) % rank for k in ax})
        if len(where) != len(ax):
            return None
        out, it = [], iter(a)
        for j in range(rank):
            out.append(None if j in where else next(it))
        return out
    if isinstance(t, sp.Mul):
        ls = [_layout(f, S, lenient) for f in t.args]
        if any(l is None for l in ls):
            return None
        rank = max(len(l) for l in ls)
        return [None] * rank           # broadcast product: only the number of axes is used
    return None


def _trailing_axes(t, k: int, S):
    """t[(...,) + (None,) * k]"""
    if k == 0:
        return t
    new = sp.Tuple(DOTS, *([NONE] * k))
    if _fn(t, TABV):
        return TABV(*t.args, new)
    if _fn(t, GETI) and isinstance(t.args[1], sp.Tuple):
        sel = list(t.args[1])
        if DOTS in sel:
            return GETI(t.args[0], sp.Tuple(*sel, *([NONE] * k)))
        base = _layout(t.args[0], S)
        used = len([e for e in sel if e != NONE])
        if base is not None and used <= len(base):
            return GETI(t.args[0], sp.Tuple(*sel, *([COLON] * (len(base) - used)), *([NONE] * k)))
    return GETI(t, new)


def r19_1(chk: Check, tabs: dict) -> None:
    W = "src/WallGo/helpers.py"
    for n, kind in ((1, "FIRST"), (2, "SECOND")):
        C, P = tabs[f"{kind}_DERIV_COEFF"], tabs[f"{kind}_DERIV_POS"]
        chk.ob("R19.1", W, f"{kind}_DERIV tables have the same order keys", set(C) == set(P),
               f"{sorted(C)} vs {sorted(P)}", key=f"keys|{kind}")
        for key in sorted(set(C) & set(P)):
            rows_c, rows_p = C[key], P[key]
            ok_shape = len(rows_c) == len(rows_p) and all(len(a) == len(b) for a, b in zip(rows_c, rows_p))
            chk.ob("R19.1", W, f"{kind}_DERIV order {key}: coefficient and position tables have equal shape",
                   ok_shape, key=f"shape|{kind}|{key}")
            if not ok_shape:
                continue
            for r, (cs, ps) in enumerate(zip(rows_c, rows_p)):
                bad = []
                for k in range(len(cs)):
                    mom = sum(c * p**k for c, p in zip(cs, ps))
                    want = Fraction(factorial(n)) if k == n else Fraction(0)
                    if mom != want:
                        bad.append(f"sum c*pos^{k} = {mom} (want {want})")
                chk.ob("R19.1", W,
                       f"{kind}_DERIV order {key} row {r}: moment conditions k=0..{len(cs)-1} "
                       f"(exact on polynomials of degree <= {len(cs)-1})",
                       not bad, "; ".join(bad), key=f"moments|{kind}|{key}|{r}", how="exact-rational")
                chk.ob("R19.1", W, f"{kind}_DERIV order {key} row {r}: stencil positions are distinct",
                       len(set(ps)) == len(ps), str(ps), key=f"distinct|{kind}|{key}|{r}", how="exact-rational")
    HP, HC = tabs["HESSIAN_POS"], tabs["HESSIAN_COEFF"]
    for key in sorted(set(HP) & set(HC)):
        a, b = HP[key]
        c = HC[key]
        ok_shape = len(a) == len(b) == len(c)
        chk.ob("R19.1", W, f"HESSIAN order {key}: tables have equal length", ok_shape, key=f"hshape|{key}")
        if not ok_shape:
            continue
        deg = int(key) + 1  # exact through total degree order+1
        bad = []
        for j in range(deg + 1):
            for k in range(deg + 1 - j):
                mom = sum(ci * ai**j * bi**k for ci, ai, bi in zip(c, a, b))
                want = Fraction(1) if (j, k) == (1, 1) else Fraction(0)
                if mom != want:
                    bad.append(f"sum c a^{j} b^{k} = {mom} (want {want})")
        chk.ob("R19.1", W, f"HESSIAN order {key}: mixed moments through total degree {deg}", not bad,
               "; ".join(bad), key=f"hmixed|{key}", how="exact-rational")
        bad = []
        for k in range(deg + 1):
            mom = sum(ci * (ai + bi) ** k for ci, ai, bi in zip(c, a, b))
            want = Fraction(2) if k == 2 else Fraction(0)
            if mom != want:
                bad.append(f"sum c (a+b)^{k} = {mom} (want {want})")
        chk.ob("R19.1", W, f"HESSIAN order {key}: diagonal specialisation is a 2nd-derivative stencil through degree {deg}",
               not bad, "; ".join(bad), key=f"hdiag|{key}", how="exact-rational")
    chk.ob("R19.1", W, "HESSIAN tables have the same order keys", set(HP) == set(HC), key="hkeys")
    chk.floor("R19.1", 30)


# ---------------------------------------------------------------- the evaluator
class _Loop:
    """outcome of break / continue"""


class _Ex19(Extractor):
    """terms.Extractor for the three stencil functions: comparisons of numbers / strings are decided, a table access is
    TABV(table, selector, ...) with the selector entries evaluated (not their text), subscripts of other values are GETI(v, entries),
    methods of values keep their receiver (x.reshape(s) -> RESHAPE(x, s); x.tolist() -> x), np.sum -> SUMA(a, axis),
    np.expand_dims -> EXPAND(a, axes), np.full(s, v) -> v * ONES(s), loops run their body once, what cannot be expressed
    becomes a fresh symbol."""

    def __init__(self, source):
        # any private function of helpers is an extracted helper: look through it
        super().__init__(source, inline=lambda name: name.split(":")[0] == "helpers" and name.split(":")[1].startswith("_"))
        self._k = 0
        self._modvals: dict = {}

    def fresh(self):
        self._k += 1
        return sp.Symbol(f"havoc{self._k}__", real=True)

    def soft(self, n, env, depth):
        try:
            v = self.expr(n, env, depth)
        except Undecided:
            return self.fresh()
        return self.term(v)

    def term(self, v):
        if isinstance(v, sp.Basic):
            return v
        if isinstance(v, (list, tuple)):
            return sp.Tuple(*[self.term(x) for x in v])
        if isinstance(v, Opaque):
            return sp.Symbol("str_" + v.text)
        if v is None:
            return NONE
        return self.fresh()

    # ---- statements
    def stmt(self, st, env, guards, depth):
        if isinstance(st, (ast.For, ast.AsyncFor, ast.While)):
            env = dict(env)
            self._rebind_closures(env)
            if not isinstance(st, ast.While):
                for t in ast.walk(st.target):
                    if isinstance(t, ast.Name):
                        env[t.id] = self.fresh()
            return [(e, g, None if isinstance(o, _Loop) else o) for e, g, o in self.block(st.body, env, guards, depth)]
        if isinstance(st, (ast.Break, ast.Continue)):
            return [(env, guards, _Loop())]
        try:
            return super().stmt(st, env, guards, depth)
        except Undecided:
            if isinstance(st, ast.Return):
                return [(env, guards, _Ret(self.fresh()))]
            env = dict(env)
            self._rebind_closures(env)
            tg = st.targets if isinstance(st, ast.Assign) else ([st.target] if isinstance(st, (ast.AnnAssign, ast.AugAssign)) else [])
            for t in tg:
                for x in ([t] if not isinstance(t, (ast.Tuple, ast.List)) else t.elts):
                    while isinstance(x, (ast.Subscript, ast.Starred)):
                        x = x.value
                    d = dotted(x)
                    if d is not None:
                        env[d] = self.fresh()
            return [(env, guards, None)]

    # ---- expressions
    def index(self, v, i):
        if _fn(v, TABV):
            return TABV(*v.args, sp.Tuple(sp.Integer(i)))      # `rowX, rowY = TABLE[key]` is TABLE[key][0], TABLE[key][1]
        if isinstance(v, sp.Basic) and not isinstance(v, sp.Symbol):
            return GETI(v, sp.Tuple(sp.Integer(i)))      # unpacking `lo, hi = t` is t[0], t[1]
        return super().index(v, i)

    def module_value(self, mod: str, name: str, depth: int):
        """value of a module-level constant built from the stencil tables (`_STENCILS = {1: (FIRST_DERIV_POS, FIRST_DERIV_COEFF), ...}`), evaluated in
        the module's own scope; None when `name` is not such a constant"""
        if mod not in self.source.modules or name not in _table_derived(self.source, mod):
            return None
        key = (mod, name)
        if key in self._modvals:
            if self._modvals[key] is _Ex19._BUSY:
                raise Undecided(f"module-level constant {name} is defined through itself")
            return self._modvals[key]
        self._modvals[key] = _Ex19._BUSY
        try:
            v = self.expr(_module_constants(self.source, mod)[name], {"__module__": mod, "__class__": None, "__depth__": depth}, depth)
        except Undecided:
            del self._modvals[key]
            raise
        self._modvals[key] = v
        return v

    _BUSY = object()

    def expr(self, n, env, depth=0):
        if isinstance(n, ast.Name) and n.id in TABLES and n.id not in env:
            return TABV(sp.Symbol(n.id))
        if isinstance(n, ast.Name) and n.id not in env and env.get("__module__"):
            g = self.module_value(env["__module__"], n.id, depth)
            if g is not None:
                return g
        if isinstance(n, ast.Dict) and n.keys and all(isinstance(k, ast.Constant) for k in n.keys):
            return {k.value: self.expr(v, env, depth) for k, v in zip(n.keys, n.values)}      # a dispatch table {1: ..., 2: ...}
        if isinstance(n, ast.JoinedStr) and len(n.values) == 1 and isinstance(n.values[0], ast.FormattedValue) \
                and n.values[0].conversion == -1 and n.values[0].format_spec is None:
            return sp.Function("str")(self.term(self.expr(n.values[0].value, env, depth)))       # f"{order}" is str(order)
        if isinstance(n, ast.Attribute):
            d, base = dotted(n), dotted(n.value)
            if (d is None or (d not in env and base in env)) and n.attr in ("shape", "size", "ndim", "real"):
                v = self.expr(n.value, env, depth)
                if n.attr == "real":
                    return v
                return sp.Function("attr_" + n.attr)(self.term(v))
        return super().expr(n, env, depth)

    def compare(self, n, env, depth):
        if len(n.ops) == 1 and isinstance(n.ops[0], (ast.Eq, ast.NotEq, ast.Lt, ast.LtE, ast.Gt, ast.GtE)):
            try:
                a, b = self.expr(n.left, env, depth), self.expr(n.comparators[0], env, depth)
            except Undecided:
                a = b = None
            if isinstance(a, sp.Basic) and isinstance(b, sp.Basic) and a.is_number and b.is_number and a.is_real and b.is_real:
                r = {ast.Eq: a == b, ast.NotEq: a != b, ast.Lt: a < b, ast.LtE: a <= b, ast.Gt: a > b, ast.GtE: a >= b}[type(n.ops[0])]
                return sp.true if bool(r) else sp.false
            if isinstance(a, Opaque) and isinstance(b, Opaque) and isinstance(n.ops[0], (ast.Eq, ast.NotEq)):
                return sp.true if (a.text == b.text) == isinstance(n.ops[0], ast.Eq) else sp.false
        return super().compare(n, env, depth)

    def subscript(self, n, env, depth):
        v = self.expr(n.value, env, depth)
        sl = n.slice
        if isinstance(v, dict):
            k = self.expr(sl, env, depth)
            key = int(k) if isinstance(k, sp.Integer) else (k.text if isinstance(k, Opaque) else None)
            if key in v:
                return v[key]
            raise Undecided(f"dispatch table without the key {src(sl)}")
        elts = list(sl.elts) if isinstance(sl, ast.Tuple) else [sl]
        sel = []
        for e in elts:
            if isinstance(e, ast.Slice):
                if e.lower is None and e.upper is None and e.step is None:
                    sel.append(COLON)
                else:
                    sel.append(sp.Symbol(":".join("" if b is None else str(self.soft(b, env, depth)) for b in (e.lower, e.upper, e.step))))
            elif isinstance(e, ast.Constant) and e.value is None:
                sel.append(NONE)
            elif isinstance(e, ast.Constant) and e.value is Ellipsis:
                sel.append(DOTS)
            else:
                sel.append(self.soft(e, env, depth))
        if _fn(v, TABV):
            return TABV(*v.args, sp.Tuple(*sel))
        if isinstance(v, (tuple, list)) and len(sel) == 1 and isinstance(sel[0], sp.Integer):
            return v[int(sel[0])]
        if all(s in (COLON, NONE, DOTS) for s in sel):
            if NONE in sel and _fn(v, GETI):
                return GETI(v, sp.Tuple(*sel))      # new axes on a selection: they decide on which result axis the selected list sits
            return v        # broadcasting only
        if isinstance(v, (sp.Basic, tuple, list)):
            return GETI(self.term(v), sp.Tuple(*sel))
        raise Undecided(f"subscript {src(n)[:60]}")

    def call(self, n, env, depth):
        d = dotted(n.func)
        f = n.func
        if d is not None and d not in env:
            parts = d.split(".")
            short, isnp = parts[-1], parts[0] in ("np", "numpy")
            if isnp and short == "transpose" and len(n.args) == 1 and not n.keywords:
                v = self.expr(n.args[0], env, depth)
                return TABV(*v.args, TSEL) if _fn(v, TABV) else TRANSPOSE(self.term(v))
            if isnp and short == "sum" and n.args:
                ax = kwarg(n, "axis", 1)
                return SUMA(self.term(self.expr(n.args[0], env, depth)), self.soft(ax, env, depth) if ax is not None else NONE)
            if isnp and short == "expand_dims" and kwarg(n, "a", 0) is not None and kwarg(n, "axis", 1) is not None:
                return EXPAND(self.term(self.expr(kwarg(n, "a", 0), env, depth)), self.soft(kwarg(n, "axis", 1), env, depth))
            if isnp and short == "full" and kwarg(n, "shape", 0) is not None and kwarg(n, "fill_value", 1) is not None:
                val = self.expr(kwarg(n, "fill_value", 1), env, depth)
                if isinstance(val, sp.Basic):
                    return val * ONES(self.soft(kwarg(n, "shape", 0), env, depth))
            if isnp and short == "square" and len(n.args) == 1 and not n.keywords:
                v = self.expr(n.args[0], env, depth)
                if isinstance(v, sp.Basic):
                    return v**2
            if isnp and short == "ones" and n.args:
                return ONES(self.soft(n.args[0], env, depth))
            if isnp and short in ("identity", "eye") and len(n.args) == 1 and not n.keywords:
                return IDENT(self.soft(n.args[0], env, depth))
            if isnp and parts[1:] == ["multiply", "outer"] and len(n.args) == 2 and not n.keywords:
                # np.multiply.outer(a, b) == a[(...,) + (None,) * b.ndim] * b : all axes of a first, then all axes of b
                a, b = self.expr(n.args[0], env, depth), self.expr(n.args[1], env, depth)
                if not isinstance(a, sp.Basic) or not isinstance(b, sp.Basic):
                    raise Undecided(f"np.multiply.outer of non-terms: {src(n)[:60]}")
                lb = _layout(b, self.source)
                if lb is None:
                    raise Undecided(f"np.multiply.outer: the number of axes of the second operand is not known: {src(n.args[1])[:60]}")
                return _trailing_axes(a, len(lb), self.source) * b
        if isinstance(f, ast.Attribute) and f.attr in ("reshape", "tolist", "flatten", "ravel"):
            b = dotted(f.value)
            if b is None or b in env:
                recv = self.expr(f.value, env, depth)
                if f.attr == "tolist":
                    return recv
                if isinstance(recv, sp.Basic):
                    shape = [self.soft(a, env, depth) for a in n.args]
                    return RESHAPE(recv, *shape)
        return super().call(n, env, depth)


def _unwrap(t):
    """t without linear shape-only wrappers"""
    while isinstance(t, sp.Basic) and any(_fn(t, w) for w in LINEAR) and not _fn(t, GETI):
        t = t.args[0]
    return t


def _deg(e, var):
    """degree of homogeneity of e in `var` (a symbol or an atom), None when e is not homogeneous"""
    if not isinstance(e, sp.Basic) or not e.has(var):
        return sp.Integer(0)
    if e == var:
        return sp.Integer(1)
    if isinstance(e, sp.Mul):
        ds = [_deg(a, var) for a in e.args]
        return None if any(d is None for d in ds) else sum(ds, sp.Integer(0))
    if isinstance(e, sp.Pow):
        d = _deg(e.base, var)
        if d is None or e.exp.has(var) or not e.exp.is_number:
            return None
        return d * e.exp
    if isinstance(e, sp.Add):
        ds = {_deg(a, var) for a in e.args}
        return ds.pop() if len(ds) == 1 else None
    if any(_fn(e, w) for w in LINEAR) and not any(a.has(var) for a in e.args[1:]):
        return _deg(e.args[0], var)
    return None


def _tabs(t):
    return sorted({a for a in t.atoms(sp.Function) if _fn(a, TABV)}, key=str) if isinstance(t, sp.Basic) else []


def _tabname(a):
    return a.args[0].name


class Stencil:
    """decoded  SUMA(coeff * f(pos, ...), axis)"""

    def __init__(self, value, fname: str):
        self.ok, self.why = False, ""
        self.pos = self.coeff = self.axis = None
        v = value
        while _fn(v, RESHAPE) or _fn(v, TRANSPOSE):
            v = v.args[0]
        if not _fn(v, SUMA):
            self.why = f"the result is not a sum over an axis: {str(v)[:80]}"
            return
        prod, self.axis = v.args
        fa = [a for a in prod.atoms(sp.Function) if isinstance(a, sp.core.function.AppliedUndef) and a.func.__name__ == fname]
        if not fa or len({a.args[0] for a in fa}) != 1:
            self.why = "the summand does not evaluate the function at one array of positions"
            return
        facs = sp.Mul.make_args(prod)
        ff = [x for x in facs if any(x.has(a) for a in fa)]
        if len(ff) != 1 or _unwrap(ff[0]) not in fa:
            self.why = "the summand is not coefficients * f(positions)"
            return
        self.pos = _unwrap(fa[0].args[0])
        self.coeff = sp.Mul(*[x for x in facs if x is not ff[0]])
        self.ok = True


def _run(chk: Check, fname: str, fixed: dict):
    """[Stencil] of every normal path of helpers.<fname> with the given parameters fixed"""
    f = chk.src.func(f"helpers:{fname}")
    chk.touch(f.name)
    prm = f.params()
    if not prm:
        raise AnchorMissing(f"helpers.{fname}: no parameters")
    ex = _Ex19(chk.src)
    out = []
    for p in ex.paths(f, dict(fixed)):
        if p.raised is not None or not isinstance(p.value, sp.Basic):
            continue
        st = Stencil(p.value, prm[0])
        # the early exit `n == 0 -> f(x)` does not exist for n in (1, 2); a path that returns something else is reported
        out.append(st)
    if not out:
        raise Undecided(f"helpers.{fname}: no path returns a term for {fixed}")
    return f, ex, out


def _step_ok(st: Stencil, x, step, n, postab, coftab):
    """positions are x + table * step (degree 1), coefficients table / step**n.
    A table access counts as one atom: its row selector compares x +- m*step with the bounds, which is not a dependence on the scale of the step"""
    tp, tc = _tabs(st.pos), _tabs(st.coeff)
    atom = {a: sp.Dummy(f"tab{i}") for i, a in enumerate(tp + [c for c in tc if c not in tp])}
    pos, coeff = st.pos.xreplace(atom), st.coeff.xreplace(atom)
    # the shape arguments of reshape / expand_dims say nothing about the value: drop them (they may mention the array they reshape)
    drop = lambda t: t.replace(lambda e: _fn(e, RESHAPE) or _fn(e, EXPAND), lambda e: e.func(e.args[0])) if isinstance(t, sp.Basic) else t
    pos, coeff = drop(pos), drop(coeff)
    terms = sp.Add.make_args(sp.expand(pos))
    free = sp.Add(*[t for t in terms if not t.has(step)])
    rest = [t for t in terms if t.has(step)]
    dpos = _deg(sp.Add(*rest), step) if _unwrap(free) == x and rest else None

    def linear(ts, tabs):
        """every term has total degree 1 in the table atoms"""
        for t in ts:
            ds = [_deg(t, atom[a]) for a in tabs]
            if any(d is None for d in ds) or sum(ds, sp.Integer(0)) != 1:
                return False
        return bool(ts) and bool(tabs)
    lin_p = linear(rest, tp)
    dco = _deg(coeff, step)
    lin_c = linear(list(sp.Add.make_args(sp.expand(coeff))), tc)
    return dpos, lin_p, dco, lin_c


def _offset_rows(sel_term, x, step, bounds):
    """decode the row selector  zeros - [x + m step > bounds[1]] + [x - m step < bounds[0]] ...  into statements"""
    stmts = []
    for t in sp.Add.make_args(sp.expand(sel_term)):
        c, a = t.as_coeff_Mul()
        name = getattr(a.func, "__name__", "")
        if name in ("np.zeros_like", "np.zeros") or a == 0:
            continue
        if name not in ("GT", "GE", "LT", "LE") or not (c.is_Integer and c != 0):
            raise Undecided(f"row selector term not understood: {t}")
        l, r = a.args
        if l.has(bounds) and not r.has(bounds):
            l, r = r, l
            name = {"GT": "LT", "LT": "GT", "GE": "LE", "LE": "GE"}[name]
        r = _unwrap(r)
        if not (_fn(r, GETI) and r.args[0].has(bounds) and len(r.args[1]) == 1 and r.args[1][0] in (sp.Integer(0), sp.Integer(1), sp.Integer(-1), sp.Integer(-2))):
            raise Undecided(f"row selector bound not understood: {t}")
        idx = int(r.args[1][0]) % 2
        m = sp.simplify((l - x) / step)
        if not m.is_number or m == 0:
            raise Undecided(f"row selector probe not understood: {t}")
        for _ in range(abs(int(c))):
            stmts.append(dict(op=+1 if c > 0 else -1, dirsign=1 if m > 0 else -1, mult=abs(m), cmp={"GT": "Gt", "GE": "GtE", "LT": "Lt", "LE": "LtE"}[name], bound=idx))
    return stmts


def _row_selector(tab):
    """the non-trivial entry of a table selector and whether it selects rows: TABV(T, (key,), 'T', (':', sel)) or TABV(T, (key,), (sel, ':'))"""
    transposed = False
    found = None
    for s in tab.args[2:]:
        if s == TSEL:
            transposed = not transposed
            continue
        if not isinstance(s, sp.Tuple):
            return None
        for i, e in enumerate(s):
            if e in (COLON, NONE, DOTS):
                continue
            if found is not None:
                return None
            ax = i if not any(x == NONE for x in s[:i]) else None
            found = (e, ax, transposed)
    if found is None:
        return None
    e, ax, tr = found
    if _transposed_after_selection(tab):
        return None
    return e if (ax == 1 and tr) or (ax == 0 and not tr) else None


def _transposed_after_selection(tab) -> bool:
    """`TABLE[key][sel].T`: the rows are selected by an index array shaped like the input and the result is transposed afterwards.  `.T` reverses
    ALL axes, so the point axes come out reversed for inputs of rank >= 2 (TABLE[key].T[:, sel] keeps them: the 2-d table is transposed first)."""
    seen_sel = False
    for s in tab.args[2:]:
        if s == TSEL:
            if seen_sel:
                return True
            continue
        if isinstance(s, sp.Tuple) and any(e not in (COLON, NONE, DOTS) for e in s):
            seen_sel = True
    return False


def r19_2(chk: Check, tabs: dict) -> None:
    fi = chk.src.func("helpers:derivative")
    prm = fi.params()
    if len(prm) < 8:
        raise AnchorMissing("helpers.derivative(f, x, n, order, bounds, epsilon, scale, dx, args) not found")
    W = fi.where()
    total = 0
    for kind, n in (("FIRST", 1), ("SECOND", 2)):
        P = tabs[f"{kind}_DERIV_POS"]
        for key in sorted(P):
            order = int(key)
            rows = P[key]
            nrows = len(rows)
            f, ex, sts = _run(chk, "derivative", {"n": sp.Integer(n), "order": sp.Integer(order)})
            x, step, bounds = ex.sym(prm[1]), ex.sym("dx"), ex.sym("bounds")
            sels = set()
            for st in sts:
                if not st.ok:
                    raise Undecided(f"helpers.derivative(n={n}, order={order}): {st.why}")
                for tab in _tabs(st.pos) + _tabs(st.coeff):
                    if _transposed_after_selection(tab):
                        chk.ob("R19.3", W, f"{kind} order {key}: the stencil rows are looked up so that the stencil axis comes first and the axes of the "
                               "input keep their order, for inputs of every rank", False,
                               f"`{_tabname(tab)}[...][rows].T` transposes after the selection by an input-shaped index: the point axes are reversed for rank >= 2",
                               key=f"lookup-axes|{kind}|{key}|{_tabname(tab)}")
                        return
                for tab in _tabs(st.pos):
                    sels.add(_row_selector(tab))
            if len(sels) != 1 or None in sels:
                raise Undecided(f"helpers.derivative(n={n}, order={order}): the row selector of the position table was not found")
            active = _offset_rows(sels.pop(), x, step, bounds)
            total += len(active)
            reach = max(abs(p) for row in rows for p in row)
            # scenarios: d steps available on one side (0..reach), unlimited on the other
            for side in ("up", "lo"):
                for d in range(0, int(reach) + 2):
                    offset = 0
                    for s in active:
                        sside = "up" if s["bound"] == 1 else "lo"
                        # statement triggers when the probe point leaves the interval
                        if sside == "up":
                            probe_out = (s["dirsign"] > 0 and s["cmp"] in ("Gt", "GtE"))
                        else:
                            probe_out = (s["dirsign"] < 0 and s["cmp"] in ("Lt", "LtE"))
                        if not probe_out:
                            # a malformed test (e.g. x + dx < lower bound) never triggers for x inside the bounds
                            continue
                        if sside == side and s["mult"] > d:
                            offset += s["op"]
                    if not (-nrows <= offset < nrows):
                        chk.ob("R19.2", W, f"{kind} order {key}: {d} step(s) from the {side} bound selects an existing row",
                               False, f"offset {offset} out of range for {nrows} rows", key=f"row|{kind}|{key}|{side}|{d}")
                        continue
                    row = rows[offset]  # python negative indexing, as in the code
                    lo_need, up_need = -min(row), max(row)
                    if side == "up":
                        ok = up_need <= d
                        detail = f"offset {offset} -> positions {[str(p) for p in row]}; needs {up_need} step(s) upward, {d} available"
                    else:
                        ok = lo_need <= d
                        detail = f"offset {offset} -> positions {[str(p) for p in row]}; needs {lo_need} step(s) downward, {d} available"
                    chk.ob("R19.2", W,
                           f"{kind} order {key}: point {d} step(s) from the {'upper' if side=='up' else 'lower'} bound never evaluates outside it",
                           ok, detail, key=f"safe|{kind}|{key}|{side}|{d}", how="finite-enumeration")
    if total < 12:
        raise AnchorMissing("helpers.derivative: fewer than 4 bound tests in the row selection")
    chk.floor("R19.2", 20)


def _key_ok(tab, order: int) -> bool:
    """first selector of a table access is the order key: str(order) or the literal"""
    if len(tab.args) < 2 or not isinstance(tab.args[1], sp.Tuple) or len(tab.args[1]) != 1:
        return False
    k = tab.args[1][0]
    return k == sp.Function("str")(sp.Integer(order)) or k == sp.Symbol(f"str_{order}")


def _first_index(tab):
    """first entry of the selector after the order key"""
    for s in tab.args[2:]:
        if isinstance(s, sp.Tuple) and len(s):
            return s[0]
        return None
    return None


WRAPPERS = (GETI, EXPAND, TRANSPOSE, RESHAPE)


def _stencil_axes(term, S) -> list:
    """[(table access, axis -- counted from the end -- on which the one remaining axis of the table array sits in the factor built around it)];
    the axis is None when it does not follow from the construction (more than one table axis left, an index array, a reshape)"""
    out = []

    def visit(e):
        if not isinstance(e, sp.Basic):
            return
        if _fn(e, TABV) or any(_fn(e, w) for w in WRAPPERS):
            inner = e
            while any(_fn(inner, w) for w in WRAPPERS):
                inner = inner.args[0]
            if _fn(inner, TABV):
                lay = _layout(e, S)
                left = [i for i, a in enumerate(lay) if isinstance(a, tuple) and a[0] == "tab"] if lay is not None else []
                out.append((inner, left[0] - len(lay) if len(left) == 1 else None))
                return
            visit(e.args[0])         # the shape arguments say nothing about the value
            return
        if isinstance(e, sp.core.function.AppliedUndef) and (e.func.__name__.startswith("attr_") or e.func.__name__ == "len"):
            return
        for a in e.args:
            visit(a)
    visit(term)
    return out


def r19_3(chk: Check) -> None:
    # ---- derivative(): per n ------------------------------------------------
    fi = chk.src.func("helpers:derivative")
    prm = fi.params()
    for n, want in ((1, "FIRST"), (2, "SECOND")):
        res = dict(count=True, tables=True, selector=True, pos=True, coeff=True, axis=True)
        shown = []
        runs = 0
        for order in (2, 4):
            for dxgiven in (True, False):
                fixed = {"n": sp.Integer(n), "order": sp.Integer(order)}
                if not dxgiven:
                    fixed["dx"] = None
                f, ex, sts = _run(chk, "derivative", fixed)
                x, step = ex.sym(prm[1]), ex.sym("dx" if dxgiven else "scale")
                for st in sts:
                    runs += 1
                    if not st.ok:
                        res = {k: False for k in res}
                        shown.append(st.why)
                        continue
                    tp, tc = _tabs(st.pos), _tabs(st.coeff)
                    pos = [a for a in tp + tc if _tabname(a).endswith("_POS")]
                    cof = [a for a in tp + tc if _tabname(a).endswith("_COEFF")]
                    shown.append(f"pos={[_tabname(a) for a in pos]} coeff={[_tabname(a) for a in cof]}")
                    if not (len(pos) == 1 and len(cof) == 1 and tp == pos and tc == cof):
                        res = {k: False for k in res}
                        continue
                    p, c = pos[0], cof[0]
                    res["tables"] = res["tables"] and _tabname(p) == f"{want}_DERIV_POS" and _tabname(c) == f"{want}_DERIV_COEFF"
                    res["selector"] = res["selector"] and p.args[1:] == c.args[1:] and _key_ok(p, order) and _row_selector(p) is not None
                    dpos, lin_p, dco, lin_c = _step_ok(st, x, step, n, p, c)
                    res["pos"] = res["pos"] and dpos == 1 and lin_p
                    res["coeff"] = res["coeff"] and dco == -n and lin_c
                    res["axis"] = res["axis"] and st.axis == 0
        W = fi.where()
        chk.ob("R19.3", W, f"derivative(): branch n=={n} uses exactly one position and one coefficient table",
               res["count"] and runs >= 4, "; ".join(sorted(set(shown)))[:300], key=f"deriv|n{n}|count")
        if not res["count"]:
            continue
        chk.ob("R19.3", W, f"derivative(): branch n=={n} uses the {want}_DERIV tables", res["tables"], "; ".join(sorted(set(shown)))[:300],
               key=f"deriv|n{n}|tables")
        chk.ob("R19.3", W, f"derivative(): branch n=={n} indexes both tables with the same selector (order key, one row per point, stencil along axis 0)",
               res["selector"] and res["axis"], key=f"deriv|n{n}|selector")
        chk.ob("R19.3", W, f"derivative(): branch n=={n}: positions are x + table*dx (degree 1 in the step)",
               res["pos"], key=f"deriv|n{n}|posdeg", how="cas-proof(homogeneity)")
        chk.ob("R19.3", W, f"derivative(): branch n=={n}: coefficients are divided by dx**{n}",
               res["coeff"], key=f"deriv|n{n}|coeffdeg", how="cas-proof(homogeneity)")
    # ---- gradient() and hessian() ----------------------------------------
    for fname, postab, coftab, n, kaxis in (("gradient", "FIRST_DERIV_POS", "FIRST_DERIV_COEFF", 1, -2),
                                            ("hessian", "HESSIAN_POS", "HESSIAN_COEFF", 2, -3)):
        g = chk.src.func(f"helpers:{fname}")
        gp = g.params()
        res = dict(tables=True, key=True, rows=True, pos=True, coeff=True, axis=True, pair=True, staxis=True)
        axes_seen = set()
        used, rows_seen, detail = set(), [], []
        runs = 0
        for order in (2, 4):
            for dxgiven in (True, False):
                fixed = {"order": sp.Integer(order)}
                if not dxgiven:
                    fixed["dx"] = None
                _, ex, sts = _run(chk, fname, fixed)
                x, step = ex.sym(gp[1]), ex.sym("dx" if dxgiven else "scale")
                for st in sts:
                    runs += 1
                    if not st.ok:
                        res = {k: False for k in res}
                        detail.append(st.why)
                        continue
                    tp, tc = _tabs(st.pos), _tabs(st.coeff)
                    used |= {_tabname(a) for a in tp + tc}
                    res["tables"] = res["tables"] and {_tabname(a) for a in tp} == {postab} and {_tabname(a) for a in tc} == {coftab}
                    res["key"] = res["key"] and all(_key_ok(a, order) for a in tp + tc)
                    prow = sorted(str(_first_index(a)) for a in tp)
                    crow = sorted(str(_first_index(a)) for a in tc)
                    rows_seen.append((prow, crow))
                    if fname == "gradient":
                        res["rows"] = res["rows"] and prow == ["0"] and crow == ["0"] and len(tc) == 1
                    else:
                        res["rows"] = res["rows"] and prow == ["0", "1"] and len(tc) == 1 and _first_index(tc[0]) == COLON
                    dpos, lin_p, dco, lin_c = _step_ok(st, x, step, n, postab, coftab)
                    res["pos"] = res["pos"] and dpos == 1 and lin_p
                    res["coeff"] = res["coeff"] and dco == -n and lin_c
                    res["axis"] = res["axis"] and st.axis == kaxis
                    # the one axis left of each table access (the stencil points) is the axis summed over: axis kaxis of the coefficients, which
                    # multiply f(pos) aligned at the end, and one further from the end in pos, which carries the variable axis last
                    pa, ca = _stencil_axes(st.pos, chk.src), _stencil_axes(st.coeff, chk.src)
                    axes_seen.add(f"positions {sorted(str(a) for _, a in pa)} coefficients {sorted(str(a) for _, a in ca)}")
                    res["staxis"] = res["staxis"] and len(pa) == len(tp) and len(ca) == len(tc) and bool(pa) and bool(ca) \
                        and all(a == kaxis - 1 for _, a in pa) and all(a == kaxis for _, a in ca)
                    if fname == "hessian":
                        okp, d_ = _hessian_pairing(st, step, chk.src)
                        res["pair"] = res["pair"] and okp
                        detail.append(d_)
        W = g.where()
        chk.ob("R19.3", W, f"{fname}(): uses {postab} for positions and {coftab} for coefficients only",
               res["tables"] and runs >= 4, str(sorted(used)), key=f"{fname}|tables")
        chk.ob("R19.3", W, f"{fname}(): all table accesses use the same order key", res["key"], key=f"{fname}|orderkey")
        if fname == "gradient":
            chk.ob("R19.3", W, "gradient(): positions and coefficients both take row 0 (the central stencil)",
                   res["rows"], str(rows_seen[:2]), key="gradient|row0")
        else:
            chk.ob("R19.3", W, "hessian(): position rows 0 and 1 are both used exactly once",
                   res["rows"], str(rows_seen[:2]), key="hessian|rows")
        chk.ob("R19.3", W, f"{fname}(): positions are x + table*dx (degree 1 in the step)", res["pos"],
               key=f"{fname}|posdeg", how="cas-proof(homogeneity)")
        chk.ob("R19.3", W, f"{fname}(): coefficients carry dx**-{n}", res["coeff"],
               key=f"{fname}|coeffdeg", how="cas-proof(homogeneity)")
        chk.ob("R19.3", W, f"{fname}(): the stencil axis summed over is {kaxis}", res["axis"], key=f"{fname}|sumaxis")
        chk.ob("R19.3", W, f"{fname}(): the stencil points of every table access lie along the axis summed over (axis {kaxis - 1} of the positions, "
               f"axis {kaxis} of the coefficients)", res["staxis"] and runs >= 4, "; ".join(sorted(axes_seen))[:300], key=f"{fname}|stencilaxis", how="axis-algebra")
        if fname == "hessian":
            chk.ob("R19.3", W, "hessian(): each axis list sits on the same result axis in positions and in the step-size denominator",
                   res["pair"], "; ".join(sorted(set(detail)))[:300], key="hessian|axispairing", how="axis-algebra")
    chk.floor("R19.3", 14)


def _hessian_pairing(st: Stencil, step, S):
    """identity[L, None, :] with POS row r ; step[..., L] expanded so that L sits on the same result axis"""
    pair_pos, pair_dx = {}, {}
    for t in sp.Add.make_args(sp.expand(st.pos)):
        tb = _tabs(t)
        ids = [a for a in t.atoms(sp.Function) if _fn(a, GETI) and a.has(IDENT)]
        if not tb:
            continue
        if len(tb) != 1 or len(ids) != 1 or not _fn(ids[0].args[0], IDENT):
            return False, f"position term not understood: {str(t)[:80]}"
        sel = ids[0].args[1]
        lists = [e for e in sel if e not in (COLON, NONE, DOTS) and not (isinstance(e, sp.Symbol) and ":" in e.name) and _index_rank(e) != 0]
        lay = _layout(ids[0], S, lenient=True)
        where = [i for i, a in enumerate(lay) if a == IDX] if lay is not None else []
        if len(lists) != 1 or len(where) != 1:
            return False, "identity selector not understood"
        pair_pos[str(_first_index(tb[0]))] = (lists[0], where[0] - len(lay))       # axis relative to the end (incl. the variable axis)
    for a in st.coeff.atoms(sp.Function):
        if _fn(a, EXPAND) and a.args[0].has(step):
            inner = a.args[0]
            axes = a.args[1]
            axs = tuple(int(k) for k in axes) if isinstance(axes, sp.Tuple) and all(k.is_Integer for k in axes) else ((int(axes),) if axes.is_Integer else None)
            if not (_fn(inner, GETI) and axs is not None):
                return False, "step-size denominator not understood"
            lst = [e for e in inner.args[1] if e not in (COLON, NONE, DOTS)]
            rank = 1 + len(axs)
            free = [i for i in range(-rank, 0) if i not in axs]
            if len(lst) != 1 or len(free) != 1:
                return False, "step-size denominator not understood"
            pair_dx[lst[0]] = free[0]
    ok = len(pair_pos) == 2 and len(pair_dx) == 2
    detail = []
    # positions array has a trailing variable axis: axis a (rel. end) -> a+1 in the result
    for row, (lst, ax) in sorted(pair_pos.items()):
        res_ax = ax + 1
        detail.append(f"row {row}: result axis {res_ax}; its step on axis {pair_dx.get(lst)}")
        if pair_dx.get(lst) != res_ax:
            ok = False
    return ok, "; ".join(detail)


def _binds_locally(fi, name: str) -> bool:
    """the function (or a function around it) binds `name` itself: parameter, assignment, loop / with / except target, nested def / class, import"""
    while fi is not None:
        for x in ast.walk(fi.node):
            if isinstance(x, ast.arg) and x.arg == name:
                return True
            if isinstance(x, ast.Name) and x.id == name and isinstance(x.ctx, (ast.Store, ast.Del)):
                return True
            if isinstance(x, (ast.FunctionDef, ast.AsyncFunctionDef, ast.ClassDef)) and x is not fi.node and x.name == name:
                return True
            if isinstance(x, ast.ExceptHandler) and x.name == name:
                return True
            if isinstance(x, (ast.Import, ast.ImportFrom)) and any((al.asname or al.name).split(".")[0] == name for al in x.names):
                return True
            if isinstance(x, (ast.Global, ast.Nonlocal)) and name in x.names:
                return True
        fi = fi.parent
    return False


def _settled(S, fi, cx: Ctx, e, depth: int = 0):
    """e with its temporaries looked through and with every read of a module-level constant of fi's module (bound exactly once at the top level, never
    re-bound / stored into / mutated anywhere in the package: `_module_constants`) replaced by the literal the constant is bound to; the elements of a
    tuple / list display are settled too.  Only numbers, inf spellings and displays of those are taken from a constant: anything else stays a name."""
    if e is None or depth > 4:
        return e
    e = cx.resolve(e)
    if isinstance(e, ast.Name) and isinstance(e.ctx, ast.Load) and not _binds_locally(fi, e.id):
        v = _module_constants(S, fi.module).get(e.id)
        if v is not None and _literal_bound(v):
            return _settled(S, fi, cx, copy.deepcopy(v), depth + 1)
        return e
    if isinstance(e, (ast.Tuple, ast.List)) and not any(isinstance(x, ast.Starred) for x in e.elts):
        elts = [_settled(S, fi, cx, x, depth + 1) for x in e.elts]
        if any(a is not b for a, b in zip(elts, e.elts)):
            return ast.copy_location(type(e)(elts=elts, ctx=ast.Load()), e)
    return e


def _literal_bound(v) -> bool:
    """a number, a spelling of infinity, another name (settled in turn), or a tuple of those: what a module-level bound constant may be made of"""
    if isinstance(v, ast.Tuple):
        return all(_literal_bound(x) for x in v.elts)
    if isinstance(v, ast.UnaryOp) and isinstance(v.op, (ast.USub, ast.UAdd)):
        return _literal_bound(v.operand)
    if isinstance(v, ast.Constant):
        return isinstance(v.value, (int, float)) and not isinstance(v.value, bool)
    if isinstance(v, ast.Name):
        return True
    if isinstance(v, ast.Call):
        return dotted(v.func) == "float" and len(v.args) == 1 and not v.keywords and isinstance(v.args[0], ast.Constant) and isinstance(v.args[0].value, str)
    return dotted(v) in ("np.inf", "numpy.inf", "math.inf")


def r19_4(chk: Check) -> None:
    f = chk.src.func("effectivePotential:EffectivePotential.derivT")
    chk.touch(f.name)
    calls = [c for c in calls_in(f.node, "derivative") if dotted(c.func) in ("derivative", "helpers.derivative")]
    if not calls:
        # helpers.derivative is the only finite-difference routine with one-sided stencils near a bound (gradient / hessian are central only)
        chk.ob("R19.4", f.where(), "derivT passes bounds=(0, inf): the potential is never evaluated at negative temperature", False,
               "derivT no longer differentiates with helpers.derivative (the only routine that honours bounds)", key="derivT|bounds")
        return
    cx = Ctx(chk.src, f)
    c = calls[0]
    b = kwarg(c, "bounds", 4)
    b = _settled(chk.src, f, cx, b) if b is not None else None
    ok = False
    if isinstance(b, (ast.Tuple, ast.List)) and len(b.elts) == 2:
        lo, hi = b.elts
        ok = isinstance(lo, ast.Constant) and not isinstance(lo.value, bool) and isinstance(lo.value, (int, float)) and lo.value == 0 \
            and (dotted(hi) in ("np.inf", "numpy.inf", "math.inf") or (isinstance(hi, ast.Call) and dotted(hi.func) == "float" and len(hi.args) == 1
                                                                       and isinstance(hi.args[0], ast.Constant) and hi.args[0].value in ("inf", "+inf")))
    chk.ob("R19.4", f.where(c), "derivT passes bounds=(0, inf): the potential is never evaluated at negative temperature",
           ok, src(b) if b is not None else "no bounds argument", key="derivT|bounds")
    n = kwarg(c, "n", 2)
    n = _settled(chk.src, f, cx, n) if n is not None else None
    chk.ob("R19.4", f.where(c), "derivT takes the first derivative (n=1)",
           n is None or (isinstance(n, ast.Constant) and n.value == 1), src(n) if n else "default", key="derivT|n")
    # the tables are not written anywhere in the package
    writers = []
    for fi in chk.src.all_funcs():
        for n_ in ast.walk(fi.node):
            tg = []
            if isinstance(n_, ast.Assign):
                tg = n_.targets
            elif isinstance(n_, ast.AugAssign):
                tg = [n_.target]
            for t in tg:
                tt = t
                while isinstance(tt, (ast.Subscript, ast.Attribute)):
                    tt = tt.value
                if isinstance(tt, ast.Name) and tt.id in TABLES and tt is not t:
                    writers.append(fi.where(n_))
    chk.ob("R19.4", "src/WallGo", "no function mutates the stencil tables in place", not writers, "; ".join(writers),
           key="tables|immutable")
    chk.floor("R19.4", 3)


def r19_5(chk: Check) -> None:
    """The three routines replace the nominal step by the exactly representable one, `(x + dx) - x`, before they build the stencil.  In floating
    point the two differ by O(ulp(x)); positions and coefficients must both use the exact step -- positions at x + k*h_exact combined with
    coefficients c/h_nominal scale every derivative by h_exact/h_nominal, which is not exact even on linear functions.  Decided on the
    def-use chains: every step-derived local read by a statement that reads a position or coefficient table is defined through the
    exact-step assignment."""
    from ..flow import CFG
    from ..core import own_nodes
    S = chk.src
    cnt = 0
    for fname in ("derivative", "gradient", "hessian"):
        fi = S.func(f"helpers:{fname}")
        chk.touch(fi.name)
        g = CFG(fi.node)
        params = set(fi.params())
        step_params = params & {"dx", "scale", "epsilon"}

        def rd(at, nm):
            return [d for d in g.reaching_defs(at, nm) if d is not CFG.ENTRY]

        def loads(e):
            return [x for x in ast.walk(e) if isinstance(x, ast.Name) and isinstance(x.ctx, ast.Load)]

        def is_exact(d) -> bool:
            """d is `h = (x + h0) - x` (possibly with the sum held in a temporary)"""
            if not isinstance(d, ast.Assign) or not isinstance(d.value, ast.BinOp) or not isinstance(d.value.op, ast.Sub) or not isinstance(d.value.right, ast.Name):
                return False
            X, left = d.value.right.id, d.value.left
            if isinstance(left, ast.Name):
                ds = rd(d, left.id)
                if len(ds) != 1 or not isinstance(ds[0], ast.Assign):
                    return False
                left = ds[0].value
            return isinstance(left, ast.BinOp) and isinstance(left.op, ast.Add) and any(isinstance(o, ast.Name) and o.id == X for o in (left.left, left.right))

        memo: dict = {}

        def derived(d, depth=0) -> bool:
            """the value defined by d depends on the step parameters"""
            if not isinstance(d, (ast.Assign, ast.AugAssign, ast.AnnAssign)) or d.value is None or depth > 10:
                return False
            k = ("d", id(d))
            if k not in memo:
                memo[k] = False
                memo[k] = any(x.id in step_params or any(derived(e, depth + 1) for e in rd(d, x.id)) for x in loads(d.value))
            return memo[k]

        def via_exact(d, depth=0) -> bool:
            if is_exact(d):
                return True
            if not isinstance(d, (ast.Assign, ast.AugAssign, ast.AnnAssign)) or d.value is None or depth > 10:
                return False
            if any(x.id in step_params for x in loads(d.value)):
                return False
            return all(via_exact(e, depth + 1) for x in loads(d.value) for e in rd(d, x.id) if derived(e))

        exact = [d for d in g.nodes if is_exact(d)]
        chk.ob("R19.5", fi.where(), f"{fname}(): the step is made exactly representable, h = (x + h) - x, before the stencil is built", len(exact) == 1,
               f"{len(exact)} such assignments", key=f"{fname}|exact-step")
        # a module-level constant built from the tables (`_STENCILS = {1: (FIRST_DERIV_POS, FIRST_DERIV_COEFF), ..}`, an alias, a pair) is a table too,
        # unless the function binds the same name itself
        bound_here = params | {x.id for x in ast.walk(fi.node) if isinstance(x, ast.Name) and isinstance(x.ctx, ast.Store)}
        table_globals = _table_derived(S, fi.module) - bound_here

        def is_table(nm: str) -> bool:
            return _is_table_name(nm) or nm in table_globals

        def tabular(d, depth=0) -> bool:
            """the value defined by d is (selected from) a stencil table"""
            if not isinstance(d, (ast.Assign, ast.AnnAssign)) or d.value is None or depth > 6:
                return False
            k = ("t", id(d))
            if k not in memo:
                memo[k] = False
                memo[k] = any(is_table(x.id) or any(tabular(e, depth + 1) for e in rd(d, x.id)) for x in loads(d.value))
            return memo[k]

        users = [st for st in g.nodes if isinstance(st, ast.Assign)
                 and any(is_table(x.id) or any(tabular(e) for e in rd(st, x.id)) for x in loads(st.value))]
        bad = []
        nstep = 0
        for st in users:
            for x in loads(st.value):
                if x.id in step_params:
                    bad.append(f"line {st.lineno}: reads the parameter `{x.id}` directly")
                    continue
                for d in rd(st, x.id):
                    if derived(d):
                        nstep += 1
                        if not via_exact(d):
                            bad.append(f"line {st.lineno}: `{x.id}` (defined at line {d.lineno}) is the nominal step, not the exact one")
        cnt += len(users)
        chk.ob("R19.5", fi.where(), f"{fname}(): positions and coefficients are built from the same, exactly representable step", nstep >= 2 and not bad,
               "; ".join(sorted(set(bad)))[:300], key=f"{fname}|same-step")
    if cnt < 8:
        raise AnchorMissing(f"helpers: only {cnt} statements reading a stencil table found")
    chk.floor("R19.5", 6)


def r19_bounds_as_given(chk: Check) -> None:
    """helpers.derivative selects one-sided stencils by comparing x +- k dx with the bounds it was given.  The bounds must enter those comparisons as
    given: `bound or default`, `bound if bound else default` test the *truthiness* of a number, so a bound of exactly 0 (the lower bound of the
    temperature in EffectivePotential.derivT) is silently treated as absent and the function is evaluated below it."""
    fi = chk.src.func("helpers:derivative")
    chk.touch(fi.name)
    derived = {"bounds"}
    changed = True
    while changed:
        changed = False
        for st in ast.walk(fi.node):
            if isinstance(st, ast.Assign) and any(isinstance(x, ast.Name) and x.id in derived for x in ast.walk(st.value)) \
                    and not any(isinstance(x, ast.Call) for x in ast.walk(st.value) if not (isinstance(x, ast.Call) and (dotted(x.func) or "") in ("tuple", "list", "float"))):
                for t in st.targets:
                    for x in ast.walk(t):
                        if isinstance(x, ast.Name) and x.id not in derived and x.id != "boundsTuple":
                            derived.add(x.id)
                            changed = True

    def elem(e) -> bool:
        """e denotes one of the given bounds (an element, not the tuple / None test of the whole argument)"""
        if isinstance(e, ast.Subscript) and isinstance(e.value, ast.Name) and e.value.id in derived | {"boundsTuple"}:
            return True
        return isinstance(e, ast.Name) and e.id in derived - {"bounds"}

    bad = []
    for x in ast.walk(fi.node):
        if isinstance(x, ast.BoolOp) and any(elem(v) for v in x.values[:-1]):
            bad.append(x)
        elif isinstance(x, ast.IfExp) and (elem(x.test) or (isinstance(x.test, ast.UnaryOp) and isinstance(x.test.op, ast.Not) and elem(x.test.operand))):
            bad.append(x)
        elif isinstance(x, (ast.If, ast.While)) and (elem(x.test) or (isinstance(x.test, ast.UnaryOp) and isinstance(x.test.op, ast.Not) and elem(x.test.operand))):
            bad.append(x.test)
    chk.ob("R19.2", fi.where(), "derivative(): the given bounds are compared as numbers, never tested for truthiness (`bound or default` drops a bound of 0)", not bad,
           "; ".join(f"line {x.lineno}: `{src(x)[:50]}`" for x in bad), key="bounds-as-given")


def rules(chk: Check) -> None:
    tabs = chk.stage(_tables, chk)
    if tabs is not None:
        chk.stage(r19_1, chk, tabs)
        chk.stage(r19_2, chk, tabs)
    chk.stage(r19_bounds_as_given, chk)
    chk.stage(r19_3, chk)
    chk.stage(r19_4, chk)
    chk.stage(r19_5, chk)
