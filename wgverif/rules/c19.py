"""C19 -- finite-difference derivatives are exact on low-degree polynomials.

R19.1  exact-rational moment conditions of every stencil row (tables folded from the AST)
R19.2  bound safety of the row selection (`offset` statements of helpers.derivative)
R19.3  pairing: position/coefficient tables, common selector, power of the step, stencil axis
R19.4  EffectivePotential.derivT bounds the temperature derivative below by 0
"""
from __future__ import annotations

import ast
from fractions import Fraction
from math import factorial

import sympy as sp

from ..core import AnchorMissing, Check, Undecided, dotted, kwarg, own_nodes, src, calls_in
from ..fold import fold
from ..terms import Extractor

LEVEL = "proof"
TABLES = ["FIRST_DERIV_COEFF", "SECOND_DERIV_COEFF", "FIRST_DERIV_POS", "SECOND_DERIV_POS",
          "HESSIAN_POS", "HESSIAN_COEFF"]


def _tables(chk: Check) -> dict:
    m = chk.src.module("helpers")
    out = {}
    for t in TABLES:
        if t not in m.globals:
            raise AnchorMissing(f"helpers.{t} not found")
        out[t] = fold(m.globals[t])
        chk.touch(f"helpers:{t}")
    return out


def r19_1(chk: Check, tabs: dict) -> None:
    W = "src/WallGo/helpers.py"
    for n, kind in ((1, "FIRST"), (2, "SECOND")):
        C, P = tabs[f"{kind}_DERIV_COEFF"], tabs[f"{kind}_DERIV_POS"]
        chk.ob("R19.1", W, f"{kind}_DERIV tables have the same order keys", set(C) == set(P),
               f"{sorted(C)} vs {sorted(P)}", key=f"keys|{kind}")
        for key in sorted(set(C) & set(P)):
            rows_c, rows_p = C[key], P[key]
            ok_shape = len(rows_c) == len(rows_p) and all(len(a) == len(b) for a, b in zip(rows_c, rows_p))
            chk.ob("R19.1", W, f"{kind}_DERIV order {key}: coefficient and position tables have equal shape",
                   ok_shape, key=f"shape|{kind}|{key}")
            if not ok_shape:
                continue
            for r, (cs, ps) in enumerate(zip(rows_c, rows_p)):
                bad = []
                for k in range(len(cs)):
                    mom = sum(c * p**k for c, p in zip(cs, ps))
                    want = Fraction(factorial(n)) if k == n else Fraction(0)
                    if mom != want:
                        bad.append(f"sum c*pos^{k} = {mom} (want {want})")
                chk.ob("R19.1", W,
                       f"{kind}_DERIV order {key} row {r}: moment conditions k=0..{len(cs)-1} "
                       f"(exact on polynomials of degree <= {len(cs)-1})",
                       not bad, "; ".join(bad), key=f"moments|{kind}|{key}|{r}", how="exact-rational")
                chk.ob("R19.1", W, f"{kind}_DERIV order {key} row {r}: stencil positions are distinct",
                       len(set(ps)) == len(ps), str(ps), key=f"distinct|{kind}|{key}|{r}", how="exact-rational")
    HP, HC = tabs["HESSIAN_POS"], tabs["HESSIAN_COEFF"]
    for key in sorted(set(HP) & set(HC)):
        a, b = HP[key]
        c = HC[key]
        ok_shape = len(a) == len(b) == len(c)
        chk.ob("R19.1", W, f"HESSIAN order {key}: tables have equal length", ok_shape, key=f"hshape|{key}")
        if not ok_shape:
            continue
        deg = int(key) + 1  # exact through total degree order+1
        bad = []
        for j in range(deg + 1):
            for k in range(deg + 1 - j):
                mom = sum(ci * ai**j * bi**k for ci, ai, bi in zip(c, a, b))
                want = Fraction(1) if (j, k) == (1, 1) else Fraction(0)
                if mom != want:
                    bad.append(f"sum c a^{j} b^{k} = {mom} (want {want})")
        chk.ob("R19.1", W, f"HESSIAN order {key}: mixed moments through total degree {deg}", not bad,
               "; ".join(bad), key=f"hmixed|{key}", how="exact-rational")
        bad = []
        for k in range(deg + 1):
            mom = sum(ci * (ai + bi) ** k for ci, ai, bi in zip(c, a, b))
            want = Fraction(2) if k == 2 else Fraction(0)
            if mom != want:
                bad.append(f"sum c (a+b)^{k} = {mom} (want {want})")
        chk.ob("R19.1", W, f"HESSIAN order {key}: diagonal specialisation is a 2nd-derivative stencil through degree {deg}",
               not bad, "; ".join(bad), key=f"hdiag|{key}", how="exact-rational")
    chk.ob("R19.1", W, "HESSIAN tables have the same order keys", set(HP) == set(HC), key="hkeys")
    chk.floor("R19.1", 30)


def _offset_statements(chk: Check):
    """Parse the `offset` statements of helpers.derivative:
       offset -= x + m*dx > bounds[1]      -> ('up', m, -1, order-guard)
       offset += x - m*dx < bounds[0]      -> ('lo', m, +1, order-guard)"""
    f = chk.src.func("helpers:derivative")
    chk.touch(f.name)
    stmts = []

    def mult_of(e: ast.expr):
        # x + k*dx   or x - k*dx   or x + dx
        if not isinstance(e, ast.BinOp) or not isinstance(e.op, (ast.Add, ast.Sub)):
            return None
        sign = 1 if isinstance(e.op, ast.Add) else -1
        r = e.right
        if isinstance(r, ast.Name):
            return sign, 1
        if isinstance(r, ast.BinOp) and isinstance(r.op, ast.Mult):
            for a, b in ((r.left, r.right), (r.right, r.left)):
                if isinstance(a, ast.Constant) and isinstance(a.value, (int, float)) and isinstance(b, ast.Name):
                    return sign, a.value
        return None

    def visit(body, order_guard):
        for st in body:
            if isinstance(st, ast.If):
                g = order_guard
                t = st.test
                if (isinstance(t, ast.Compare) and isinstance(t.left, ast.Name) and t.left.id == "order"
                        and len(t.ops) == 1 and isinstance(t.ops[0], ast.Eq) and isinstance(t.comparators[0], ast.Constant)):
                    g = t.comparators[0].value
                    visit(st.body, g)
                    if st.orelse:
                        visit(st.orelse, ("not", g))
                else:
                    visit(st.body, order_guard)
                    visit(st.orelse, order_guard)
                continue
            if isinstance(st, ast.AugAssign) and isinstance(st.target, ast.Name) and st.target.id == "offset":
                v = st.value
                if not (isinstance(v, ast.Compare) and len(v.ops) == 1):
                    raise Undecided(f"offset statement not understood: {src(st)}")
                mm = mult_of(v.left)
                cmpop = v.ops[0]
                comp = v.comparators[0]
                # bounds index
                idx = None
                for x in ast.walk(comp):
                    if isinstance(x, ast.Subscript) and isinstance(x.slice, ast.Constant):
                        idx = x.slice.value
                if mm is None or idx is None:
                    raise Undecided(f"offset statement not understood: {src(st)}")
                stmts.append(dict(node=st, op=+1 if isinstance(st.op, ast.Add) else -1, dirsign=mm[0], mult=mm[1],
                                  cmp=type(cmpop).__name__, bound=idx, order=order_guard))
    visit(f.node.body, None)
    return f, stmts


def r19_2(chk: Check, tabs: dict) -> None:
    f, stmts = _offset_statements(chk)
    if len(stmts) < 4:
        raise AnchorMissing("helpers.derivative: fewer than 4 offset statements")
    W = f.where()
    for kind, n in (("FIRST", 1), ("SECOND", 2)):
        P = tabs[f"{kind}_DERIV_POS"]
        for key in sorted(P):
            order = int(key)
            rows = P[key]
            nrows = len(rows)
            active = [s for s in stmts if s["order"] is None or s["order"] == order]
            reach = max(abs(p) for row in rows for p in row)
            # scenarios: d steps available on one side (0..reach), unlimited on the other
            for side in ("up", "lo"):
                for d in range(0, int(reach) + 2):
                    offset = 0
                    for s in active:
                        sside = "up" if s["bound"] == 1 else "lo"
                        # statement triggers when the probe point leaves the interval
                        if sside == "up":
                            probe_out = (s["dirsign"] > 0 and s["cmp"] in ("Gt", "GtE"))
                        else:
                            probe_out = (s["dirsign"] < 0 and s["cmp"] in ("Lt", "LtE"))
                        if not probe_out:
                            # a malformed test (e.g. x + dx < lower bound) never triggers for x inside the bounds
                            continue
                        if sside == side and s["mult"] > d:
                            offset += s["op"]
                    if not (-nrows <= offset < nrows):
                        chk.ob("R19.2", W, f"{kind} order {key}: {d} step(s) from the {side} bound selects an existing row",
                               False, f"offset {offset} out of range for {nrows} rows", key=f"row|{kind}|{key}|{side}|{d}")
                        continue
                    row = rows[offset]  # python negative indexing, as in the code
                    lo_need, up_need = -min(row), max(row)
                    if side == "up":
                        ok = up_need <= d
                        detail = f"offset {offset} -> positions {[str(p) for p in row]}; needs {up_need} step(s) upward, {d} available"
                    else:
                        ok = lo_need <= d
                        detail = f"offset {offset} -> positions {[str(p) for p in row]}; needs {lo_need} step(s) downward, {d} available"
                    chk.ob("R19.2", W,
                           f"{kind} order {key}: point {d} step(s) from the {'upper' if side=='up' else 'lower'} bound never evaluates outside it",
                           ok, detail, key=f"safe|{kind}|{key}|{side}|{d}", how="finite-enumeration")
    chk.floor("R19.2", 20)


def _table_chain(node: ast.AST):
    """If node is a Subscript/Attribute chain rooted at a table Name return (table, chain-text, firstsub)"""
    n = node
    while isinstance(n, (ast.Subscript, ast.Attribute)):
        n = n.value
    if isinstance(n, ast.Name) and n.id in TABLES:
        return n.id
    return None


class _TabReplace(ast.NodeTransformer):
    """replace maximal table chains by plain names TAB_<table>_<k>; remember them"""

    def __init__(self):
        self.found: list[tuple[str, str, ast.AST]] = []

    def generic_visit(self, node):
        return super().generic_visit(node)

    def visit_Subscript(self, node):
        t = _table_chain(node)
        if t is not None:
            name = f"TAB_{t}_{len(self.found)}"
            self.found.append((name, t, node))
            return ast.copy_location(ast.Name(id=name, ctx=ast.Load()), node)
        return self.generic_visit(node)

    def visit_Attribute(self, node):
        t = _table_chain(node)
        if t is not None:
            name = f"TAB_{t}_{len(self.found)}"
            self.found.append((name, t, node))
            return ast.copy_location(ast.Name(id=name, ctx=ast.Load()), node)
        return self.generic_visit(node)


def _selector(node: ast.AST) -> str:
    """text of the subscripts applied to the table (without the table name)"""
    s = " ".join(src(node).split())
    for t in TABLES:
        if s.startswith(t):
            return s[len(t):]
    return s


def _dx_degree(expr: sp.Expr, dxsyms: list[sp.Symbol]) -> object:
    lam = sp.Symbol("lam__", positive=True)
    # dx[..., axisList] -> an independent step symbol of the same family
    gi = [e for e in expr.atoms(sp.core.function.AppliedUndef)
          if e.func.__name__ == "getitem" and e.args[0] in dxsyms]
    rep = {e: sp.Symbol(f"{e.args[0].name}__{e.args[1]}", positive=True) for e in gi}
    expr = expr.xreplace(rep)
    dxsyms = [d for d in dxsyms if expr.has(d)] + list(rep.values())
    sub = {d: lam * d for d in dxsyms}
    scaled = expr.subs(sub, simultaneous=True)
    # getitem(dx, idx) wrappers keep dx inside -> substitution reaches them as well
    ratio = sp.simplify(scaled / expr)
    p = sp.Wild("p", exclude=[lam])
    m = ratio.match(lam**p)
    if ratio == 1:
        return 0
    if m is not None and not m[p].free_symbols:
        return m[p]
    return None


def _walk_assigns(fnode: ast.AST):
    """(guard-stack, Assign) for assignments in the function body"""
    out = []

    def visit(body, guards):
        for st in body:
            if isinstance(st, ast.If):
                visit(st.body, guards + [(st.test, True)])
                visit(st.orelse, guards + [(st.test, False)])
            elif isinstance(st, ast.Assign):
                out.append((guards, st))
            elif isinstance(st, (ast.With, ast.For, ast.While)):
                visit(st.body, guards)
    visit(fnode.body, [])
    return out


def _n_of_guards(guards) -> object:
    n = None
    for t, pol in guards:
        if (pol and isinstance(t, ast.Compare) and isinstance(t.left, ast.Name) and t.left.id == "n"
                and isinstance(t.ops[0], ast.Eq) and isinstance(t.comparators[0], ast.Constant)):
            n = t.comparators[0].value
    return n


def r19_3(chk: Check) -> None:
    ex = Extractor(chk.src)
    # ---- derivative(): per n-branch, pos and coeff statements -------------
    f = chk.src.func("helpers:derivative")
    chk.touch(f.name)
    uses: dict = {}
    for guards, st in _walk_assigns(f.node):
        tr = _TabReplace()
        val = tr.visit(ast.fix_missing_locations(ast.parse(src(st.value), mode="eval").body))
        if not tr.found:
            continue
        n = _n_of_guards(guards)
        env = {"__module__": "helpers", "__class__": None}
        term = ex.expr(val, env)
        for name, tab, node in tr.found:
            uses.setdefault(n, []).append(dict(tab=tab, sel=_selector(node), term=term, tabsym=name, stmt=st))
    if not uses or None in uses and len(uses) == 1:
        raise AnchorMissing("helpers.derivative: no n-guarded table uses found")
    for n, want in ((1, "FIRST"), (2, "SECOND")):
        us = uses.get(n, [])
        pos = [u for u in us if u["tab"].endswith("_POS")]
        cof = [u for u in us if u["tab"].endswith("_COEFF")]
        W = f.where(us[0]["stmt"]) if us else f.where()
        chk.ob("R19.3", W, f"derivative(): branch n=={n} uses exactly one position and one coefficient table",
               len(pos) == 1 and len(cof) == 1, f"pos={[u['tab'] for u in pos]} coeff={[u['tab'] for u in cof]}",
               key=f"deriv|n{n}|count")
        if len(pos) != 1 or len(cof) != 1:
            continue
        p, c = pos[0], cof[0]
        chk.ob("R19.3", W, f"derivative(): branch n=={n} uses the {want}_DERIV tables",
               p["tab"] == f"{want}_DERIV_POS" and c["tab"] == f"{want}_DERIV_COEFF", f"{p['tab']}, {c['tab']}",
               key=f"deriv|n{n}|tables")
        chk.ob("R19.3", W, f"derivative(): branch n=={n} indexes both tables with the same selector",
               p["sel"] == c["sel"], f"{p['sel']}  vs  {c['sel']}", key=f"deriv|n{n}|selector")
        dx = [s for s in (p["term"].free_symbols | c["term"].free_symbols) if s.name.startswith("dx")]
        x = ex.sym("x")
        dpos = _dx_degree(p["term"] - x, dx)
        dcof = _dx_degree(c["term"], dx)
        chk.ob("R19.3", W, f"derivative(): branch n=={n}: positions are x + table*dx (degree 1 in the step)",
               dpos == 1, f"degree {dpos}: {p['term']}", key=f"deriv|n{n}|posdeg", how="cas-proof(homogeneity)")
        chk.ob("R19.3", W, f"derivative(): branch n=={n}: coefficients are divided by dx**{n}",
               dcof == -n, f"degree {dcof}: {c['term']}", key=f"deriv|n{n}|coeffdeg", how="cas-proof(homogeneity)")
    # ---- gradient() and hessian() ----------------------------------------
    for fname, postab, coftab, n, kaxis in (("gradient", "FIRST_DERIV_POS", "FIRST_DERIV_COEFF", 1, -2),
                                            ("hessian", "HESSIAN_POS", "HESSIAN_COEFF", 2, -3)):
        g = chk.src.func(f"helpers:{fname}")
        chk.touch(g.name)
        found = []
        for guards, st in _walk_assigns(g.node):
            tr = _TabReplace()
            val = tr.visit(ast.fix_missing_locations(ast.parse(src(st.value), mode="eval").body))
            if not tr.found:
                continue
            found.append((st, tr, val))
        tabs_used = [(t, node, st) for st, tr, _ in found for _, t, node in tr.found]
        W = g.where()
        chk.ob("R19.3", W, f"{fname}(): uses {postab} for positions and {coftab} for coefficients only",
               {t for t, _, _ in tabs_used} == {postab, coftab}, str(sorted({t for t, _, _ in tabs_used})),
               key=f"{fname}|tables")
        # same order key for all
        keys = set()
        rows = {}
        for t, node, st in tabs_used:
            chain = []
            nn = node
            while isinstance(nn, (ast.Subscript, ast.Attribute)):
                chain.append(nn)
                nn = nn.value
            chain.reverse()
            if chain and isinstance(chain[0], ast.Subscript):
                keys.add(" ".join(src(chain[0].slice).split()))
            if len(chain) > 1 and isinstance(chain[1], ast.Subscript):
                sl = chain[1].slice
                first = sl.elts[0] if isinstance(sl, ast.Tuple) else sl
                rows.setdefault(t, []).append(src(first))
                # stencil axis from the selector: position of ':' among trailing entries
                elts = sl.elts if isinstance(sl, ast.Tuple) else [sl]
                colon = [i for i, e in enumerate(elts) if isinstance(e, ast.Slice)]
                if t.endswith("_POS") or t == "HESSIAN_COEFF" or t.endswith("_COEFF"):
                    pass
        chk.ob("R19.3", W, f"{fname}(): all table accesses use the same order key", len(keys) == 1, str(keys),
               key=f"{fname}|orderkey")
        if fname == "gradient":
            chk.ob("R19.3", W, "gradient(): positions and coefficients both take row 0 (the central stencil)",
                   rows.get(postab) == ["0"] and rows.get(coftab) == ["0"], str(rows), key="gradient|row0")
        else:
            chk.ob("R19.3", W, "hessian(): position rows 0 and 1 are both used exactly once",
                   sorted(rows.get(postab, [])) == ["0", "1"], str(rows), key="hessian|rows")
        # degrees
        env = {"__module__": "helpers", "__class__": None}
        x = ex.sym("x")
        for st, tr, val in found:
            try:
                term = ex.expr(val, env)
            except Undecided as e:
                chk.ob("R19.3", g.where(st), f"{fname}(): term extraction of {src(st.targets[0])}", None, str(e))
                continue
            dx = [s for s in term.free_symbols if s.name.startswith("dx")]
            is_pos = any(t.endswith("_POS") for _, t, _ in tr.found)
            # np.expand_dims(a, ax) -> treat as a (strip)
            term2 = term.replace(lambda e: isinstance(e, sp.core.function.AppliedUndef) and e.func.__name__ == "np.expand_dims",
                                 lambda e: e.args[0])
            if is_pos:
                d = _dx_degree(sp.expand(term2 - x), dx)
                chk.ob("R19.3", g.where(st), f"{fname}(): positions are x + table*dx (degree 1 in the step)", d == 1,
                       f"degree {d}", key=f"{fname}|posdeg", how="cas-proof(homogeneity)")
            else:
                d = _dx_degree(term2, dx)
                chk.ob("R19.3", g.where(st), f"{fname}(): coefficients carry dx**-{n}", d == -n, f"degree {d}",
                       key=f"{fname}|coeffdeg", how="cas-proof(homogeneity)")
        # stencil axis: the final np.sum(..., axis=k)
        sums = [c for c in calls_in(g.node, "sum") if dotted(c.func) in ("np.sum", "numpy.sum")]
        axes = []
        for c in sums:
            a = kwarg(c, "axis", 1)
            if a is not None:
                try:
                    axes.append(ast.literal_eval(a))
                except Exception:
                    axes.append(src(a))
        chk.ob("R19.3", W, f"{fname}(): the stencil axis summed over is {kaxis}", axes == [kaxis], str(axes),
               key=f"{fname}|sumaxis")
    # hessian axis pairing: identity[xAxisList, None, :] with POS row 0 ; dx[..., xAxisList] expanded at (-3,-1)
    h = chk.src.func("helpers:hessian")
    pair_pos = {}
    pair_dx = {}
    for n_ in own_nodes(h.node):
        if isinstance(n_, ast.BinOp) and isinstance(n_.op, ast.Mult):
            # HESSIAN_POS[..][r, ...] * np.identity(..)[<sel>]
            l, r = n_.left, n_.right
            if _table_chain(l) == "HESSIAN_POS" and isinstance(r, ast.Subscript) and call_is(r.value, "identity"):
                row = _first_index(l)
                elts = r.slice.elts if isinstance(r.slice, ast.Tuple) else [r.slice]
                for i, e in enumerate(elts):
                    if isinstance(e, ast.Name):
                        pair_pos[row] = (e.id, i - len(elts))  # axis relative to end (incl. variable axis)
        if isinstance(n_, ast.Call) and dotted(n_.func) == "np.expand_dims" and len(n_.args) == 2:
            a0 = n_.args[0]
            if isinstance(a0, ast.Subscript) and isinstance(a0.slice, ast.Tuple):
                names = [e.id for e in a0.slice.elts if isinstance(e, ast.Name)]
                try:
                    ax = ast.literal_eval(n_.args[1])
                except Exception:
                    ax = None
                if names and ax is not None:
                    axs = (ax,) if isinstance(ax, int) else tuple(ax)
                    rank = 1 + len(axs)
                    free = [i for i in range(-rank, 0) if i not in axs]
                    pair_dx[names[0]] = free[0] if len(free) == 1 else None
    # positions array has a trailing variable axis: axis a (rel. end) -> a+1 in the result
    ok = True
    detail = []
    for row, (lst, ax) in sorted(pair_pos.items()):
        res_ax = ax + 1
        detail.append(f"row {row}: {lst} on result axis {res_ax}; dx[{lst}] on axis {pair_dx.get(lst)}")
        if pair_dx.get(lst) != res_ax:
            ok = False
    chk.ob("R19.3", h.where(), "hessian(): each axis list sits on the same result axis in positions and in the step-size denominator",
           ok and len(pair_pos) == 2 and len(pair_dx) == 2, "; ".join(detail), key="hessian|axispairing",
           how="axis-algebra")
    chk.floor("R19.3", 14)


def call_is(node: ast.AST, short: str) -> bool:
    return isinstance(node, ast.Call) and (dotted(node.func) or "").split(".")[-1] == short


def _first_index(node: ast.AST):
    chain = []
    nn = node
    while isinstance(nn, (ast.Subscript, ast.Attribute)):
        chain.append(nn)
        nn = nn.value
    chain.reverse()
    if len(chain) > 1 and isinstance(chain[1], ast.Subscript):
        sl = chain[1].slice
        first = sl.elts[0] if isinstance(sl, ast.Tuple) else sl
        if isinstance(first, ast.Constant):
            return first.value
    return None


def r19_4(chk: Check) -> None:
    f = chk.src.func("effectivePotential:EffectivePotential.derivT")
    chk.touch(f.name)
    calls = [c for c in calls_in(f.node, "derivative")]
    if not calls:
        raise AnchorMissing("EffectivePotential.derivT does not call helpers.derivative")
    c = calls[0]
    b = kwarg(c, "bounds", 4)
    ok = False
    if isinstance(b, ast.Tuple) and len(b.elts) == 2:
        lo, hi = b.elts
        ok = isinstance(lo, ast.Constant) and lo.value == 0 and dotted(hi) in ("np.inf", "numpy.inf", "math.inf")
    chk.ob("R19.4", f.where(c), "derivT passes bounds=(0, inf): the potential is never evaluated at negative temperature",
           ok, src(b) if b is not None else "no bounds argument", key="derivT|bounds")
    n = kwarg(c, "n", 2)
    chk.ob("R19.4", f.where(c), "derivT takes the first derivative (n=1)",
           n is None or (isinstance(n, ast.Constant) and n.value == 1), src(n) if n else "default", key="derivT|n")
    # the tables are not written anywhere in the package
    writers = []
    for fi in chk.src.all_funcs():
        for n_ in ast.walk(fi.node):
            tg = []
            if isinstance(n_, ast.Assign):
                tg = n_.targets
            elif isinstance(n_, ast.AugAssign):
                tg = [n_.target]
            for t in tg:
                tt = t
                while isinstance(tt, (ast.Subscript, ast.Attribute)):
                    tt = tt.value
                if isinstance(tt, ast.Name) and tt.id in TABLES and tt is not t:
                    writers.append(fi.where(n_))
    chk.ob("R19.4", "src/WallGo", "no function mutates the stencil tables in place", not writers, "; ".join(writers),
           key="tables|immutable")
    chk.floor("R19.4", 3)


def rules(chk: Check) -> None:
    tabs = _tables(chk)
    r19_1(chk, tabs)
    r19_2(chk, tabs)
    r19_3(chk)
    r19_4(chk)
