"""
Rule self-test (thorough tier): run the rules of a property on scratch copies of
src/WallGo with one edit each.

  kind 'break'  -- a realistic edit that breaks the property: the check must exit 1
                   and (when `rule` is given) a violation of that rule must be named
  kind 'twin'   -- a behaviour-preserving edit: the check must exit 0

Edits are textual replacements inside one file, applied to a scratch copy under
mktemp -d (outside /repo and /verif) which is removed afterwards.  An edit whose
`old` text no longer occurs exactly once in the tree under test is *skipped* (the
tree has been edited there) and counted.
"""
from __future__ import annotations

import importlib
import os
import json
import shutil
import subprocess
import tempfile
from concurrent.futures import ProcessPoolExecutor
from pathlib import Path

from .core import PKG_REL, run_property


VERIF = Path(__file__).resolve().parent.parent


def _load_mutants(pid: str) -> list[dict]:
    try:
        m = importlib.import_module(f"wgverif.mutants.{pid.lower()}")
        muts = list(getattr(m, "MUTANTS", []))
    except ModuleNotFoundError:
        muts = []
    # stored patches: every behaviour-preserving refactor must leave every check silent,
    # every stored seeded change must make the checks recorded in its meta.json fire
    for d in sorted((VERIF / "refactors").glob("*/patch.diff")):
        muts.append(dict(id=f"refactor-{d.parent.name}", kind="twin", patch=str(d)))
    for d in sorted((VERIF / "seeded").glob("*/meta.json")):
        try:
            meta = json.loads(d.read_text())
        except ValueError:
            continue
        det = meta.get("detected_by", {})
        if pid in det and det[pid].get("exit") == 1 and (d.parent / "patch.diff").exists():
            muts.append(dict(id=f"seeded-{d.parent.name}", kind="break", patch=str(d.parent / "patch.diff")))
    return muts


def apply_edit(root: Path, mut: dict) -> bool:
    if mut.get("patch"):
        r = subprocess.run(["git", "apply", "--whitespace=nowarn", mut["patch"]], cwd=root, capture_output=True, text=True)
        return r.returncode == 0
    edits = mut.get("edits") or [dict(file=mut["file"], old=mut["old"], new=mut["new"])]
    texts = {}
    for e in edits:
        p = root / PKG_REL / e["file"]
        if not p.exists():
            return False
        t = texts.get(p, p.read_text())
        if t.count(e["old"]) != e.get("count", 1):
            return False
        t = t.replace(e["old"], e["new"])
        texts[p] = t
    for p, t in texts.items():
        p.write_text(t)
    return True


def _one(args) -> dict:
    pid, repo, mut = args
    from .rules import load
    mod = load(pid)
    tmp = Path(tempfile.mkdtemp(prefix="wgverif-st-"))
    try:
        dst = tmp / PKG_REL
        shutil.copytree(Path(repo) / PKG_REL, dst, ignore=shutil.ignore_patterns("__pycache__"))
        if not apply_edit(tmp, mut):
            return dict(id=mut["id"], kind=mut["kind"], status="skipped")
        mfile = mut.get("file") or (mut["edits"][0]["file"] if mut.get("edits") else "")
        if mfile.endswith(".py"):
            try:
                compile((dst / mfile).read_text(), "x", "exec")
            except SyntaxError as e:
                return dict(id=mut["id"], kind=mut["kind"], status="bad-mutant", detail=str(e))
        code, ev = run_property(pid, mod.rules, mod.LEVEL, "quick", tmp, None, 0, None, quiet=True)
        viol = ev.get("coverage", {}).get("violations_new", []) if code != 2 else []
        rules_hit = sorted({v["rule"] for v in viol})
        if mut["kind"] == "break":
            ok = code == 1 and (not mut.get("rule") or any(r.startswith(mut["rule"]) for r in rules_hit))
        else:
            ok = code == 0
        return dict(id=mut["id"], kind=mut["kind"], status="ok" if ok else "FAILED", exit=code, rules=rules_hit,
                    detail=(ev.get("error") or "; ".join(f"{v['rule']}@{v['where']}: {v['obligation']}" for v in viol[:3]))[:400])
    finally:
        shutil.rmtree(tmp, ignore_errors=True)


def run_selftest(pid: str, repo: Path, jobs: int = 16, quiet: bool = False) -> tuple[int, dict]:
    muts = _load_mutants(pid)
    if not muts:
        return 0, {"mutants": 0, "note": "no self-test registered"}
    with ProcessPoolExecutor(max_workers=min(jobs, len(muts))) as ex:
        res = list(ex.map(_one, [(pid, str(repo), m) for m in muts]))
    failed = [r for r in res if r["status"] in ("FAILED", "bad-mutant")]
    summary = {
        "mutants": len(muts),
        "breaking_fired": sum(1 for r in res if r["kind"] == "break" and r["status"] == "ok"),
        "breaking_total": sum(1 for r in res if r["kind"] == "break"),
        "twins_silent": sum(1 for r in res if r["kind"] == "twin" and r["status"] == "ok"),
        "twins_total": sum(1 for r in res if r["kind"] == "twin"),
        "skipped": [r["id"] for r in res if r["status"] == "skipped"],
        "failed": failed,
        "results": res,
    }
    if not quiet:
        print(f"[{pid}] self-test: {summary['breaking_fired']}/{summary['breaking_total']} breaking edits detected, "
              f"{summary['twins_silent']}/{summary['twins_total']} behaviour-preserving twins silent, "
              f"{len(summary['skipped'])} skipped")
        for r in failed:
            print(f"ANALYSIS-ERROR property={pid} self-test {r['kind']} '{r['id']}' {r['status']} (exit {r.get('exit')}): {r.get('detail','')}")
    return (2 if failed else 0), summary
