"""
Signature table for the dimension inference (C07): physical dimension = power of energy in natural units.
Written from the docstrings of the package.  Keys are qualified API names (class attribute, parameter,
return value) -- never local variable names.

  temperatures, field values / vevs ............ E^1
  potential, pressure, energy, enthalpy, c1, c2 .. E^4     dp/dT E^3, d2p/dT2 E^2
  lengths (widths, tails, z, xi) ................. E^-1    momenta E^1, m^2 E^2
  velocities, sound speeds, alpha, offsets, compact coordinates, tolerances, every Config / WallSolverSettings entry: E^0
"""
from __future__ import annotations

import sympy as sp

from .kinds import Dim, Obj

E = Dim
mu, nu = sp.Symbol("mu"), sp.Symbol("nu")

ATTR = {}
for c in ("Thermodynamics", "Hydrodynamics", "HydrodynamicsTemplateModel"):
    ATTR[(c, "Tnucl")] = E(1)
for a in ("TMaxHighT", "TMinHighT", "TMaxLowT", "TMinLowT"):
    ATTR[("Thermodynamics", a)] = E(1)
    ATTR[("Hydrodynamics", a)] = E(1)
for a in ("TMaxHydro", "TMinHydro"):
    ATTR[("Hydrodynamics", a)] = E(1)
for a in ("vJ", "vMin", "vBracketLow", "rtol", "atol"):
    ATTR[("Hydrodynamics", a)] = E(0)
for a in ("rtol", "atol", "cb2", "cs2", "cb", "cs", "alN", "psiN", "nu", "mu", "vJ", "vMin"):
    ATTR[("HydrodynamicsTemplateModel", a)] = E(0)
for a in ("wN", "pN", "epsilon"):
    ATTR[("HydrodynamicsTemplateModel", a)] = E(4)
# Thermodynamics extrapolation coefficients: p = a T^mu / 3 - epsilon
for ph in ("HighT", "LowT"):
    for side in ("Min", "Max"):
        m = sp.Symbol(f"mu{side}{ph}")
        ATTR[("Thermodynamics", f"mu{side}{ph}")] = E(0)
        ATTR[("Thermodynamics", f"a{side}{ph}")] = E(4 - m)
        ATTR[("Thermodynamics", f"epsilon{side}{ph}")] = E(4)
ATTR[("FreeEnergy", "startingTemperature")] = E(1)
ATTR[("FreeEnergy", "startingPhaseLocationGuess")] = E(1)
ATTR[("FreeEnergy", "minPossibleTemperature")] = (E(1), None)
ATTR[("FreeEnergy", "maxPossibleTemperature")] = (E(1), None)
ATTR[("InterpolatableFunction", "_rangeMin")] = None
ATTR[("FreeEnergyValueType", "veffValue")] = E(4)
ATTR[("FreeEnergyValueType", "fieldsAtMinimum")] = E(1)
for k in (1, 2):
    ATTR[(f"FreeEnergyValueType_d{k}", "veffValue")] = E(4 - k)
    ATTR[(f"FreeEnergyValueType_d{k}", "fieldsAtMinimum")] = E(1 - k)
ATTR[("VeffDerivativeSettings", "temperatureVariationScale")] = E(1)
ATTR[("VeffDerivativeSettings", "fieldValueVariationScale")] = E(1)
ATTR[("EffectivePotential", "effectivePotentialError")] = E(0)
ATTR[("PhaseInfo", "temperature")] = E(1)
ATTR[("PhaseInfo", "phaseLocation1")] = E(1)
ATTR[("PhaseInfo", "phaseLocation2")] = E(1)
ATTR[("WallParams", "widths")] = E(-1)
ATTR[("WallParams", "offsets")] = E(0)
for a, d in (("meanFreePathScale", -1), ("wallThicknessBounds", 0), ("wallOffsetBounds", 0), ("errTol", 0), ("maxIterations", 0), ("pressRelErrTol", 0),
             ("pressAbsErrTol", 4), ("nbrFields", 0), ("includeOffEq", 0)):
    ATTR[("EOM", a)] = E(d)
for a, d in (("M", 0), ("N", 0), ("positionFalloff", -1), ("momentumFalloffT", 1), ("chiValues", 0), ("rzValues", 0), ("rpValues", 0),
             ("xiValues", -1), ("pzValues", 1), ("ppValues", 1), ("dxidchi", -1), ("dpzdrz", 1), ("dppdrp", 1)):
    ATTR[("Grid", a)] = E(d)
for a, d in (("tailLengthInside", -1), ("tailLengthOutside", -1), ("wallThickness", -1), ("wallCenter", -1), ("ratioPointsWall", 0), ("smoothing", 0),
             ("aIn", 0), ("aOut", 0)):
    ATTR[("Grid3Scales", a)] = E(d)
for a in ("temperaturePlus", "temperatureMinus"):
    ATTR[("HydroResults", a)] = E(1)
    ATTR[("WallGoResults", a)] = E(1)
ATTR[("HydroResults", "velocityJouguet")] = E(0)
for a, d in (("wallVelocity", 0), ("wallVelocityError", 0), ("wallVelocityLTE", 0), ("velocityJouguet", 0), ("wallWidths", -1), ("wallOffsets", 0),
             ("velocityProfile", 0), ("fieldProfiles", 1), ("temperatureProfile", 1)):
    ATTR[("WallGoResults", a)] = E(d)
for a, d in (("velocityWall", 0), ("velocityMid", 0), ("velocityProfile", 0), ("fieldProfiles", 1), ("temperatureProfile", 1)):
    ATTR[("BoltzmannBackground", a)] = E(d)
ATTR[("BoltzmannDeltas", "Delta00")] = Obj("Polynomial", coeff=E(2))
for a in ("Delta02", "Delta20", "Delta11"):
    ATTR[("BoltzmannDeltas", a)] = Obj("Polynomial", coeff=E(4))
ATTR[("BoltzmannResults", "truncationError")] = E(0)
ATTR[("Particle", "totalDOFs")] = E(0)
ATTR[("WallSolver", "initialWallThickness")] = E(-1)
for c, attrs in (("WallSolverSettings", ("meanFreePathScale", "wallThicknessGuess")),
                 ("ConfigGrid", ("spatialGridSize", "momentumGridSize", "ratioPointsWall", "smoothing")),
                 ("ConfigEOM", ("errTol", "pressRelErrTol", "maxIterations", "wallThicknessBounds", "wallOffsetBounds", "vwMaxDeton", "nbrPointsMinDeton",
                                "nbrPointsMaxDeton", "overshootProbDeton")),
                 ("ConfigHydrodynamics", ("tmin", "tmax", "relativeTol", "absoluteTol")),
                 ("ConfigThermodynamics", ("tmin", "tmax", "phaseTracerTol", "phaseTracerFirstStep")),
                 ("ConfigBoltzmannSolver", ("collisionMultiplier",))):
    for a in attrs:
        ATTR[(c, a)] = E(0)

ATTR_TYPE = {
    ("EOM", "thermo"): "Thermodynamics", ("EOM", "hydrodynamics"): "Hydrodynamics", ("EOM", "grid"): "Grid3Scales", ("EOM", "boltzmannSolver"): "BoltzmannSolver",
    ("Hydrodynamics", "thermodynamics"): "Thermodynamics", ("Hydrodynamics", "template"): "HydrodynamicsTemplateModel",
    ("HydrodynamicsTemplateModel", "thermodynamics"): "Thermodynamics",
    ("Thermodynamics", "freeEnergyHigh"): "FreeEnergy", ("Thermodynamics", "freeEnergyLow"): "FreeEnergy", ("Thermodynamics", "effectivePotential"): "EffectivePotential",
    ("FreeEnergy", "effectivePotential"): "EffectivePotential", ("EffectivePotential", "derivativeSettings"): "VeffDerivativeSettings",
    ("WallGoManager", "hydrodynamics"): "Hydrodynamics", ("WallGoManager", "thermodynamics"): "Thermodynamics", ("WallGoManager", "config"): "Config",
    ("WallGoManager", "phasesAtTn"): "PhaseInfo", ("WallGoManager", "model"): "GenericModel",
    ("Config", "configGrid"): "ConfigGrid", ("Config", "configEOM"): "ConfigEOM", ("Config", "configHydrodynamics"): "ConfigHydrodynamics",
    ("Config", "configThermodynamics"): "ConfigThermodynamics", ("Config", "configBoltzmannSolver"): "ConfigBoltzmannSolver",
    ("BoltzmannResults", "Deltas"): "BoltzmannDeltas", ("WallSolver", "eom"): "EOM", ("WallSolver", "grid"): "Grid3Scales",
    ("BoltzmannSolver", "grid"): "Grid", ("BoltzmannSolver", "background"): "BoltzmannBackground",
}

RET = {}
for ph in ("HighT", "LowT"):
    for f, d in (("p", 4), ("dp", 3), ("ddp", 2), ("e", 4), ("de", 3), ("w", 4), ("csq", 0)):
        RET[f"Thermodynamics.{f}{ph}"] = E(d)
RET["Thermodynamics.alpha"] = E(0)
RET["Thermodynamics.findCriticalTemperature"] = E(1)
RET["Thermodynamics._getCoexistenceRange"] = (E(1), E(1))
M4 = (E(0), E(0), E(1), E(1))
for c in ("Hydrodynamics", "HydrodynamicsTemplateModel"):
    RET[f"{c}.findMatching"] = M4
    RET[f"{c}.findHydroBoundaries"] = (E(4), E(4), E(1), E(1), E(0))
    RET[f"{c}.findvwLTE"] = E(0)
    RET[f"{c}.findJouguetVelocity"] = E(0)
    RET[f"{c}.minVelocity"] = E(0)
    RET[f"{c}.efficiencyFactor"] = E(0)
RET["Hydrodynamics.matchDeton"] = M4
RET["Hydrodynamics.matchDeflagOrHyb"] = M4
RET["Hydrodynamics.vpvmAndvpovm"] = (E(0), E(0))
RET["Hydrodynamics.solveHydroShock"] = E(1)
RET["Hydrodynamics.strongestShock"] = E(1)
RET["Hydrodynamics.fastestDeflag"] = E(0)
RET["Hydrodynamics.slowestDeton"] = E(0)
RET["Hydrodynamics.shockDE"] = (E(0), E(1))
RET["Hydrodynamics._mappingT"] = (E(0), E(0))
RET["Hydrodynamics._inverseMappingT"] = (E(1), E(1))
RET["Hydrodynamics.fastestDeflag.TpTm"] = (E(1), E(1))
RET["Hydrodynamics.slowestDeton.TpTm"] = (E(1), E(1))
RET["HydrodynamicsTemplateModel.detonationVAndT"] = M4
RET["HydrodynamicsTemplateModel.matchDeflagOrHybInitial"] = (E(1), E(1))
RET["HydrodynamicsTemplateModel._findTm"] = E(1)
RET["HydrodynamicsTemplateModel.getVp"] = E(0)
RET["HydrodynamicsTemplateModel.wFromAlpha"] = E(0)
RET["HydrodynamicsTemplateModel.solveAlpha"] = E(0)
RET["HydrodynamicsTemplateModel.maxAl"] = E(0)
RET["HydrodynamicsTemplateModel._eqWall"] = E(0)
RET["HydrodynamicsTemplateModel._shooting"] = E(0)
RET["gammaSq"] = E(0)
RET["boostVelocity"] = E(0)
RET["EffectivePotential.evaluate"] = E(4)
RET["EffectivePotential.derivT"] = E(3)
RET["EffectivePotential.derivField"] = E(3)
RET["EffectivePotential.deriv2Field2"] = E(2)
RET["EffectivePotential.deriv2FieldT"] = E(2)
RET["EffectivePotential.allSecondDerivatives"] = (E(2), E(2), E(2))
RET["EffectivePotential.findLocalMinimum"] = (E(1), E(4))
RET["EffectivePotential.getInherentRelativeError"] = E(0)
RET["FreeEnergy.interpolationRangeMin"] = E(1)
RET["FreeEnergy.interpolationRangeMax"] = E(1)
RET["InterpolatableFunction.interpolationRangeMin"] = None
RET["Particle.msqVacuum"] = E(2)
RET["Particle.msqDerivative"] = E(1)
RET["Grid.getCoordinates"] = (E(-1), E(1), E(1))
RET["Grid.getCompactCoordinates"] = (E(0), E(0), E(0))
RET["Grid.getCompactificationDerivatives"] = (E(-1), E(1), E(1))
RET["Grid.decompactify"] = (E(-1), E(1), E(1))
RET["Grid.compactify"] = (E(0), E(0), E(0))
RET["Grid.compactificationDerivatives"] = (E(-1), E(1), E(1))
RET["Grid3Scales.decompactify"] = (E(-1), E(1), E(1))
RET["Grid3Scales.compactificationDerivatives"] = (E(-1), E(1), E(1))
WP = (E(4), Obj("WallParams"), Obj("BoltzmannResults"), Obj("BoltzmannBackground"), Obj("HydroResults"))
RET["EOM.wallPressure"] = WP
RET["EOM._intermediatePressureResults"] = WP[:4]
RET["EOM._getNextPressure"] = WP[:4] + (E(4),)
RET["EOM._toWallParams"] = Obj("WallParams")
RET["EOM.action"] = E(3)
RET["EOM.wallProfile"] = (E(1), E(2))
RET["EOM.findPlasmaProfile"] = (E(1), E(0))
RET["EOM.findPlasmaProfilePoint"] = (E(1), E(0))
RET["EOM.plasmaVelocity"] = E(0)
RET["EOM.temperatureProfileEqLHS"] = E(4)
RET["EOM.deltaToTmunu"] = (E(4), E(4))
RET["BoltzmannSolver.getDeltas"] = Obj("BoltzmannResults")
RET["WallGoManager.buildGrid"] = Obj("Grid3Scales")
RET["WallGoManager.buildEOM"] = Obj("EOM")
RET["WallGoManager.setupWallSolver"] = Obj("WallSolver")
RET["WallGoManager.wallSpeedLTE"] = E(0)
RET["GenericModel.getEffectivePotential"] = Obj("EffectivePotential")
RET["nextStepDeton"] = E(0)

PARAM = {}


def P(qual, **kw):
    for k, v in kw.items():
        PARAM[(qual, k)] = v if not isinstance(v, (int, float)) else E(v)


for ph in ("HighT", "LowT"):
    for f in ("p", "dp", "ddp", "e", "de", "w", "csq"):
        P(f"Thermodynamics.{f}{ph}", temperature=1)
P("Thermodynamics.alpha", T=1)
P("Thermodynamics.__init__", nucleationTemperature=1, phaseLowT=1, phaseHighT=1)
P("Thermodynamics.findCriticalTemperature", dT=1, rTol=0)
P("Thermodynamics.findCriticalTemperature.freeEnergyDifference", inputT=1)
P("FreeEnergy.__init__", startingTemperature=1, startingPhaseLocationGuess=1)
P("FreeEnergy.tracePhase", TMin=1, TMax=1, dT=1, rTol=0, phaseTracerFirstStep=0)
P("FreeEnergy.tracePhase.odeFunction", temperature=1, field=1)
P("FreeEnergy.tracePhase.spinodalEvent", temperature=1, field=1)
P("FreeEnergy._functionImplementation", temperature=1)
P("FreeEnergy.__call__", x=1)
P("FreeEnergy.evaluate", x=1)
P("FreeEnergy.derivative", x=1, order=0)
for f in ("evaluate", "derivT", "derivField", "deriv2Field2", "deriv2FieldT", "allSecondDerivatives"):
    P(f"EffectivePotential.{f}", fields=1, temperature=1)
P("EffectivePotential.findLocalMinimum", initialGuess=1, temperature=1, tol=0)
P("Hydrodynamics.__init__", tmax=0, tmin=0, rtol=0, atol=0)
P("Hydrodynamics.findJouguetVelocity.vpDerivNum", tm=1)
P("Hydrodynamics.fastestDeflag.TpTm", vw=0)
P("Hydrodynamics.fastestDeflag.TmMax", vw=0)
P("Hydrodynamics.fastestDeflag.TpMax", vw=0)
P("Hydrodynamics.slowestDeton.TpTm", vw=0)
P("Hydrodynamics.slowestDeton.TmMax", vw=0)
P("Hydrodynamics.vpvmAndvpovm", Tp=1, Tm=1)
P("Hydrodynamics.matchDeton", vw=0)
P("Hydrodynamics.matchDeton.tmFromvpsq", tm=1)
P("Hydrodynamics.matchDeflagOrHyb", vw=0, vp=0)
P("Hydrodynamics.matchDeflagOrHyb.matching", mappedTpTm=(E(0), E(0)))
P("Hydrodynamics.shockDE", v=0, xiAndT=(E(0), E(1)))
P("Hydrodynamics.solveHydroShock", vw=0, vp=0, Tp=1)
P("Hydrodynamics.solveHydroShock.shock", v=0, xiAndT=(E(0), E(1)))
P("Hydrodynamics.solveHydroShock.TiiShock", tn=1)
P("Hydrodynamics.strongestShock", vw=0)
P("Hydrodynamics.strongestShock.matchingStrongest", Tp=1)
P("Hydrodynamics.minVelocity.strongestshockTnucl", vw=0)
P("Hydrodynamics.findMatching", vwTry=0)
P("Hydrodynamics.findMatching.shockTnuclDiff", vpTry=0)
P("Hydrodynamics.findMatching.solveVpmax", vpTry=0)
P("Hydrodynamics.findHydroBoundaries", vwTry=0)
P("Hydrodynamics.findvwLTE.shockTnuclDiff", vw=0)
P("Hydrodynamics.findvwLTE.shock", vw=0)
P("Hydrodynamics.efficiencyFactor", vw=0)
P("Hydrodynamics.efficiencyFactor.shock", v=0, xiAndT=(E(0), E(1)))
P("Hydrodynamics._mappingT", TpTm=(E(1), E(1)))
P("Hydrodynamics._inverseMappingT", mappedTpTm=(E(0), E(0)))
P("HydrodynamicsTemplateModel.__init__", rtol=0, atol=0)
P("HydrodynamicsTemplateModel.findJouguetVelocity", alN=0)
P("HydrodynamicsTemplateModel.getVp", vm=0, al=0, branch=0)
P("HydrodynamicsTemplateModel.wFromAlpha", al=0)
P("HydrodynamicsTemplateModel._findTm", vm=0, vp=0, Tp=1)
P("HydrodynamicsTemplateModel._eqWall", al=0, vm=0, branch=0)
P("HydrodynamicsTemplateModel.solveAlpha", vw=0)
P("HydrodynamicsTemplateModel._dxiAndWdv", v=0, xiAndW=(E(0), E(0)))
P("HydrodynamicsTemplateModel.integratePlasma", v0=0, vw=0, wp=0)
P("HydrodynamicsTemplateModel._shooting", vw=0, vp=0)
P("HydrodynamicsTemplateModel.findMatching", vw=0)
P("HydrodynamicsTemplateModel.matchDeflagOrHybInitial", vw=0, vp=0)
P("HydrodynamicsTemplateModel.findHydroBoundaries", vwTry=0)
P("HydrodynamicsTemplateModel.maxAl", upperLimit=0)
P("HydrodynamicsTemplateModel.detonationVAndT", vw=0)
P("HydrodynamicsTemplateModel.efficiencyFactor", vw=0)
P("gammaSq", v=0)
P("boostVelocity", xi=0, v=0)
P("nextStepDeton", pos1=0, pos2=0, pressure1=4, pressure2=4, mean2ndDeriv=4, std2ndDeriv=4, pressureTol=0, posMax=0, overshootProb=0)
P("Grid.__init__", M=0, N=0, positionFalloff=-1, momentumFalloffT=1)
P("Grid.changeMomentumFalloffScale", newScale=1)
P("Grid.changePositionFalloffScale", newScale=-1)
P("Grid.compactify", z=-1, pz=1, pp=1)
for c in ("Grid", "Grid3Scales"):
    P(f"{c}.decompactify", zCompact=0, pzCompact=0, ppCompact=0)
    P(f"{c}.compactificationDerivatives", zCompact=0, pzCompact=0, ppCompact=0)
P("Grid3Scales.__init__", M=0, N=0, tailLengthInside=-1, tailLengthOutside=-1, wallThickness=-1, momentumFalloffT=1, ratioPointsWall=0, smoothing=0, wallCenter=-1)
P("Grid3Scales.changePositionFalloffScale", tailLengthInside=-1, tailLengthOutside=-1, wallThickness=-1, wallCenter=-1)
P("Grid3Scales._updateParameters", tailLengthInside=-1, tailLengthOutside=-1, wallThickness=-1, ratioPointsWall=0, smoothing=0, wallCenter=-1)
P("EOM.__init__", nbrFields=0, meanFreePathScale=-1, wallThicknessBounds=0, wallOffsetBounds=0, errTol=0, maxIterations=0, pressRelErrTol=0)
P("EOM.findWallVelocityDeflagrationHybrid", wallThicknessIni=-1)
P("EOM.findWallVelocityDetonation", vmin=0, vmax=0, wallThicknessIni=-1, nbrPointsMin=0, nbrPointsMax=0, overshootProb=0, rtol=0)
P("EOM.solveWall", wallVelocityMin=0, wallVelocityMax=0, wallPressureResultsMin=WP, wallPressureResultsMax=WP)
P("EOM.solveWall.pressureWrapper", vw=0)
P("EOM.wallPressure", wallVelocity=0, atol=4, rtol=0)
for f in ("_getNextPressure", "_intermediatePressureResults"):
    P(f"EOM.{f}", vevLowT=1, vevHighT=1, c1=4, c2=4, velocityMid=0, Tplus=1, Tminus=1, multiplier=0)
P("EOM._getNextPressure", pressure1=4, temperatureProfile=1, velocityProfile=0)
P("EOM._intermediatePressureResults", temperatureProfileInput=1, velocityProfileInput=0)
P("EOM._intermediatePressureResults.actionWrapper", wallArray=None)
P("EOM._updateGrid", velocityMid=0)
P("EOM.action", vevLowT=1, vevHighT=1, temperatureProfile=1, offEquilDelta00=Obj("Polynomial", coeff=E(2)))
P("EOM.wallProfile", z=-1, vevLowT=1, vevHighT=1)
P("EOM.findPlasmaProfile", c1=4, c2=4, velocityMid=0, fields=1, dPhidz=2, Tplus=1, Tminus=1)
P("EOM.findPlasmaProfilePoint", index=0, c1=4, c2=4, velocityMid=0, fields=1, dPhidz=2, Tplus=1, Tminus=1)
P("EOM.plasmaVelocity", fields=1, T=1, s1=4)
P("EOM.temperatureProfileEqLHS", fields=1, dPhidz=2, T=1, s1=4, s2=4)
P("EOM.deltaToTmunu", index=0, fields=1, velocityMid=0)
P("WallGoManager.buildGrid", wallThicknessIni=0, meanFreePathScale=0, initialMomentumFalloffScale=1)
P("WallGoManager.buildEOM", meanFreePathScale=0)
P("HydroResults.__init__", temperaturePlus=1, temperatureMinus=1, velocityJouguet=0)
P("WallParams.__init__", widths=-1, offsets=0)
P("BoltzmannBackground.__init__", velocityMid=0, velocityProfile=0, fieldProfiles=1, temperatureProfile=1)
P("WallSolver.__init__", initialWallThickness=-1)
P("BoltzmannDeltas.__init__", Delta00=Obj("Polynomial", coeff=E(2)), Delta02=Obj("Polynomial", coeff=E(4)), Delta20=Obj("Polynomial", coeff=E(4)),
  Delta11=Obj("Polynomial", coeff=E(4)))
P("WallGoResults.setWallVelocities", wallVelocity=0, wallVelocityError=0, wallVelocityLTE=0)
P("PhaseInfo.__init__", temperature=1, phaseLocation1=1, phaseLocation2=1)
P("Particle.msqVacuum", fields=1)
P("Particle.msqDerivative", fields=1)

PARAM_TYPE = {
    ("EOM._updateGrid", "wallParams"): "WallParams",
}

TABLE = {"ATTR": {k: v for k, v in ATTR.items() if v is not None}, "ATTR_TYPE": ATTR_TYPE, "RET": {k: v for k, v in RET.items() if v is not None},
         "PARAM": {k: v for k, v in PARAM.items() if v is not None}, "PARAM_TYPE": PARAM_TYPE}

SCOPE = ["manager", "equationOfMotion", "hydrodynamics", "hydrodynamicsTemplateModel", "thermodynamics", "freeEnergy", "effectivePotential",
         "grid", "grid3Scales"]
