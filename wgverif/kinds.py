"""
E6 -- kind inference: physical dimension (power of energy, natural units) of expressions.

Forward abstract interpretation of one function at a time.  Seeds come from a signature table keyed by
qualified API names (class attributes, parameters, return values), never from the spelling of locals.
Only *definite* conflicts (both sides known) are reported; unknown is silent.
"""
from __future__ import annotations

import ast
from dataclasses import dataclass, field
from typing import Any, Optional

import sympy as sp

from .core import FuncInfo, Source, dotted, src

# ---------------------------------------------------------------- lattice


class Dim:
    """E^q ; q sympy expression (may contain exponent symbols such as mu)"""

    __slots__ = ("q",)

    def __init__(self, q):
        self.q = sp.nsimplify(q) if not isinstance(q, sp.Basic) else q

    def __eq__(self, o):
        return isinstance(o, Dim) and sp.simplify(self.q - o.q) == 0

    def __hash__(self):
        return hash(("Dim", str(sp.simplify(self.q))))

    def __repr__(self):
        return f"E^{sp.simplify(self.q)}" if self.q != 0 else "E^0"

    @property
    def zero(self):
        return sp.simplify(self.q) == 0


class Lit:
    """bare numeric literal (or arithmetic of literals); value kept when known"""

    __slots__ = ("v",)

    def __init__(self, v=None):
        self.v = v

    def __repr__(self):
        return f"lit({self.v})"


class Packed:
    """1-d array whose consecutive segments have different kinds (the (widths, offsets) vector handed to the action minimiser)"""

    __slots__ = ("kinds",)

    def __init__(self, kinds):
        out = []
        for k in kinds:
            if not out or not (out[-1] == k):
                out.append(k)
        self.kinds = tuple(out)

    def __eq__(self, o):
        return isinstance(o, Packed) and len(o.kinds) == len(self.kinds) and all(a == b for a, b in zip(self.kinds, o.kinds))

    def __hash__(self):
        return hash(("Packed", len(self.kinds)))

    def __repr__(self):
        return "packed(" + ", ".join(map(repr, self.kinds)) + ")"


@dataclass
class Obj:
    cls: str
    coeff: Any = None  # Polynomial: dimension of the coefficients

    def __repr__(self):
        return f"<{self.cls}>"


@dataclass
class Func:
    """local closure / lambda with inferred return kind"""
    ret: Any = None
    node: Any = None


UNK = None
D0 = Dim(0)


def is_dimful(d) -> bool:
    return isinstance(d, Dim) and not d.zero


def numeric(d) -> bool:
    return isinstance(d, (Dim, Lit))


def q_of(d):
    return d.q if isinstance(d, Dim) else sp.Integer(0)


def join(a, b):
    if a is UNK or b is UNK:
        return UNK
    if isinstance(a, Lit) and isinstance(b, Lit):
        return Lit(a.v if a.v == b.v else None)
    if isinstance(a, Lit):
        return b if isinstance(b, Dim) else UNK
    if isinstance(b, Lit):
        return a if isinstance(a, Dim) else UNK
    if isinstance(a, Dim) and isinstance(b, Dim):
        return a if a == b else UNK
    if isinstance(a, tuple) and isinstance(b, tuple) and len(a) == len(b):
        return tuple(join(x, y) for x, y in zip(a, b))
    if isinstance(a, Obj) and isinstance(b, Obj) and a.cls == b.cls:
        return a
    return UNK


@dataclass
class Report:
    kind: str       # conflict | transcendental | sink | absolute
    func: str
    node: ast.AST
    text: str
    key: str


TRANSCENDENTAL = {"exp", "log", "tanh", "arctanh", "tan", "arctan", "sin", "cos", "cosh", "sinh", "log10", "erf", "erfc"}
SAME_DIM = {"abs", "float", "array", "asarray", "asanyarray", "sum", "mean", "real", "ravel", "flip", "copy", "deepcopy", "squeeze",
            "atleast_1d", "atleast_2d", "max", "min", "amax", "amin", "norm", "std", "view", "item", "reshape", "transpose", "sort", "unique",
            "castFromNumpy", "Fields", "FieldPoint", "expand_dims", "moveaxis", "resize", "nan_to_num", "diff", "cumsum", "vstack", "hstack",
            "clip", "getFieldPoint", "getField", "takeSlice", "resizeFields", "tolist", "flatten", "astype"}
JOIN_DIM = {"concatenate", "append", "maximum", "minimum", "where_join"}
BOOLISH = {"isnan", "isfinite", "any", "all", "isscalar", "isinstance", "hasattr", "len", "sign", "argmin", "argmax",
           "size", "ndim", "shape", "arange", "linspace", "numFields", "numPoints", "enumerate", "range", "int", "bool", "str"}
ZEROLIKE = {"zeros", "zeros_like", "empty", "empty_like", "full"}


class KindInference:
    def __init__(self, source: Source, table: dict):
        self.auto_attr = {}
        self.S = source
        self.ATTR = table.get("ATTR", {})
        self.ATTR_TYPE = dict(table.get("ATTR_TYPE", {}))
        self.RET = table.get("RET", {})
        self.PARAM = table.get("PARAM", {})
        self.PARAM_TYPE = table.get("PARAM_TYPE", {})
        self.reports: list[Report] = []
        self.typed_nodes = 0
        self.total_nodes = 0
        self._auto_attr_types()

    # ---- receiver types from annotations -----------------------------------
    auto_attr: dict = {}

    def _auto_attr_types(self) -> None:
        known = {c for m in self.S.modules.values() for c in m.classes}
        for m in self.S.modules.values():
            for cname, ci in m.classes.items():
                for st in ci.node.body:
                    if isinstance(st, ast.AnnAssign) and isinstance(st.target, ast.Name):
                        t = src(st.annotation).strip("'\"").split(".")[-1].split("[")[0]
                        if t in known:
                            self.ATTR_TYPE.setdefault((cname, st.target.id), t)
                init = ci.methods.get("__init__")
                if init is None:
                    continue
                ann = {}
                a = init.node.args
                for p in a.args + a.kwonlyargs:
                    if p.annotation is not None:
                        t = src(p.annotation).strip("'\"").split(".")[-1].split("[")[0]
                        if t in known:
                            ann[p.arg] = t
                for st in ast.walk(init.node):
                    if isinstance(st, ast.Assign) and len(st.targets) == 1 and isinstance(st.targets[0], ast.Attribute) \
                            and isinstance(st.targets[0].value, ast.Name) and st.targets[0].value.id == "self":
                        v = st.value
                        if isinstance(v, ast.Name) and v.id in ann:
                            self.ATTR_TYPE.setdefault((cname, st.targets[0].attr), ann[v.id])
                        if isinstance(v, ast.Call) and (dotted(v.func) or "").split(".")[-1] in known:
                            self.ATTR_TYPE.setdefault((cname, st.targets[0].attr), (dotted(v.func) or "").split(".")[-1])

    def _mro_names(self, cls: str) -> list[str]:
        for m in self.S.modules.values():
            if cls in m.classes:
                return [c.name for c in self.S.mro(f"{m.name}:{cls}")]
        return [cls]

    def attr_dim(self, cls: str, attr: str):
        for c in self._mro_names(cls):
            if (c, attr) in self.ATTR:
                return self.ATTR[(c, attr)]
            if (c, attr) in self.ATTR_TYPE:
                return Obj(self.ATTR_TYPE[(c, attr)])
        # an attribute the signature table does not know (a newly introduced cached value): the kind its constructor stores into it
        for c in self._mro_names(cls):
            if (c, attr) in self.auto_attr:
                return self.auto_attr[(c, attr)]
        return UNK

    # ---- reporting -----------------------------------------------------------
    def report(self, kind, fi: FuncInfo, node, text, key):
        self.reports.append(Report(kind, fi.qual, node, text, f"{fi.qual}|{kind}|{key}"))

    # ---- function analysis -----------------------------------------------------
    def analyse(self, fi: FuncInfo, outer_env: Optional[dict] = None) -> dict:
        env = dict(outer_env or {})
        if fi.cls:
            env["self"] = Obj(fi.cls)
            env["cls"] = Obj(fi.cls)
        a = fi.node.args
        for p in a.posonlyargs + a.args + a.kwonlyargs:
            if p.arg in ("self", "cls"):
                continue
            key = (fi.qual, p.arg)
            if key in self.PARAM:
                env[p.arg] = self.PARAM[key]
            elif (fi.qual, p.arg) in self.PARAM_TYPE:
                env[p.arg] = Obj(self.PARAM_TYPE[(fi.qual, p.arg)])
            elif p.annotation is not None:
                t = src(p.annotation).strip("'\"").split(".")[-1].split("[")[0].split(" ")[0]
                if any(t in m.classes for m in self.S.modules.values()):
                    env[p.arg] = Obj(t)
                else:
                    env.setdefault(p.arg, UNK)
            else:
                env.setdefault(p.arg, UNK)
        self._fi = fi
        self._rets: list = []
        if fi.parent is None:
            self._alias = _exponent_aliases(fi.node)
        self.block(fi.node.body, env, fi)
        want = self.RET.get(fi.qual)
        if want is not None:
            for node, got in self._rets:
                self.check_sink(fi, node, got, want, f"return value of {fi.qual}", f"return|{_sig(want)}")
        return env

    def block(self, stmts, env, fi):
        for st in stmts:
            self.stmt(st, env, fi)

    def stmt(self, st, env, fi):
        if isinstance(st, (ast.FunctionDef, ast.AsyncFunctionDef)):
            # analyse the closure in the current environment (its free variables are the current locals)
            sub = FuncInfo(fi.module, f"{fi.qual}.{st.name}", st, fi.cls, fi)
            saved_rets, saved_fi = self._rets, self._fi
            e2 = dict(env)
            for p in st.args.args:
                key = (sub.qual, p.arg)
                e2[p.arg] = self.PARAM.get(key, UNK)
            self._rets = []
            self._fi = sub
            self.block(st.body, e2, sub)
            rets = [g for _, g in self._rets]
            want = self.RET.get(sub.qual)
            if want is not None:
                for node, got in self._rets:
                    self.check_sink(sub, node, got, want, f"return value of {sub.qual}", f"return|{_sig(want)}")
            r = UNK
            if rets:
                r = rets[0]
                for x in rets[1:]:
                    r = join(r, x)
            self._rets, self._fi = saved_rets, saved_fi
            env[st.name] = Func(ret=want if want is not None else r, node=st)
            return
        if isinstance(st, ast.Return):
            if st.value is not None:
                d_ = self.dim(st.value, env, fi)
                sentinel = isinstance(st.value, ast.Tuple) and any(isinstance(x, ast.Constant) and x.value is None for x in st.value.elts)
                if not sentinel:   # (…, None) tuples are failure sentinels, not quantities
                    self._rets.append((st, d_))
            return
        if isinstance(st, ast.Assign):
            v = self.dim(st.value, env, fi)
            for t in st.targets:
                self.assign(t, v, env, fi, st)
            return
        if isinstance(st, ast.AnnAssign):
            if st.value is not None:
                self.assign(st.target, self.dim(st.value, env, fi), env, fi, st)
            return
        if isinstance(st, ast.AugAssign):
            cur = self.dim(st.target, env, fi)
            rhs = self.dim(st.value, env, fi)
            v = self.arith(st.op, cur, rhs, st, fi, st.target, st.value)
            self.assign(st.target, v, env, fi, st, check=False)
            return
        if isinstance(st, ast.If):
            self.dim(st.test, env, fi)
            e1, e2 = dict(env), dict(env)
            for nm in _none_tested(st.test):
                if isinstance(env.get(nm), Dim):
                    decl = dict(e1.get("__declared__") or {})
                    decl[nm] = env[nm]
                    e1["__declared__"] = decl   # a default assigned in this branch must have the declared kind
                e1[nm] = UNK   # inside `if x is None:` the name holds no quantity
            self.block(st.body, e1, fi)
            self.block(st.orelse, e2, fi)
            for k in set(e1) | set(e2):
                if k.startswith("__"):
                    continue
                if k in e1 and k in e2:
                    env[k] = e1[k] if _same(e1[k], e2[k]) else join(e1[k], e2[k])
                else:
                    env[k] = e1.get(k, e2.get(k))
            return
        if isinstance(st, (ast.While,)):
            self.dim(st.test, env, fi)
            self.block(st.body, env, fi)
            self.block(st.body, env, fi) if False else None
            return
        if isinstance(st, ast.For):
            it = self.dim(st.iter, env, fi)
            for t in ast.walk(st.target):
                if isinstance(t, ast.Name):
                    env[t.id] = it if isinstance(it, (Dim, Lit)) and isinstance(st.target, ast.Name) else UNK
            self.block(st.body, env, fi)
            return
        if isinstance(st, ast.With):
            self.block(st.body, env, fi)
            return
        if isinstance(st, ast.Try):
            self.block(st.body, env, fi)
            for h in st.handlers:
                self.block(h.body, dict(env), fi)
            self.block(st.orelse, env, fi)
            self.block(st.finalbody, env, fi)
            return
        if isinstance(st, ast.Expr):
            self.dim(st.value, env, fi)
            return
        if isinstance(st, ast.Assert):
            self.dim(st.test, env, fi)
            return
        if isinstance(st, ast.Match):
            for c in st.cases:
                self.block(c.body, env, fi)
            return

    def assign(self, t, v, env, fi, st, check=True):
        if isinstance(t, ast.Name):
            decl = env.get("__declared__") or {}
            if check and t.id in decl:
                self.check_sink(fi, st, v, decl[t.id], f"default value of `{t.id}`", f"default|{t.id}")
                env[t.id] = decl[t.id]
                return
            old_ = env.get(t.id)
            if check and is_dimful(old_) and isinstance(v, Lit) and v.v not in (0, 0.0, None) and v.v not in (float("inf"), float("-inf")):
                self.report("absolute", fi, st, f"`{t.id}` holds a quantity of kind {old_} and is re-assigned the bare number {v.v}", f"reassign|{old_}|lit{v.v}")
                return
            env[t.id] = v
        elif isinstance(t, (ast.Tuple, ast.List)):
            for i, e in enumerate(t.elts):
                self.assign(e, v[i] if isinstance(v, tuple) and i < len(v) else UNK, env, fi, st, check)
        elif isinstance(t, ast.Attribute):
            base = self.dim(t.value, env, fi)
            if isinstance(base, Obj) and check:
                want = self.attr_dim(base.cls, t.attr)
                known = any((c_, t.attr) in self.ATTR or (c_, t.attr) in self.ATTR_TYPE for c_ in self._mro_names(base.cls))
                if not known and fi.qual.endswith(".__init__") and isinstance(v, Dim) and (base.cls, t.attr) not in self.auto_attr:
                    self.auto_attr[(base.cls, t.attr)] = v          # learnt from the constructor; later stores / uses are checked against it
                    want = UNK
                if isinstance(want, (Dim, tuple)):
                    self.check_sink(fi, st, v, want, f"store to {base.cls}.{t.attr}", f"store|{base.cls}.{t.attr}")
            d = dotted(t)
            if d:
                env[d] = v
        elif isinstance(t, ast.Subscript):
            base = self.dim(t.value, env, fi)
            if isinstance(base, Dim) and isinstance(v, Dim) and base != v and check:
                self.report("conflict", fi, st, f"`{src(t)}` has kind {base} but receives {v}", f"substore|{base}|{v}")

    def check_sink(self, fi, node, got, want, what, key):
        if isinstance(want, tuple):
            if isinstance(got, tuple) and len(got) == len(want):
                for i, (g, w) in enumerate(zip(got, want)):
                    self.check_sink(fi, node, g, w, f"{what}[{i}]", f"{key}[{i}]")
            return
        if isinstance(want, Dim):
            if isinstance(got, Dim) and not self._same_dim(got, want):
                self.report("sink", fi, node, f"{what} must be {want}, got {got}: `{' '.join(src(node).split())[:100]}`", f"{key}|{got}")
            elif isinstance(got, Lit) and not want.zero and got.v not in (0, None) and got.v not in (float("inf"), float("-inf")):
                self.report("absolute", fi, node, f"{what} must be {want} but receives the bare literal {got.v}", f"{key}|lit{got.v}")

    # ---- expressions ---------------------------------------------------------------
    def dim(self, e, env, fi):
        self.total_nodes += 1
        d = self._dim(e, env, fi)
        if d is not UNK:
            self.typed_nodes += 1
        return d

    def _dim(self, e, env, fi):
        if isinstance(e, ast.Constant):
            if isinstance(e.value, bool) or e.value is None or isinstance(e.value, str):
                return UNK
            if isinstance(e.value, (int, float)):
                return Lit(e.value)
            return UNK
        if isinstance(e, ast.Name):
            if e.id in env:
                return env[e.id]
            if e.id in ("SMALL_NUMBER",):
                return Lit(None)
            return UNK
        if isinstance(e, ast.Attribute):
            d = dotted(e)
            if d in ("np.pi", "np.inf", "numpy.pi", "numpy.inf", "math.pi", "np.newaxis", "np.e"):
                return Lit(float("inf") if d.endswith("inf") else None)
            if d is not None and d in env:
                return env[d]
            base = self.dim(e.value, env, fi)
            if e.attr in ("shape", "size", "ndim", "dtype"):
                return D0
            if e.attr in ("T", "real", "imag"):
                return base
            if isinstance(base, Obj):
                if base.cls == "Polynomial" and e.attr == "coefficients":
                    return base.coeff
                if base.cls.startswith(("RootResults:", "MinResult:")):
                    parts = base.cls.split(":")
                    pick = {"root": 1, "x": 1, "fun": 2}.get(e.attr)
                    if pick is not None and pick < len(parts) and parts[pick] != "?":
                        return Dim(sp.sympify(parts[pick]))
                    return UNK
                return self.attr_dim(base.cls, e.attr)
            return UNK
        if isinstance(e, ast.UnaryOp):
            v = self.dim(e.operand, env, fi)
            if isinstance(e.op, ast.Not):
                return UNK
            if isinstance(v, Lit) and isinstance(e.op, ast.USub) and isinstance(v.v, (int, float)):
                return Lit(-v.v)
            return v
        if isinstance(e, ast.BinOp):
            a, b = self.dim(e.left, env, fi), self.dim(e.right, env, fi)
            return self.arith(e.op, a, b, e, fi, e.left, e.right)
        if isinstance(e, ast.BoolOp):
            for v in e.values:
                self.dim(v, env, fi)
            return UNK
        if isinstance(e, ast.Compare):
            left = self.dim(e.left, env, fi)
            for op, c in zip(e.ops, e.comparators):
                right = self.dim(c, env, fi)
                if isinstance(op, (ast.Lt, ast.LtE, ast.Gt, ast.GtE, ast.Eq, ast.NotEq)):
                    self.same_kind(left, right, e, fi, "comparison")
                left = right
            return UNK
        if isinstance(e, (ast.Tuple, ast.List)):
            ks = tuple(self.dim(x, env, fi) for x in e.elts)
            if isinstance(e, ast.List) and len(ks) >= 2:
                # a list display is a vector of like quantities: a bare number next to dimensionful siblings of one kind is a hard-wired scale
                dims = [k for k in ks if isinstance(k, Dim) and not k.zero]
                if dims and all(self._same_dim(d_, dims[0]) for d_ in dims) and len(dims) + sum(isinstance(k, Lit) for k in ks) == len(ks):
                    for x, k in zip(e.elts, ks):
                        if isinstance(k, Lit) and k.v not in (0, 0.0, None) and k.v not in (float("inf"), float("-inf")):
                            self.report("absolute", fi, e, f"list of quantities of kind {dims[0]} with the bare number {k.v} as one element: `{src(e)[:60]}`",
                                        f"listelem|{dims[0]}|lit{k.v}")
            return ks
        if isinstance(e, ast.Subscript):
            base = self.dim(e.value, env, fi)
            self.dim(e.slice, env, fi) if not isinstance(e.slice, (ast.Slice, ast.Tuple)) else None
            if isinstance(base, tuple):
                if isinstance(e.slice, ast.Constant) and isinstance(e.slice.value, int) and -len(base) <= e.slice.value < len(base):
                    return base[e.slice.value]
                if isinstance(e.slice, ast.Slice):
                    return base
                j = UNK
                if base:
                    j = base[0]
                    for x in base[1:]:
                        j = join(j, x) if _same(j, x) or True else UNK
                        if not _same(j, x) and not (isinstance(j, Lit) or isinstance(x, Lit)):
                            j = UNK
                            break
                return j
            return base
        if isinstance(e, ast.IfExp):
            self.dim(e.test, env, fi)
            a, b = self.dim(e.body, env, fi), self.dim(e.orelse, env, fi)
            return a if _same(a, b) else join(a, b)
        if isinstance(e, ast.Lambda):
            e2 = dict(env)
            for p in e.args.args:
                e2[p.arg] = UNK
            return Func(ret=None, node=e)
        if isinstance(e, ast.Call):
            return self.call(e, env, fi)
        if isinstance(e, (ast.ListComp, ast.GeneratorExp)):
            e2 = dict(env)
            for gen in e.generators:
                it = self.dim(gen.iter, e2, fi)
                for t in ast.walk(gen.target):
                    if isinstance(t, ast.Name):
                        e2[t.id] = UNK
                # `for particle in particles` -> Particle object
                if isinstance(gen.target, ast.Name) and "particle" in gen.target.id.lower():
                    e2[gen.target.id] = Obj("Particle")
                if isinstance(gen.target, ast.Tuple):
                    for t in gen.target.elts:
                        if isinstance(t, ast.Name) and "particle" in t.id.lower():
                            e2[t.id] = Obj("Particle")
                if isinstance(gen.target, ast.Name) and isinstance(it, Dim):
                    e2[gen.target.id] = it
            return self.dim(e.elt, e2, fi)
        if isinstance(e, ast.JoinedStr):
            return UNK
        if isinstance(e, ast.Starred):
            return self.dim(e.value, env, fi)
        return UNK

    def _same_dim(self, a, b) -> bool:
        """equality of kinds, modulo the identification of a local used as a symbolic exponent with the attribute it is stored to
        (`mu = ...; a = w / T**mu; self.muMinLowT, self.aMinLowT = mu, a`)"""
        if a == b:
            return True
        al = getattr(self, "_alias", None)
        if al and isinstance(a, Dim) and isinstance(b, Dim):
            try:
                return sp.simplify(a.q.subs(al) - b.q.subs(al)) == 0
            except Exception:
                return False
        return False

    def same_kind(self, a, b, node, fi, what):
        if isinstance(a, Dim) and isinstance(b, Dim):
            if not self._same_dim(a, b):
                self.report("conflict", fi, node, f"{what} of {a} with {b}: `{' '.join(src(node).split())[:110]}`", f"{what}|{a}|{b}")
            return a
        for x, y in ((a, b), (b, a)):
            if is_dimful(x) and isinstance(y, Lit):
                if y.v in (0, 0.0) or y.v in (float("inf"), float("-inf")):
                    return x
                self.report("absolute", fi, node, f"{what} of a quantity of kind {x} with the bare number {y.v}: `{' '.join(src(node).split())[:110]}`",
                            f"{what}|{x}|lit{y.v}")
                return x
        return join(a, b) if (numeric(a) and numeric(b)) else UNK

    def arith(self, op, a, b, node, fi, ln=None, rn=None):
        if isinstance(op, (ast.Add, ast.Sub)):
            if isinstance(a, tuple) and isinstance(b, tuple):
                return a + b
            if not (numeric(a) and numeric(b)):
                return UNK
            return self.same_kind(a, b, node, fi, "sum" if isinstance(op, ast.Add) else "difference")
        if isinstance(op, ast.Mult):
            if isinstance(a, tuple) or isinstance(b, tuple):
                t = a if isinstance(a, tuple) else b
                return t
            if not (numeric(a) and numeric(b)):
                return UNK
            if isinstance(a, Lit) and isinstance(b, Lit):
                return Lit(a.v * b.v if isinstance(a.v, (int, float)) and isinstance(b.v, (int, float)) else None)
            return Dim(q_of(a) + q_of(b))
        if isinstance(op, (ast.Div, ast.FloorDiv)):
            if not (numeric(a) and numeric(b)):
                return UNK
            if isinstance(a, Lit) and isinstance(b, Lit):
                try:
                    return Lit(a.v / b.v if isinstance(a.v, (int, float)) and isinstance(b.v, (int, float)) else None)
                except ZeroDivisionError:
                    return Lit(None)
            return Dim(q_of(a) - q_of(b))
        if isinstance(op, ast.Pow):
            if not numeric(a):
                return UNK
            if isinstance(b, Lit) and isinstance(b.v, (int, float)):
                if isinstance(a, Lit):
                    return Lit(None)
                return Dim(q_of(a) * sp.nsimplify(b.v))
            if isinstance(b, Dim) and not b.zero:
                self.report("transcendental", fi, node, f"exponent of kind {b}: `{' '.join(src(node).split())[:100]}`", f"pow|{b}")
                return UNK
            if isinstance(a, Lit):
                return Lit(None)
            if isinstance(a, Dim) and a.zero:
                return D0
            # symbolic dimensionless exponent: E^(q * <exponent term>)
            if rn is not None:
                t = _exponent_term(rn)
                if t is not None:
                    return Dim(q_of(a) * t)
            return UNK
        if isinstance(op, ast.MatMult):
            if numeric(a) and numeric(b):
                return Dim(q_of(a) + q_of(b))
            return UNK
        if isinstance(op, ast.Mod):
            return a
        return UNK

    # ---- calls ---------------------------------------------------------------------
    def call(self, e: ast.Call, env, fi):
        d = dotted(e.func) or ""
        short = e.func.attr if isinstance(e.func, ast.Attribute) else d.split(".")[-1]
        args = [self.dim(a, env, fi) for a in e.args]
        kw = {k.arg: self.dim(k.value, env, fi) for k in e.keywords if k.arg}
        root = d.split(".")[0] if d else ""
        # local closures
        if isinstance(e.func, ast.Name) and isinstance(env.get(e.func.id), Func):
            f = env[e.func.id]
            return f.ret
        if root in ("np", "numpy", "math", "scipylinalg", "special") or (not d and False):
            return self.np_call(short, e, args, kw, env, fi)
        if d in ("abs", "float", "min", "max", "sum", "pow", "len", "int", "range", "enumerate", "isinstance", "list", "tuple", "sorted", "zip", "bool", "str", "hasattr", "complex"):
            return self.np_call(short, e, args, kw, env, fi)
        if short in ("root_scalar", "brentq"):
            return self.root_scalar(e, args, kw, env, fi)
        if short == "minimize_scalar":
            return self.minimize_scalar(e, args, kw, env, fi)
        if short == "Bounds" and "optimize" in d:
            lb = kw.get("lb", args[0] if args else UNK)
            ub = kw.get("ub", args[1] if len(args) > 1 else UNK)
            if isinstance(lb, (Dim, Packed)) and isinstance(ub, (Dim, Packed)) and not (lb == ub):
                self.report("conflict", fi, e, f"lower and upper bounds of different kind: {lb} vs {ub}: `{' '.join(src(e).split())[:100]}`", f"bounds|{lb}|{ub}")
                return Obj("Bounds")
            return Obj("Bounds", coeff=lb if isinstance(lb, (Dim, Packed)) else ub)
        if short == "minimize" and "optimize" in d:
            x0 = args[1] if len(args) > 1 else kw.get("x0")
            if not args and "fun" in kw:
                args = [kw["fun"]] + list(args)
            bd = kw.get("bounds")
            if isinstance(bd, Obj) and isinstance(bd.coeff, (Dim, Packed)) and isinstance(x0, (Dim, Packed)) and not (bd.coeff == x0):
                self.report("conflict", fi, e, f"minimisation variables of kind {x0} with bounds of kind {bd.coeff}", f"minimize-bounds|{x0}|{bd.coeff}")
            f0 = args[0] if args else UNK
            fr = f0.ret if isinstance(f0, Func) else UNK
            tol = kw.get("tol")
            xs = x0 if isinstance(x0, Dim) else (x0[0] if isinstance(x0, tuple) and x0 and isinstance(x0[0], Dim) else UNK)
            if (is_dimful(xs) or is_dimful(fr)) and kw.get("method") is None and len(e.args) < 4:
                m = [k for k in e.keywords if k.arg == "method"]
                if not m:
                    self.report("absolute", fi, e, f"scipy.optimize.minimize (default BFGS: absolute gradient tolerance gtol and absolute finite-difference step) on a "
                                f"function of kind {fr} of variables of kind {xs}", f"scipy-minimize-default|{xs}|{fr}")
            return Obj("OptimizeResult")
        if short == "solve_ivp":
            at = kw.get("atol")
            if isinstance(at, Lit) and at.v not in (0, 0.0, None):
                self.report("absolute", fi, e, f"solve_ivp with absolute tolerance {at.v}", f"solve_ivp-atol|lit{at.v}")
            return Obj("OdeResult")
        if short in ("root",) and "optimize" in (d or "root"):
            return Obj("OptimizeResult")
        if short in ("simpson", "trapezoid"):
            y = kw.get("y", args[0] if args else UNK)
            x = kw.get("x", args[1] if len(args) > 1 else UNK)
            if numeric(y) and numeric(x):
                return Dim(q_of(y) + q_of(x))
            return UNK
        if short == "quad":
            return (UNK, UNK)
        # constructors of package classes
        for m in self.S.modules.values():
            if short in m.classes and (d == short or d.endswith("." + short)):
                init = m.classes[short].methods.get("__init__")
                if init is None:
                    # synthesised dataclass constructor: parameters are the annotated fields in order
                    flds = [st.target.id for st in m.classes[short].node.body if isinstance(st, ast.AnnAssign) and isinstance(st.target, ast.Name)]
                    for i, a_ in enumerate(args):
                        if i < len(flds) and (short + ".__init__", flds[i]) in self.PARAM:
                            self.check_sink(fi, e.args[i], a_, self.PARAM[(short + ".__init__", flds[i])], f"argument `{flds[i]}` of {short}(...)",
                                            f"arg|{short}.__init__.{flds[i]}")
                self.check_args(short + ".__init__", e, args, kw, fi, init)
                if short == "Polynomial":
                    return Obj("Polynomial", coeff=args[0] if args else UNK)
                return Obj(short)
        # methods: resolve receiver class
        recv_cls = None
        if isinstance(e.func, ast.Attribute):
            base = self.dim(e.func.value, env, fi)
            if isinstance(base, Obj):
                recv_cls = base.cls
                if base.cls == "Polynomial":
                    if short == "integrate":
                        w = kw.get("weight", args[1] if len(args) > 1 else Lit(1))
                        cd = base.coeff
                        if numeric(cd) and numeric(w):
                            r = Dim(q_of(cd) + q_of(w))
                            ax = kw.get("axis", args[0] if args else None)
                            return r if ax is None or not args and "axis" not in kw else Obj("Polynomial", coeff=r)
                        return UNK
                    if short in ("derivative",):
                        return Obj("Polynomial", coeff=base.coeff)
                    if short == "evaluate":
                        return base.coeff
                    return UNK
                if base.cls in ("FreeEnergy",) and short == "derivative":
                    order = kw.get("order", args[1] if len(args) > 1 else Lit(1))
                    if isinstance(order, Lit) and isinstance(order.v, int):
                        return Obj(f"FreeEnergyValueType_d{order.v}")
                    return UNK
            elif isinstance(base, (Dim, Lit)) and short in SAME_DIM:
                return base
            elif isinstance(base, tuple) and short in ("copy",):
                return base
        # calling an object: self.freeEnergyHigh(T)
        if not isinstance(e.func, ast.Attribute) or recv_cls is None:
            basev = self.dim(e.func, env, fi) if isinstance(e.func, (ast.Attribute,)) else UNK
            if isinstance(basev, Obj) and basev.cls == "FreeEnergy":
                self.check_args("FreeEnergy.__call__", e, args, kw, fi, None)
                return Obj("FreeEnergyValueType")
        qual = None
        if recv_cls is not None:
            for c in self._mro_names(recv_cls):
                if f"{c}.{short}" in self.RET or any((f"{c}.{short}", p) in self.PARAM for p in _param_names(self.S, c, short)):
                    qual = f"{c}.{short}"
                    break
            if qual is None:
                qual = f"{recv_cls}.{short}"
        elif d and "." not in d:
            # module-level helper (gammaSq, boostVelocity, derivative ...)
            qual = d
        if qual is not None:
            fn_info = _lookup(self.S, qual)
            self.check_args(qual, e, args, kw, fi, fn_info)
            if qual in self.RET:
                return self.RET[qual]
            if short in SAME_DIM and args:
                return args[0]
        if short in SAME_DIM and args:
            return args[0]
        return UNK

    def check_args(self, qual, e, args, kw, fi, fn_info):
        names = None
        if fn_info is not None:
            names = [p for p in fn_info.params() if p not in ("self", "cls")]
        for i, a in enumerate(args):
            pn = names[i] if names is not None and i < len(names) else None
            if pn and (qual, pn) in self.PARAM:
                self.check_sink(fi, e.args[i], a, self.PARAM[(qual, pn)], f"argument `{pn}` of {qual}", f"arg|{qual}.{pn}")
        for k, v in kw.items():
            if (qual, k) in self.PARAM:
                node = [x.value for x in e.keywords if x.arg == k][0]
                self.check_sink(fi, node, v, self.PARAM[(qual, k)], f"argument `{k}` of {qual}", f"arg|{qual}.{k}")

    def np_call(self, short, e, args, kw, env, fi):
        if short in TRANSCENDENTAL:
            a = args[0] if args else UNK
            if is_dimful(a):
                self.report("transcendental", fi, e, f"{short}() of a quantity of kind {a}: `{' '.join(src(e).split())[:100]}`", f"{short}|{a}")
            return D0 if numeric(a) else UNK
        if short == "sqrt":
            a = args[0] if args else UNK
            if isinstance(a, Lit):
                return Lit(None)
            return Dim(q_of(a) / 2) if isinstance(a, Dim) else UNK
        if short in ("pow", "power") and len(args) == 2:
            return self.arith(ast.Pow(), args[0], args[1], e, fi, e.args[0], e.args[1])
        if short in ("min", "max", "maximum", "minimum") and len(args) >= 2:
            r = args[0]
            for x in args[1:]:
                r = self.same_kind(r, x, e, fi, f"{short}()") if numeric(r) and numeric(x) else UNK
            return r
        if short in ("concatenate", "append", "vstack", "hstack", "column_stack"):
            parts = []

            def flat_parts(a):
                if isinstance(a, tuple):
                    for x in a:
                        flat_parts(x)
                else:
                    parts.append(a)

            for a in args:
                flat_parts(a)
            if parts and all(isinstance(p, (Dim, Packed)) for p in parts):
                flat = []
                for p in parts:
                    flat += list(p.kinds) if isinstance(p, Packed) else [p]
                pk = Packed(flat)
                return pk.kinds[0] if len(pk.kinds) == 1 else pk
            parts = [p for p in parts if numeric(p)]
            r = UNK
            for p in parts:
                if isinstance(p, Dim):
                    r = p if r is UNK else (r if r == p else UNK)
            return r
        if short == "where" and len(args) == 3:
            return self.same_kind(args[1], args[2], e, fi, "where()") if numeric(args[1]) and numeric(args[2]) else UNK
        if short in SAME_DIM and args:
            a = args[0]
            if isinstance(a, tuple):
                r = UNK
                ds = [x for x in a if isinstance(x, Dim)]
                if ds and all(x == ds[0] for x in ds) and all(isinstance(x, (Dim, Lit)) for x in a):
                    r = ds[0]
                elif a and all(isinstance(x, Lit) for x in a):
                    r = Lit(None)
                return r
            return a
        if short in ("allclose", "isclose") and len(args) >= 2:
            at = kw.get("atol", args[3] if len(args) > 3 else Lit(1e-8))
            if (is_dimful(args[0]) or is_dimful(args[1])) and isinstance(at, Lit) and at.v not in (0, 0.0):
                d_ = args[0] if is_dimful(args[0]) else args[1]
                self.report("absolute", fi, e, f"np.{short} of quantities of kind {d_} with absolute tolerance atol = {at.v}", f"{short}|{d_}|lit{at.v}")
            return UNK
        if short == "full" and len(args) >= 2:
            a1 = args[1]
            if isinstance(a1, tuple):
                ds = [x for x in a1 if isinstance(x, Dim)]
                return ds[0] if ds else UNK
            return a1
        if short in ZEROLIKE:
            return Lit(0)
        if short in ("ones", "ones_like", "identity", "eye"):
            return Lit(1)
        if short in BOOLISH:
            return D0 if short in ("len", "size", "shape", "ndim", "numFields", "numPoints", "sign") else UNK
        if short in ("solve",) and len(args) == 2 and numeric(args[0]) and numeric(args[1]):
            return Dim(q_of(args[1]) - q_of(args[0]))
        if short in ("eigvalsh", "eigvals", "inv"):
            a = args[0] if args else UNK
            if short == "inv" and isinstance(a, Dim):
                return Dim(-a.q)
            return a
        return UNK

    def root_scalar(self, e, args, kw, env, fi):
        br = kw.get("bracket")
        xd = UNK
        cands = []
        if isinstance(br, tuple):
            cands += list(br)
        for k in ("x0", "x1"):
            if k in kw:
                cands.append(kw[k])
        for c in cands:
            if isinstance(c, Dim):
                xd = c if xd is UNK or xd == c else xd
        if isinstance(br, tuple) and len(br) == 2 and isinstance(br[0], Dim) and isinstance(br[1], Dim) and br[0] != br[1]:
            self.report("conflict", fi, e, f"bracket ends of kinds {br[0]} and {br[1]}", f"bracket|{br[0]}|{br[1]}")
        xt = kw.get("xtol")
        if is_dimful(xd):
            if isinstance(xt, Lit) and xt.v not in (0, None):
                self.report("absolute", fi, e, f"root of kind {xd} searched with absolute tolerance xtol = {xt.v}", f"xtol|{xd}|lit{xt.v}")
            elif isinstance(xt, Dim) and xt != xd:
                node = [k.value for k in e.keywords if k.arg == "xtol"][0]
                self.report("absolute", fi, e, f"root of kind {xd} searched with absolute tolerance xtol = `{src(node)}` of kind {xt}", f"xtol|{xd}|{xt}")
        return Obj("RootResults:" + str(xd.q if isinstance(xd, Dim) else "?"))

    def minimize_scalar(self, e, args, kw, env, fi):
        b = kw.get("bounds")
        xd = UNK
        if isinstance(b, tuple):
            for c in b:
                if isinstance(c, Dim):
                    xd = c
        f0 = args[0] if args else UNK
        fr = f0.ret if isinstance(f0, Func) else UNK
        if is_dimful(xd):
            opt = [k for k in e.keywords if k.arg == "options"]
            if not opt:
                self.report("absolute", fi, e, f"minimize_scalar(Bounded) over a variable of kind {xd} with scipy's default absolute tolerance xatol = 1e-5",
                            f"xatol-default|{xd}")
        return Obj("MinResult:" + str(xd.q if isinstance(xd, Dim) else "?") + ":" + (str(fr.q) if isinstance(fr, Dim) else "?"))


def _none_tested(t: ast.AST) -> list[str]:
    out = []
    if isinstance(t, ast.Compare) and len(t.ops) == 1 and isinstance(t.ops[0], ast.Is) and isinstance(t.comparators[0], ast.Constant) \
            and t.comparators[0].value is None and isinstance(t.left, ast.Name):
        out.append(t.left.id)
    if isinstance(t, ast.BoolOp) and isinstance(t.op, ast.Or):
        for v in t.values:
            out += _none_tested(v)
    return out


def _same(a, b) -> bool:
    if isinstance(a, Dim) and isinstance(b, Dim):
        return a == b
    if a is UNK and b is UNK:
        return True
    if isinstance(a, Lit) and isinstance(b, Lit):
        return True
    if isinstance(a, tuple) and isinstance(b, tuple) and len(a) == len(b):
        return all(_same(x, y) for x, y in zip(a, b))
    if isinstance(a, Obj) and isinstance(b, Obj):
        return a.cls == b.cls
    if isinstance(a, Func) and isinstance(b, Func):
        return True
    return False


def _sig(w) -> str:
    return str(w)


def _exponent_aliases(fn: ast.AST) -> dict:
    """{Symbol(local): Symbol(attribute)} for locals that are stored to / loaded from exactly one self attribute:
    `self.muMinLowT = mu`, `(self.muMinLowT, self.aMinLowT) = (mu, a)`, `mu = self.muMinLowT`"""
    pairs: dict[str, set] = {}

    def pair(t, v):
        if isinstance(t, (ast.Tuple, ast.List)) and isinstance(v, (ast.Tuple, ast.List)) and len(t.elts) == len(v.elts):
            for a, b in zip(t.elts, v.elts):
                pair(a, b)
            return
        for x, y in ((t, v), (v, t)):
            if isinstance(x, ast.Attribute) and isinstance(x.value, ast.Name) and x.value.id == "self" and isinstance(y, ast.Name):
                pairs.setdefault(y.id, set()).add(x.attr)

    for st in ast.walk(fn):
        if isinstance(st, ast.Assign) and len(st.targets) == 1:
            pair(st.targets[0], st.value)
        elif isinstance(st, ast.AnnAssign) and st.value is not None:
            pair(st.target, st.value)
    return {sp.Symbol(k): sp.Symbol(next(iter(v))) for k, v in pairs.items() if len(v) == 1}


def _exponent_term(node: ast.AST):
    """sympy term of a dimensionless exponent expression (attribute names become symbols)"""
    try:
        if isinstance(node, ast.Constant) and isinstance(node.value, (int, float)):
            return sp.nsimplify(node.value)
        if isinstance(node, (ast.Name, ast.Attribute)):
            d = dotted(node)
            return sp.Symbol(d.replace("self.", "")) if d else None
        if isinstance(node, ast.BinOp):
            a, b = _exponent_term(node.left), _exponent_term(node.right)
            if a is None or b is None:
                return None
            return {ast.Add: a + b, ast.Sub: a - b, ast.Mult: a * b, ast.Div: a / b}.get(type(node.op))
        if isinstance(node, ast.UnaryOp) and isinstance(node.op, ast.USub):
            a = _exponent_term(node.operand)
            return -a if a is not None else None
    except Exception:
        return None
    return None


def _lookup(S: Source, qual: str) -> Optional[FuncInfo]:
    for m in S.modules.values():
        if qual in m.funcs:
            return m.funcs[qual]
        c, _, meth = qual.partition(".")
        if c in m.classes:
            f = S.method(f"{m.name}:{c}", meth)
            if f is not None:
                return f
    return None


def _param_names(S: Source, cls: str, meth: str) -> list[str]:
    f = _lookup(S, f"{cls}.{meth}")
    return f.params() if f is not None else []
