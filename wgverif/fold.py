"""E3 -- constant folder for module-level literal tables (exact rationals)."""
from __future__ import annotations

import ast
from fractions import Fraction
from typing import Any

from .core import Undecided, dotted


def fold(node: ast.expr) -> Any:
    """Fold a literal numeric table expression to nested lists of Fraction /
    dicts thereof.  Supports np.array(<literal>, dtype=...), +,-,*,/ with
    scalars (elementwise), unary minus, dict and list displays."""
    if isinstance(node, ast.Constant):
        if isinstance(node.value, bool) or not isinstance(node.value, (int, float)):
            raise Undecided(f"non numeric constant {node.value!r} in table")
        return Fraction(repr(node.value)) if isinstance(node.value, float) else Fraction(node.value)
    if isinstance(node, (ast.List, ast.Tuple)):
        return [fold(e) for e in node.elts]
    if isinstance(node, ast.Dict):
        out = {}
        for k, v in zip(node.keys, node.values):
            if not isinstance(k, ast.Constant):
                raise Undecided("non literal dict key in table")
            out[k.value] = fold(v)
        return out
    if isinstance(node, ast.UnaryOp) and isinstance(node.op, (ast.USub, ast.UAdd)):
        v = fold(node.operand)
        return _map(v, lambda x: -x) if isinstance(node.op, ast.USub) else v
    if isinstance(node, ast.Call):
        d = dotted(node.func)
        if d in ("np.array", "numpy.array", "np.asarray") and node.args:
            return fold(node.args[0])
        raise Undecided(f"call {d} in table")
    if isinstance(node, ast.BinOp):
        a, b = fold(node.left), fold(node.right)
        op = {ast.Add: lambda x, y: x + y, ast.Sub: lambda x, y: x - y, ast.Mult: lambda x, y: x * y,
              ast.Div: lambda x, y: x / y}.get(type(node.op))
        if op is None:
            raise Undecided("operator in table")
        if isinstance(b, Fraction):
            return _map(a, lambda x: op(x, b))
        if isinstance(a, Fraction):
            return _map(b, lambda y: op(a, y))
        return _zip(a, b, op)
    raise Undecided(f"table expression {type(node).__name__}")


def _map(v: Any, f):
    if isinstance(v, list):
        return [_map(x, f) for x in v]
    return f(v)


def _zip(a, b, f):
    if isinstance(a, list) and isinstance(b, list) and len(a) == len(b):
        return [_zip(x, y, f) for x, y in zip(a, b)]
    if isinstance(a, Fraction) and isinstance(b, Fraction):
        return f(a, b)
    raise Undecided("shape mismatch in table arithmetic")
