"""Canonical forms of equivalent numpy / arithmetic idioms.

The rules match structure, and several of them match the *text* of an expression.  Python + numpy offer several spellings of the
same operation; a change from one to the other leaves behaviour bit-identical and must not change any verdict.  Every module is
therefore rewritten into one canonical spelling right after parsing (line / column information is kept), so that every rule
sees the same tree for all spellings:

    X.sum(a..) / .all / .any / .min / .max / .mean / .prod      ->  np.sum(X, a..) ...
    np.ndim(X) / np.size(X) / np.shape(X)                       ->  X.ndim / X.size / X.shape
    np.append(a, b[, axis])                                     ->  np.concatenate((a, b)[, axis])       (a bare number c becomes [c])
    np.logical_and(a, b) / logical_or / logical_not(a)          ->  a & b / a | b / ~a
    np.power(a, b) / pow(a, b) / np.square(a)                   ->  a ** b / a ** 2;      np.eye(n) -> np.identity(n)
    e * e   (same simple operand)                               ->  e ** 2
    not x in y                                                  ->  x not in y
    X[::-1]                                                     ->  np.flip(X, axis=0)
    v * np.ones(n) / np.ones(n) * v                             ->  np.full(n, v);      np.full(1, v) -> np.array([v])
    np.concatenate((np.ravel(a), np.ravel(b)))   (no axis)      ->  np.concatenate((a, b))
    np.newaxis -> None;   X.T -> np.transpose(X);   dtype=float dropped from array constructors

Nothing here depends on which spelling the pinned tree uses; the rules are written against the right-hand column.
"""
from __future__ import annotations

import ast

REDUCERS = {"sum", "all", "any", "min", "max", "mean", "prod"}
MODULE_NAMES = {"np", "numpy", "math", "scipy", "special", "integrate", "optimize", "scipylinalg", "os", "sys", "logging", "warnings"}
ATTR_FUNCS = {"ndim", "size", "shape"}
ARRAY_CTORS = {"full", "array", "asarray", "asanyarray", "zeros", "ones", "empty", "zeros_like", "ones_like", "empty_like", "full_like"}


def _is_np(node: ast.AST, name: str) -> bool:
    return (isinstance(node, ast.Attribute) and node.attr == name and isinstance(node.value, ast.Name) and node.value.id in ("np", "numpy"))


def _simple(e: ast.AST) -> bool:
    if isinstance(e, ast.Name):
        return True
    if isinstance(e, ast.Attribute):
        return _simple(e.value)
    if isinstance(e, ast.Subscript):
        return _simple(e.value) and all(isinstance(n, (ast.Name, ast.Constant, ast.Slice, ast.Tuple, ast.Subscript, ast.Attribute, ast.Load,
                                                       ast.UnaryOp, ast.USub)) for n in ast.walk(e.slice))
    return False


class Canon(ast.NodeTransformer):
    def visit_Call(self, node: ast.Call) -> ast.AST:
        self.generic_visit(node)
        f = node.func
        new: ast.AST | None = None
        if isinstance(f, ast.Attribute):
            recv = f.value
            is_mod = isinstance(recv, ast.Name) and recv.id in MODULE_NAMES
            if f.attr in REDUCERS and not is_mod and not (isinstance(recv, ast.Call) and isinstance(recv.func, ast.Name) and recv.func.id == "super"):
                new = ast.Call(func=ast.Attribute(value=ast.Name(id="np", ctx=ast.Load()), attr=f.attr, ctx=ast.Load()),
                               args=[recv] + list(node.args), keywords=list(node.keywords))
            elif any(_is_np(f, a) for a in ATTR_FUNCS) and len(node.args) == 1 and not node.keywords:
                new = ast.Attribute(value=node.args[0], attr=f.attr, ctx=ast.Load())
            elif _is_np(f, "append") and len(node.args) >= 2:
                parts = [ast.List(elts=[a], ctx=ast.Load()) if isinstance(a, ast.Constant) and isinstance(a.value, (int, float)) else a
                         for a in node.args[:2]]
                new = ast.Call(func=ast.Attribute(value=f.value, attr="concatenate", ctx=ast.Load()),
                               args=[ast.Tuple(elts=parts, ctx=ast.Load())] + list(node.args[2:]), keywords=list(node.keywords))
            elif _is_np(f, "logical_and") and len(node.args) == 2 and not node.keywords:
                new = ast.BinOp(left=node.args[0], op=ast.BitAnd(), right=node.args[1])
            elif _is_np(f, "logical_or") and len(node.args) == 2 and not node.keywords:
                new = ast.BinOp(left=node.args[0], op=ast.BitOr(), right=node.args[1])
            elif _is_np(f, "logical_not") and len(node.args) == 1 and not node.keywords:
                new = ast.UnaryOp(op=ast.Invert(), operand=node.args[0])
            elif _is_np(f, "power") and len(node.args) == 2 and not node.keywords:
                new = ast.BinOp(left=node.args[0], op=ast.Pow(), right=node.args[1])
            elif _is_np(f, "square") and len(node.args) == 1 and not node.keywords:
                new = ast.BinOp(left=node.args[0], op=ast.Pow(), right=ast.Constant(value=2))
            elif _is_np(f, "eye") and len(node.args) == 1 and not node.keywords:
                new = ast.Call(func=ast.Attribute(value=f.value, attr="identity", ctx=ast.Load()), args=list(node.args), keywords=[])
        elif isinstance(f, ast.Name) and f.id == "pow" and len(node.args) == 2 and not node.keywords:
            new = ast.BinOp(left=node.args[0], op=ast.Pow(), right=node.args[1])
        if new is None and isinstance(f, ast.Attribute) and isinstance(f.value, ast.Name) and f.value.id in ("np", "numpy"):
            if f.attr in ARRAY_CTORS and any(k.arg == "dtype" and isinstance(k.value, ast.Name) and k.value.id == "float" for k in node.keywords):
                node.keywords = [k for k in node.keywords if not (k.arg == "dtype" and isinstance(k.value, ast.Name) and k.value.id == "float")]
            if f.attr == "full" and len(node.args) == 2 and not node.keywords and isinstance(node.args[0], ast.Constant) and node.args[0].value == 1:
                new = ast.Call(func=ast.Attribute(value=f.value, attr="array", ctx=ast.Load()), args=[ast.List(elts=[node.args[1]], ctx=ast.Load())], keywords=[])
            elif (f.attr == "concatenate" and len(node.args) == 1 and not node.keywords and isinstance(node.args[0], (ast.Tuple, ast.List))
                  and node.args[0].elts and all(isinstance(x, ast.Call) and _is_np(x.func, "ravel") and len(x.args) == 1 and not x.keywords for x in node.args[0].elts)):
                node.args[0].elts = [x.args[0] for x in node.args[0].elts]
        if new is None:
            return node
        ast.copy_location(new, node)
        ast.fix_missing_locations(new)
        return new

    def visit_BinOp(self, node: ast.BinOp) -> ast.AST:
        self.generic_visit(node)
        if isinstance(node.op, ast.Mult):
            for ones, other in ((node.left, node.right), (node.right, node.left)):
                if (isinstance(ones, ast.Call) and _is_np(ones.func, "ones") and len(ones.args) == 1 and not ones.keywords
                        and not (isinstance(other, ast.Call) and _is_np(other.func, "ones"))):
                    new = ast.Call(func=ast.Attribute(value=ones.func.value, attr="full", ctx=ast.Load()), args=[ones.args[0], other], keywords=[])
                    ast.copy_location(new, node)
                    ast.fix_missing_locations(new)
                    return new
        if isinstance(node.op, ast.Mult) and _simple(node.left) and _simple(node.right) and ast.dump(node.left) == ast.dump(node.right):
            new = ast.BinOp(left=node.left, op=ast.Pow(), right=ast.Constant(value=2))
            ast.copy_location(new, node)
            ast.fix_missing_locations(new)
            return new
        if (isinstance(node.op, ast.Mult) and isinstance(node.left, ast.BinOp) and isinstance(node.left.op, ast.Mult) and _simple(node.right)
                and ast.dump(node.left.right) == ast.dump(node.right)):
            # (a * x) * x  ->  a * x ** 2
            sq = ast.BinOp(left=node.right, op=ast.Pow(), right=ast.Constant(value=2))
            new = ast.BinOp(left=node.left.left, op=ast.Mult(), right=sq)
            ast.copy_location(sq, node.right)
            ast.copy_location(new, node)
            ast.fix_missing_locations(new)
            return new
        return node

    def visit_UnaryOp(self, node: ast.UnaryOp) -> ast.AST:
        self.generic_visit(node)
        if (isinstance(node.op, ast.Not) and isinstance(node.operand, ast.Compare) and len(node.operand.ops) == 1
                and isinstance(node.operand.ops[0], ast.In)):
            new = ast.Compare(left=node.operand.left, ops=[ast.NotIn()], comparators=node.operand.comparators)
            ast.copy_location(new, node)
            ast.fix_missing_locations(new)
            return new
        return node


    def visit_Subscript(self, node: ast.Subscript) -> ast.AST:
        self.generic_visit(node)
        sl = node.slice
        if (isinstance(node.ctx, ast.Load) and isinstance(sl, ast.Slice) and sl.lower is None and sl.upper is None and sl.step is not None
                and isinstance(sl.step, ast.UnaryOp) and isinstance(sl.step.op, ast.USub) and isinstance(sl.step.operand, ast.Constant) and sl.step.operand.value == 1):
            new = ast.Call(func=ast.Attribute(value=ast.Name(id="np", ctx=ast.Load()), attr="flip", ctx=ast.Load()), args=[node.value],
                           keywords=[ast.keyword(arg="axis", value=ast.Constant(value=0))])
            ast.copy_location(new, node)
            ast.fix_missing_locations(new)
            return new
        return node

    def visit_Attribute(self, node: ast.Attribute) -> ast.AST:
        self.generic_visit(node)
        if isinstance(node.ctx, ast.Load):
            if node.attr == "newaxis" and isinstance(node.value, ast.Name) and node.value.id in ("np", "numpy"):
                new: ast.AST = ast.Constant(value=None)
            elif node.attr == "T" and not (isinstance(node.value, ast.Name) and node.value.id in MODULE_NAMES):
                new = ast.Call(func=ast.Attribute(value=ast.Name(id="np", ctx=ast.Load()), attr="transpose", ctx=ast.Load()), args=[node.value], keywords=[])
            else:
                return node
            ast.copy_location(new, node)
            ast.fix_missing_locations(new)
            return new
        return node


def canonicalise(tree: ast.Module) -> ast.Module:
    tree = Canon().visit(tree)
    ast.fix_missing_locations(tree)
    return tree
