"""
Core of the WallGo static verifier: source model (E1), rule driver (E8),
evidence / findings bookkeeping.

Nothing here imports or runs WallGo.  All facts come from `ast` trees of the
files under <repo>/src/WallGo.
"""
from __future__ import annotations

import ast
import json
import os
import sys
import time
import hashlib
import traceback
from dataclasses import dataclass, field
from pathlib import Path
from .canon import canonicalise
from typing import Any, Callable, Iterable, Optional

VERIF_ROOT = Path(__file__).resolve().parent.parent
DEFAULT_REPO = Path(os.environ.get("WGVERIF_REPO", "/repo"))
PKG_REL = Path("src/WallGo")


class AnalysisError(Exception):
    """Internal problem: anchor vanished, construct outside the analysable
    subset, ... -> exit 2, never a property violation."""


class AnchorMissing(AnalysisError):
    pass


class Undecided(AnalysisError):
    pass


# --------------------------------------------------------------------------
# E1 source model
# --------------------------------------------------------------------------


@dataclass
class FuncInfo:
    module: str  # e.g. "hydrodynamics"
    qual: str  # e.g. "Hydrodynamics.matchDeflagOrHyb.matching"
    node: ast.FunctionDef
    cls: Optional[str]
    parent: Optional["FuncInfo"] = None

    @property
    def name(self) -> str:
        return f"{self.module}:{self.qual}"

    @property
    def file(self) -> str:
        return self.module.replace(".", "/") + ".py"  # (sub-package __init__ is shown as <pkg>.py)

    def where(self, node: Optional[ast.AST] = None) -> str:
        n = node if node is not None else self.node
        return f"src/WallGo/{self.file}:{getattr(n, 'lineno', '?')} ({self.qual})"

    def params(self) -> list[str]:
        a = self.node.args
        return [x.arg for x in a.posonlyargs + a.args + a.kwonlyargs]


@dataclass
class ClassInfo:
    module: str
    name: str
    node: ast.ClassDef
    bases: list[str]
    methods: dict[str, FuncInfo] = field(default_factory=dict)
    consts: dict[str, ast.expr] = field(default_factory=dict)


class Module:
    def __init__(self, name: str, path: Path):
        self.name = name
        self.path = path
        self.text = path.read_text()
        self.tree = canonicalise(ast.parse(self.text, filename=str(path)))
        self.imports: dict[str, str] = {}  # local name -> "module:symbol" or "module"
        self.classes: dict[str, ClassInfo] = {}
        self.funcs: dict[str, FuncInfo] = {}  # all functions by qual
        self.globals: dict[str, ast.expr] = {}

    def finish(self, package_defs: dict) -> None:
        """look through private helpers that do not exist in the pinned tree (inline.py), then index"""
        from .inline import inline_new_helpers
        self.tree = canonicalise(inline_new_helpers(self.tree, self.name, package_defs))
        self._index()

    def _index(self) -> None:
        for st in self.tree.body:
            if isinstance(st, ast.ImportFrom):
                mod = ("." * st.level) + (st.module or "")
                for al in st.names:
                    self.imports[al.asname or al.name] = f"{mod}:{al.name}"
            elif isinstance(st, ast.Import):
                for al in st.names:
                    self.imports[al.asname or al.name.split(".")[0]] = al.name
            elif isinstance(st, ast.Assign):
                for t in st.targets:
                    if isinstance(t, ast.Name):
                        self.globals[t.id] = st.value
            elif isinstance(st, ast.AnnAssign) and st.value is not None:
                if isinstance(st.target, ast.Name):
                    self.globals[st.target.id] = st.value
            elif isinstance(st, ast.ClassDef):
                self._index_class(st)
            elif isinstance(st, (ast.FunctionDef, ast.AsyncFunctionDef)):
                self._index_func(st, st.name, None, None)

    def _index_class(self, c: ast.ClassDef) -> None:
        bases = []
        for b in c.bases:
            try:
                bases.append(ast.unparse(b))
            except Exception:  # pragma: no cover
                pass
        ci = ClassInfo(self.name, c.name, c, bases)
        self.classes[c.name] = ci
        for st in c.body:
            if isinstance(st, (ast.FunctionDef, ast.AsyncFunctionDef)):
                fi = self._index_func(st, f"{c.name}.{st.name}", c.name, None)
                ci.methods[st.name] = fi
            elif isinstance(st, ast.Assign):
                for t in st.targets:
                    if isinstance(t, ast.Name):
                        ci.consts[t.id] = st.value
            elif isinstance(st, ast.AnnAssign) and st.value is not None:
                if isinstance(st.target, ast.Name):
                    ci.consts[st.target.id] = st.value

    def _index_func(self, f, qual, cls, parent) -> FuncInfo:
        fi = FuncInfo(self.name, qual, f, cls, parent)
        self.funcs[qual] = fi
        for st in ast.walk(f):
            pass
        # nested functions (direct or inside compound statements, not nested defs)
        for sub in _nested_defs(f):
            self._index_func(sub, f"{qual}.{sub.name}", cls, fi)
        return fi


def _nested_defs(f: ast.AST) -> list[ast.FunctionDef]:
    out: list[ast.FunctionDef] = []

    def visit(stmts: Iterable[ast.stmt]) -> None:
        for st in stmts:
            if isinstance(st, (ast.FunctionDef, ast.AsyncFunctionDef)):
                out.append(st)
                continue
            if isinstance(st, ast.ClassDef):
                continue
            for fld in ("body", "orelse", "finalbody"):
                sub = getattr(st, fld, None)
                if isinstance(sub, list):
                    visit(sub)
            if isinstance(st, ast.Try):
                for h in st.handlers:
                    visit(h.body)
            if isinstance(st, ast.Match):
                for c in st.cases:
                    visit(c.body)

    visit(f.body)  # type: ignore[attr-defined]
    return out


class Source:
    """Parsed view of <repo>/src/WallGo."""

    def __init__(self, repo: Path | str = DEFAULT_REPO):
        self.repo = Path(repo)
        self.pkg = self.repo / PKG_REL
        if not self.pkg.is_dir():
            raise AnalysisError(f"package directory {self.pkg} not found")
        self.modules: dict[str, Module] = {}
        self.parse_errors: list[str] = []
        for p in sorted(self.pkg.rglob("*.py")):
            rel = p.relative_to(self.pkg).with_suffix("")
            parts = rel.parts
            if len(parts) > 1 and parts[-1] == "__init__":
                parts = parts[:-1]  # a sub-package is addressed by its directory name
            name = ".".join(parts)
            try:
                self.modules[name] = Module(name, p)
            except SyntaxError as e:
                self.parse_errors.append(f"{p}: {e}")
        if self.parse_errors:
            raise AnalysisError("syntax errors: " + "; ".join(self.parse_errors))
        defs: dict[str, int] = {}
        for m in self.modules.values():
            for st in ast.walk(m.tree):
                if isinstance(st, ast.FunctionDef):
                    defs[st.name] = defs.get(st.name, 0) + 1
        for m in self.modules.values():
            m.finish(defs)

    # ---- lookups -------------------------------------------------------
    def module(self, name: str) -> Module:
        if name not in self.modules:
            raise AnchorMissing(f"module {name} not found in src/WallGo")
        return self.modules[name]

    def func(self, name: str) -> FuncInfo:
        """name = 'module:Qual.name' (nested functions with further dots)."""
        mod, qual = name.split(":")
        m = self.module(mod)
        if qual not in m.funcs:
            raise AnchorMissing(f"function {name} not found")
        return m.funcs[qual]

    def has_func(self, name: str) -> bool:
        mod, qual = name.split(":")
        return mod in self.modules and qual in self.modules[mod].funcs

    def cls(self, name: str) -> ClassInfo:
        mod, c = name.split(":")
        m = self.module(mod)
        if c not in m.classes:
            raise AnchorMissing(f"class {name} not found")
        return m.classes[c]

    def mro(self, name: str) -> list[ClassInfo]:
        """Package-internal linearisation (single inheritance is all we have)."""
        out = []
        ci = self.cls(name)
        seen = set()
        while ci is not None and (ci.module, ci.name) not in seen:
            seen.add((ci.module, ci.name))
            out.append(ci)
            nxt = None
            for b in ci.bases:
                b = b.split(".")[-1]
                m = self.modules[ci.module]
                tgt = m.imports.get(b)
                if b in m.classes:
                    nxt = m.classes[b]
                elif tgt and ":" in tgt:
                    modname = tgt.split(":")[0].lstrip(".")
                    # resolve relative to package root / sibling
                    cand = [modname]
                    if "." in ci.module:
                        cand.append(ci.module.rsplit(".", 1)[0] + "." + modname)
                    for cn in cand:
                        if cn in self.modules and b in self.modules[cn].classes:
                            nxt = self.modules[cn].classes[b]
                            break
                if nxt is not None:
                    break
            ci = nxt
        return out

    def method(self, clsname: str, meth: str) -> Optional[FuncInfo]:
        for ci in self.mro(clsname):
            if meth in ci.methods:
                return ci.methods[meth]
        return None

    def resolve_import(self, module: str, local: str) -> Optional[str]:
        """Resolve a name imported in `module` to 'mod:symbol' inside the package."""
        m = self.modules[module]
        tgt = m.imports.get(local)
        if not tgt or ":" not in tgt:
            return None
        modname, sym = tgt.split(":")
        level = len(modname) - len(modname.lstrip("."))
        modname = modname.lstrip(".")
        if level == 0:
            if modname.startswith("WallGo."):
                modname = modname[len("WallGo.") :]
            elif modname == "WallGo":
                return None
            else:
                return None
        parts = module.split(".")
        base = parts[: len(parts) - level] if level else []
        full = ".".join(base + ([modname] if modname else []))
        if full in self.modules:
            return f"{full}:{sym}"
        return None

    def all_funcs(self) -> Iterable[FuncInfo]:
        for m in self.modules.values():
            yield from m.funcs.values()

    def digest(self) -> str:
        h = hashlib.sha256()
        for n in sorted(self.modules):
            h.update(n.encode())
            h.update(self.modules[n].text.encode())
        return h.hexdigest()[:16]


# --------------------------------------------------------------------------
# small AST helpers shared by rules
# --------------------------------------------------------------------------


def dotted(node: ast.AST) -> Optional[str]:
    """a.b.c -> 'a.b.c' (None when not a pure dotted name)."""
    parts = []
    while isinstance(node, ast.Attribute):
        parts.append(node.attr)
        node = node.value
    if isinstance(node, ast.Name):
        parts.append(node.id)
        return ".".join(reversed(parts))
    return None


def call_name(node: ast.AST) -> Optional[str]:
    if isinstance(node, ast.Call):
        return dotted(node.func)
    return None


def own_nodes(f: ast.AST) -> Iterable[ast.AST]:
    """Walk a function body without descending into nested defs / lambdas /
    classes (their bodies belong to other scopes)."""
    stack = list(ast.iter_child_nodes(f))
    while stack:
        n = stack.pop()
        yield n
        if isinstance(n, (ast.FunctionDef, ast.AsyncFunctionDef, ast.ClassDef)):
            continue
        stack.extend(ast.iter_child_nodes(n))


def all_nodes(f: ast.AST) -> Iterable[ast.AST]:
    return ast.walk(f)


def calls_in(f: ast.AST, name_suffix: str, own: bool = True) -> list[ast.Call]:
    it = own_nodes(f) if own else ast.walk(f)
    out = []
    for n in it:
        if isinstance(n, ast.Call):
            d = dotted(n.func)
            if d and (d == name_suffix or d.endswith("." + name_suffix)):
                out.append(n)
    out.sort(key=lambda c: (c.lineno, c.col_offset))
    return out


def kwarg(call: ast.Call, name: str, pos: Optional[int] = None) -> Optional[ast.expr]:
    for k in call.keywords:
        if k.arg == name:
            return k.value
    if pos is not None and pos < len(call.args):
        return call.args[pos]
    return None


def src(node: ast.AST) -> str:
    try:
        return ast.unparse(node)
    except Exception:  # pragma: no cover
        return "<?>"


def slice_src(node: ast.AST) -> str:
    """normalised text of a subscript's slice (python 3.12 unparse wraps tuples in parentheses)"""
    t = " ".join(src(node).split())
    if isinstance(node, ast.Tuple) and t.startswith("(") and t.endswith(")"):
        t = t[1:-1].strip()
        if t.endswith(","):
            t = t[:-1]
    return t


def norm(node: ast.AST) -> str:
    """Normalised statement text used for structural keys (no line numbers)."""
    return " ".join(src(node).split())


def attr_stores(f: ast.AST, base: str = "self", own: bool = True) -> list[tuple[str, ast.AST]]:
    """All `base.attr = ...`, `base.attr += ...`, `(base.a, base.b) = ...` stores."""
    out: list[tuple[str, ast.AST]] = []
    it = own_nodes(f) if own else ast.walk(f)
    for n in it:
        tgts: list[ast.expr] = []
        if isinstance(n, ast.Assign):
            tgts = list(n.targets)
        elif isinstance(n, (ast.AugAssign, ast.AnnAssign)):
            if not (isinstance(n, ast.AnnAssign) and n.value is None):
                tgts = [n.target]
        flat: list[ast.expr] = []
        while tgts:
            t = tgts.pop()
            if isinstance(t, (ast.Tuple, ast.List)):
                tgts.extend(t.elts)
            elif isinstance(t, ast.Starred):
                tgts.append(t.value)
            else:
                flat.append(t)
        for t in flat:
            # self.x = ..   or   self.x[i] = ..
            tt = t
            while isinstance(tt, ast.Subscript):
                tt = tt.value
            if isinstance(tt, ast.Attribute) and isinstance(tt.value, ast.Name) and tt.value.id == base:
                out.append((tt.attr, n))
    return out


# --------------------------------------------------------------------------
# E8 rule driver
# --------------------------------------------------------------------------


@dataclass
class Obligation:
    rule: str
    where: str
    desc: str
    verdict: str  # holds | violated | undecided
    detail: str = ""
    key: str = ""  # structural key (for known findings)
    how: str = ""  # discharged_by

    def asdict(self) -> dict:
        return {
            "rule": self.rule,
            "where": self.where,
            "obligation": self.desc,
            "verdict": self.verdict,
            "detail": self.detail,
            "key": self.key,
            "discharged_by": self.how,
        }


class Check:
    """Collects the obligations of one property."""

    def __init__(self, pid: str, source: Source, tier: str = "quick", seed: int = 0):
        self.pid = pid
        self.src = source
        self.tier = tier
        self.seed = seed
        self.obs: list[Obligation] = []
        self.analysed: set[str] = set()  # functions / constructs consulted
        self.info: list[str] = []  # informational lines
        self.floors: dict[str, int] = {}
        self.stage_errors: list[str] = []

    # -- recording -------------------------------------------------------
    def touch(self, *names: str) -> None:
        self.analysed.update(names)

    def ob(self, rule: str, where: str, desc: str, ok: Optional[bool], detail: str = "",
           key: str = "", how: str = "") -> bool:
        verdict = "holds" if ok else ("undecided" if ok is None else "violated")
        self.obs.append(Obligation(rule, where, desc, verdict, detail, key or f"{rule}|{desc}", how))
        return bool(ok)

    def stage(self, fn, *args, **kwargs):
        """run one group of rules; if it cannot be analysed (anchor vanished, construct outside the analysable subset) remember that and go on
        with the other groups, so that a violation another group can still see is reported (exit 1) instead of being hidden behind the analysis
        error (exit 2).  Returns the group's result, or None when it failed."""
        try:
            return fn(*args, **kwargs)
        except AnalysisError as e:
            self.stage_errors.append(f"{type(e).__name__}: {e}")
        except (RecursionError, KeyError, IndexError, AttributeError, TypeError, ValueError) as e:
            self.stage_errors.append(f"internal {type(e).__name__} in {getattr(fn, '__name__', fn)}: {e}")
        return None

    def floor(self, rule: str, n: int) -> None:
        """Rule must have produced at least n obligations, else the anchor
        vanished and the rule would pass vacuously."""
        self.floors[rule] = n

    def note(self, msg: str) -> None:
        self.info.append(msg)

    # -- summary ---------------------------------------------------------
    def count(self, rule_prefix: str) -> int:
        return sum(1 for o in self.obs if o.rule.startswith(rule_prefix))

    def check_floors(self) -> None:
        for r, n in self.floors.items():
            got = self.count(r)
            if got < n:
                raise AnchorMissing(
                    f"rule {r}: only {got} instances matched, floor is {n} "
                    f"(anchor vanished; refusing to pass vacuously)"
                )


# --------------------------------------------------------------------------
# Known findings
# --------------------------------------------------------------------------


def load_known_findings() -> list[dict]:
    p = VERIF_ROOT / "known_findings.json"
    if not p.exists():
        return []
    data = json.loads(p.read_text())
    return data.get("findings", [])


def match_finding(ob: Obligation, pid: str, findings: list[dict]) -> Optional[dict]:
    for f in findings:
        if f.get("property") != pid or f.get("status") != "known":
            continue
        if f.get("rule") == ob.rule and f.get("key") == ob.key:
            return f
    return None


# --------------------------------------------------------------------------
# Runner
# --------------------------------------------------------------------------

LEVELS = {}  # pid -> level, filled by rules registry


def run_property(pid: str, rulefn: Callable[[Check], None], level: str, tier: str,
                 repo: Path, evidence_path: Optional[Path], seed: int,
                 extra: Optional[Callable[[Check], dict]] = None,
                 quiet: bool = False) -> tuple[int, dict]:
    """Run all rules of one property on `repo`.  Returns (exit code, evidence)."""
    t0 = time.time()
    out_lines: list[str] = []
    pending: Optional[str] = None
    try:
        source = Source(repo)
        chk = Check(pid, source, tier, seed)
    except AnalysisError as e:
        msg = f"ANALYSIS-ERROR property={pid} {type(e).__name__}: {e}"
        if not quiet:
            print(msg)
        return 2, {"error": msg}
    try:
        rulefn(chk)
        if chk.stage_errors:
            raise AnalysisError("; ".join(chk.stage_errors[:3]))
        chk.check_floors()
        und = [o for o in chk.obs if o.verdict == "undecided"]
        if und:
            raise Undecided(
                "; ".join(f"{o.rule} @ {o.where}: {o.desc} [{o.detail}]" for o in und[:5])
            )
    except AnalysisError as e:
        pending = f"ANALYSIS-ERROR property={pid} {type(e).__name__}: {e}"
    except Exception as e:  # internal bug -> analysis error, not a violation
        pending = f"ANALYSIS-ERROR property={pid} internal {type(e).__name__}: {e}"
        if not quiet:
            traceback.print_exc()
    # a definite violation is reported even if another rule lost its anchor or
    # met a construct it cannot analyse; otherwise the analysis error wins
    if pending is not None and not any(o.verdict == "violated" for o in chk.obs):
        if not quiet:
            print(pending)
        return 2, {"error": pending}
    if pending is not None:
        out_lines.append("note: " + pending)

    findings = load_known_findings()
    viol = [o for o in chk.obs if o.verdict == "violated"]
    new_viol, known = [], []
    for o in viol:
        f = match_finding(o, pid, findings)
        if f is not None:
            known.append((o, f))
        else:
            new_viol.append(o)
    for o, f in known:
        out_lines.append(f"KNOWN-FINDING: property={pid} {f.get('id','')} {f.get('what', o.desc)} [{o.rule} @ {o.where}]")
    replay_dir = VERIF_ROOT / "evidence" / "replay"
    for i, o in enumerate(new_viol):
        rp = replay_dir / f"{pid}-{i}.json"
        if evidence_path is not None:
            replay_dir.mkdir(parents=True, exist_ok=True)
            rp.write_text(json.dumps({"property": pid, "repo": str(repo), **o.asdict()}, indent=1))
        out_lines.append(f"VIOLATION property={pid} replay={rp}")
        out_lines.append(f"  rule {o.rule} @ {o.where}: {o.desc} -- {o.detail}")

    n = len(chk.obs)
    holds = sum(1 for o in chk.obs if o.verdict == "holds")
    distinct = len({(o.rule, o.key) for o in chk.obs})
    per_rule: dict[str, int] = {}
    for o in chk.obs:
        per_rule[o.rule] = per_rule.get(o.rule, 0) + 1
    hows: dict[str, int] = {}
    for o in chk.obs:
        if o.how:
            hows[o.how] = hows.get(o.how, 0) + 1
    samples = [o.asdict() for o in chk.obs[:: max(1, n // 12)]][:14]
    cov: dict[str, Any] = {
        "obligations": n,
        "discharged": holds,
        "evaluations": n,
        "distinct_nontrivial": distinct,
        "rule": "one obligation per rule instance found in the parsed source; distinct = distinct (rule, structural key) pairs; "
                "an instance is non-trivial because every rule has an instance floor and fails closed (exit 2) below it",
        "explanation": "static rule set decided over ast trees of /repo/src/WallGo; no WallGo code is imported or executed. "
                       "Decides the listed structural clauses of the property, not the numerical behaviour of iterative solvers.",
        "checker_cmd": f"./check {pid} {tier}",
        "trusted_base": ["python ast", "sympy 1.14 (term normalisation)", "wgverif translator and rule code"],
        "per_rule_instances": per_rule,
        "discharged_by": hows,
        "instance_floors": chk.floors,
        "functions_and_constructs_analysed": sorted(chk.analysed),
        "samples": samples,
        "known_findings_reported": [f.get("id") for _, f in known],
        "violations_new": [o.asdict() for o in new_viol],
        "informational": chk.info[:50],
        "source_digest": source.digest(),
        "repo": str(repo),
        "exhaustive": True,
    }
    if extra is not None:
        try:
            cov.update(extra(chk))
        except Exception as e:  # pragma: no cover
            cov["extra_error"] = repr(e)
    ev = {
        "property_id": pid,
        "tier": tier,
        "seed": seed,
        "level": level,
        "coverage": cov,
        "assumptions": [
            "python's ast module parses the file the same way the interpreter does",
            "sympy's simplification is sound (an identity reported as proved is an identity)",
            "the translator's model of the numpy/scipy subset it accepts (listed in DESIGN.md section 1) is faithful",
            "structural clauses only: values returned by iterative solvers (brentq, hybr, RK45, quad, BFGS, Nelder-Mead, dense solve) are not decided",
        ],
        "wall_s": round(time.time() - t0, 3),
        "violations": len(new_viol),
    }
    if evidence_path is not None:
        evidence_path.parent.mkdir(parents=True, exist_ok=True)
        evidence_path.write_text(json.dumps(ev, indent=1, default=str))
    if not quiet:
        print(f"[{pid}] {tier}: {n} obligations, {holds} hold, {len(known)} known finding(s), "
              f"{len(new_viol)} new violation(s); {len(chk.analysed)} constructs analysed; {ev['wall_s']} s")
        for r, c in sorted(per_rule.items()):
            print(f"    {r}: {c} instance(s)")
        for l in out_lines:
            print(l)
    return (1 if new_viol else 0), ev


# --------------------------------------------------------------------------
# guarded statement walk (syntactic branch context of each simple statement)
# --------------------------------------------------------------------------


def walk_guarded(fnode: ast.AST):
    """yield (guards, stmt) for every statement of a function body (not nested defs);
    guards = list of (test-expr, polarity) or ('case', pattern-src, True) for match arms"""
    out = []

    def visit(body, guards):
        for st in body:
            out.append((guards, st))
            if isinstance(st, ast.If):
                visit(st.body, guards + [(st.test, True)])
                visit(st.orelse, guards + [(st.test, False)])
            elif isinstance(st, (ast.For, ast.While, ast.With)):
                visit(st.body, guards)
                visit(getattr(st, "orelse", []) or [], guards)
            elif isinstance(st, ast.Try):
                visit(st.body, guards)
                for h in st.handlers:
                    visit(h.body, guards + [(h, True)])
                visit(st.orelse, guards)
                visit(st.finalbody, guards)
            elif isinstance(st, ast.Match):
                for c in st.cases:
                    visit(c.body, guards + [(("case", st.subject, c.pattern), True)])

    visit(fnode.body, [])  # type: ignore[attr-defined]
    return out


class Remap:
    """re-report obligations of another property's rule under this property's rule ids"""

    def __init__(self, chk: "Check", mapping: dict, only=None):
        self._chk, self._map, self._only = chk, mapping, only

    def __getattr__(self, name):
        return getattr(self._chk, name)

    def ob(self, rule, where, desc, ok, detail="", key="", how=""):
        if rule not in self._map:
            return bool(ok)
        if self._only is not None and not self._only(rule, key, where):
            return bool(ok)
        return self._chk.ob(self._map[rule], where, desc, ok, detail, key=f"{rule}|{key}", how=how)

    def floor(self, rule, k):
        pass




def shared_mutable_class_state(source: "Source") -> list:
    """class-body attributes holding a mutable display ([...], {...}, list()/dict()/set()) that methods mutate in place through
    `self.<attr>[...] = ...` / `.append` / `.update` without the instance ever rebinding `self.<attr> = ...` in __init__:
    every instance then shares (and overwrites) one object -- state that leaks between objects and calls."""
    out = []
    for m in source.modules.values():
        for cname, ci in m.classes.items():
            mutable = {}
            for st in ci.node.body:
                tgt = None
                val = None
                if isinstance(st, ast.Assign) and len(st.targets) == 1 and isinstance(st.targets[0], ast.Name):
                    tgt, val = st.targets[0].id, st.value
                elif isinstance(st, ast.AnnAssign) and isinstance(st.target, ast.Name) and st.value is not None:
                    tgt, val = st.target.id, st.value
                if tgt is None:
                    continue
                if isinstance(val, (ast.List, ast.Dict, ast.Set)) or (isinstance(val, ast.Call) and dotted(val.func) in ("list", "dict", "set")):
                    mutable[tgt] = st
            if not mutable:
                continue
            rebound = set()
            init = ci.methods.get("__init__")
            if init is not None:
                rebound = {a for a, _ in attr_stores(init.node) if not False}
                # only plain rebinding counts (self.x = ...), not self.x[i] = ...
                rebound = {t.attr for s_ in ast.walk(init.node) if isinstance(s_, ast.Assign) for t in s_.targets
                           if isinstance(t, ast.Attribute) and isinstance(t.value, ast.Name) and t.value.id == "self"}
            for mname, f in ci.methods.items():
                for x in ast.walk(f.node):
                    hit = None
                    if isinstance(x, (ast.Assign, ast.AugAssign)):
                        tg = x.targets if isinstance(x, ast.Assign) else [x.target]
                        for t in tg:
                            if isinstance(t, ast.Subscript) and isinstance(t.value, ast.Attribute) and isinstance(t.value.value, ast.Name) \
                                    and t.value.value.id == "self" and t.value.attr in mutable:
                                hit = t.value.attr
                    if isinstance(x, ast.Call) and isinstance(x.func, ast.Attribute) and x.func.attr in ("append", "extend", "update", "insert", "pop", "clear", "add") \
                            and isinstance(x.func.value, ast.Attribute) and isinstance(x.func.value.value, ast.Name) and x.func.value.value.id == "self" \
                            and x.func.value.attr in mutable:
                        hit = x.func.value.attr
                    if hit and hit not in rebound:
                        out.append((f, x, cname, hit))
    return out
