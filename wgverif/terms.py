"""
E2 -- syntax-directed term extraction: python `ast` -> sympy terms.

One function body (optionally a nested function) is walked statement by
statement; `if` statements fork the walk (the guard is only recorded as a label
of the branch, never handed to a solver).  Package-internal helpers are inlined
up to a depth bound; every other call stays an uninterpreted function symbol.
Anything outside the subset raises `Undecided`.
"""
from __future__ import annotations

import ast
from dataclasses import dataclass, field
from fractions import Fraction
from typing import Any, Callable, Optional

import sympy as sp

from .core import AnalysisError, FuncInfo, Source, Undecided, dotted, src

REG_EPS = Fraction(1, 10**50)  # additive literals below this are regularisers -> 0


class Opaque:
    """A value we do not model (string, object, ...)."""

    def __init__(self, text: str):
        self.text = text

    def __repr__(self) -> str:
        return f"Opaque({self.text})"


@dataclass
class Closure:
    node: Any  # FunctionDef or Lambda
    env: dict
    finfo: Optional[FuncInfo] = None
    selfcls: Optional[str] = None


@dataclass
class Guard:
    node: ast.expr
    polarity: bool
    term: Any = None

    def text(self) -> str:
        return ("" if self.polarity else "not ") + " ".join(src(self.node).split())


@dataclass
class Path:
    guards: list[Guard]
    value: Any  # sympy expr | tuple | None
    env: dict
    raised: Optional[str] = None

    def gtext(self) -> str:
        return " and ".join(g.text() for g in self.guards) or "True"


ITE = sp.Function("ITE")
SUM = sp.Function("SUM")
WHERE = sp.Function("WHERE")

NP_FUNCS: dict[str, Callable] = {
    "sqrt": sp.sqrt,
    "exp": sp.exp,
    "log": sp.log,
    "tanh": sp.tanh,
    "cosh": sp.cosh,
    "sinh": sp.sinh,
    "arctanh": sp.atanh,
    "arctan": sp.atan,
    "tan": sp.tan,
    "sin": sp.sin,
    "cos": sp.cos,
    "abs": sp.Abs,
    "absolute": sp.Abs,
    "sign": sp.sign,
}
IDENTITY_CALLS = {
    "float", "np.array", "np.asarray", "np.asanyarray", "np.real", "numpy.array",
    "np.atleast_1d", "complex", "np.ravel",
}


def lit(v: Any) -> sp.Expr:
    if isinstance(v, bool):
        return sp.true if v else sp.false
    if isinstance(v, int):
        return sp.Integer(v)
    if isinstance(v, float):
        if v != v or v in (float("inf"), float("-inf")):
            return sp.oo if v > 0 else (-sp.oo if v < 0 else sp.nan)
        fr = Fraction(repr(v))
        return sp.Rational(fr.numerator, fr.denominator)
    if isinstance(v, complex):
        return sp.Rational(Fraction(repr(v.real))) + sp.I * sp.Rational(Fraction(repr(v.imag)))
    raise Undecided(f"literal {v!r}")


def is_tiny(e: Any) -> bool:
    try:
        if isinstance(e, sp.Expr) and e.is_number and e.is_real is not False:
            if e.has(sp.I):
                return abs(sp.im(e)) <= sp.Rational(REG_EPS.numerator, REG_EPS.denominator) and sp.re(e) == 0
            return bool(sp.Abs(e) <= sp.Rational(REG_EPS.numerator, REG_EPS.denominator)) and e != 0
    except Exception:
        return False
    return False


SCIPY_SIGS = {"root_scalar": ["f"], "brentq": ["f", "a", "b"], "solve_ivp": ["fun", "t_span", "y0"], "minimize_scalar": ["fun"],
              "minimize": ["fun", "x0"], "root": ["fun", "x0"], "simpson": ["y"], "quad": ["func", "a", "b"]}


class Extractor:
    def __init__(self, source: Source, positive: Optional[set[str]] = None,
                 inline: Optional[Callable[[str], bool]] = None, max_depth: int = 4,
                 keep_regularisers: bool = False, symbol_assumptions: Optional[dict] = None):
        self.source = source
        self.positive = positive or set()
        user_inline = inline or (lambda name: False)
        # a private helper whose body is straight-line code ending in one return is what "extract helper" produces: always look
        # through it, so that extracting / inlining such a helper does not change any term
        self.inline = lambda name: user_inline(name) or self._simple_private(name)
        self._simple_cache: dict[str, bool] = {}
        self.max_depth = max_depth
        self.keep_reg = keep_regularisers
        self.dropped_regularisers: list[str] = []
        self.sym_assume = symbol_assumptions or {}
        self._symcache: dict[str, sp.Symbol] = {}

    # simple private helpers of the pinned tree: the rules name them where they want to look inside; anything *new* of this shape
    # is an extracted helper and is looked through automatically
    KNOWN_PRIVATE = {
        "PotentialTools.integrals:_integrator", "PotentialTools.integrals:JbIntegral._integrandPositiveReal",
        "PotentialTools.integrals:JbIntegral._integrandNegativeReal", "PotentialTools.integrals:JbIntegral._integrandNegativeImaginary",
        "PotentialTools.integrals:JfIntegral._integrandPositiveReal", "PotentialTools.integrals:JfIntegral._integrandNegativeReal",
        "PotentialTools.integrals:JfIntegral._integrandNegativeImaginary", "boltzmann:BoltzmannSolver._feq", "boltzmann:BoltzmannSolver._dfeq",
        "equationOfMotion:EOM._toWallParams", "freeEnergy:FreeEnergy._functionImplementation", "hydrodynamics:Hydrodynamics._mappingT",
        "hydrodynamics:Hydrodynamics._inverseMappingT", "hydrodynamicsTemplateModel:HydrodynamicsTemplateModel._eqWall",
        "thermodynamics:Thermodynamics._getCoexistenceRange",
    }

    def _simple_private(self, name: str) -> bool:
        if name in self.KNOWN_PRIVATE:
            return False
        if name in self._simple_cache:
            return self._simple_cache[name]
        ok = False
        try:
            fi = self.source.func(name)
            short = fi.qual.split(".")[-1]
            if short.startswith("_") and not short.startswith("__") and fi.parent is None:
                body = [st for st in fi.node.body if not (isinstance(st, ast.Expr) and isinstance(st.value, ast.Constant) and isinstance(st.value.value, str))]
                ok = (0 < len(body) <= 8 and isinstance(body[-1], ast.Return) and body[-1].value is not None
                      and all(isinstance(st, (ast.Assign, ast.AnnAssign)) for st in body[:-1])
                      and not fi.node.args.vararg and not fi.node.args.kwarg)
        except Exception:
            ok = False
        self._simple_cache[name] = ok
        return ok

    # ---- symbols -------------------------------------------------------
    def sym(self, name: str) -> sp.Symbol:
        if name not in self._symcache:
            kw = dict(real=True)
            if name in self.positive:
                kw = dict(positive=True)
            kw.update(self.sym_assume.get(name, {}))
            self._symcache[name] = sp.Symbol(name, **kw)
        return self._symcache[name]

    # ---- entry points --------------------------------------------------
    def paths(self, finfo: FuncInfo, args: Optional[dict] = None, outer_env: Optional[dict] = None,
              depth: int = 0) -> list[Path]:
        """All syntactic paths through finfo; each ends in a return value."""
        env: dict = dict(outer_env or {})
        env["__module__"] = finfo.module
        if finfo.cls is not None and not (outer_env and outer_env.get("__keepclass__")):
            env["__class__"] = finfo.cls
        else:
            env.setdefault("__class__", finfo.cls)
        a = finfo.node.args
        params = [x.arg for x in a.posonlyargs + a.args]
        defaults = [None] * (len(params) - len(a.defaults)) + list(a.defaults)
        for p, d in zip(params, defaults):
            if p in ("self", "cls"):
                continue
            if args and p in args:
                env[p] = args[p]
            elif d is not None and args is not None and args.get("__use_defaults__", False):
                env[p] = self.expr(d, env, depth)
            else:
                env[p] = self.sym(p)
        for p, d in zip(a.kwonlyargs, a.kw_defaults):
            if args and p.arg in args:
                env[p.arg] = args[p.arg]
            else:
                env[p.arg] = self.sym(p.arg)
        env["__depth__"] = depth
        res = self.block(finfo.node.body, env, [], depth)
        out = []
        for e, g, r in res:
            if isinstance(r, _Raise):
                out.append(Path(g, None, e, raised=r.text))
            elif isinstance(r, _Ret):
                out.append(Path(g, r.value, e))
            else:
                out.append(Path(g, None, e))
        return out

    def returns(self, finfo: FuncInfo, args: Optional[dict] = None, outer_env: Optional[dict] = None) -> list[Path]:
        return [p for p in self.paths(finfo, args, outer_env) if p.raised is None]

    def single(self, finfo: FuncInfo, args: Optional[dict] = None, outer_env: Optional[dict] = None) -> Any:
        ps = self.returns(finfo, args, outer_env)
        if len(ps) != 1:
            raise Undecided(f"{finfo.name}: expected a single return path, found {len(ps)}")
        return ps[0].value

    # ---- statements ----------------------------------------------------
    def block(self, stmts: list[ast.stmt], env: dict, guards: list[Guard], depth: int):
        """returns list of (env, guards, outcome) ; outcome None = fell through"""
        states = [(env, guards)]
        finished = []
        for st in stmts:
            nxt = []
            for e, g in states:
                for e2, g2, out in self.stmt(st, e, g, depth):
                    if out is None:
                        nxt.append((e2, g2))
                    else:
                        finished.append((e2, g2, out))
            states = nxt
            if not states:
                break
            if len(states) + len(finished) > 256:
                raise Undecided("path explosion (>256 paths)")
        return finished + [(e, g, None) for e, g in states]

    def stmt(self, st: ast.stmt, env: dict, guards: list[Guard], depth: int):
        if isinstance(st, ast.Expr):
            if isinstance(st.value, ast.Call):
                fi = self._effect_callee(st.value, env)
                if fi is not None and depth < self.max_depth:
                    return self._call_effects(fi, st.value, env, guards, depth)
            return [(env, guards, None)]  # docstrings, logging, other bare calls: no value effect modelled
        if isinstance(st, (ast.Pass, ast.Import, ast.ImportFrom, ast.Global, ast.Nonlocal, ast.Assert)):
            return [(env, guards, None)]
        if isinstance(st, ast.Return):
            v = None if st.value is None else self.expr(st.value, env, depth)
            return [(env, guards, _Ret(v))]
        if isinstance(st, ast.Raise):
            return [(env, guards, _Raise(" ".join(src(st).split())[:80]))]
        if isinstance(st, (ast.FunctionDef, ast.AsyncFunctionDef)):
            env = dict(env)
            env[st.name] = Closure(st, env, None, env.get("__class__"))
            # closure sees later bindings of the defining env too: share dict
            env[st.name].env = env
            return [(env, guards, None)]
        if isinstance(st, ast.Assign):
            v = self.expr(st.value, env, depth)
            env = dict(env)
            self._rebind_closures(env)
            for t in st.targets:
                self.assign(t, v, env)
            return [(env, guards, None)]
        if isinstance(st, ast.AnnAssign):
            if st.value is None:
                return [(env, guards, None)]
            v = self.expr(st.value, env, depth)
            env = dict(env)
            self._rebind_closures(env)
            self.assign(st.target, v, env)
            return [(env, guards, None)]
        if isinstance(st, ast.AugAssign):
            cur = self.expr(st.target, env, depth)
            rhs = self.expr(st.value, env, depth)
            v = self.binop(st.op, cur, rhs)
            env = dict(env)
            self._rebind_closures(env)
            self.assign(st.target, v, env)
            return [(env, guards, None)]
        if isinstance(st, ast.If):
            c = self.cond(st.test, env, depth)
            outs = []
            if c is True:
                return self.block(st.body, env, guards, depth)
            if c is False:
                return self.block(st.orelse, env, guards, depth)
            outs += self.block(st.body, env, guards + [Guard(st.test, True, c)], depth)
            outs += self.block(st.orelse, env, guards + [Guard(st.test, False, c)], depth)
            return outs
        if isinstance(st, ast.With):
            return self.block(st.body, env, guards, depth)
        if isinstance(st, ast.Try):
            # normal path only (handlers are exceptional paths); noted in DESIGN
            res = self.block(st.body, env, guards, depth)
            out = []
            for e, g, o in res:
                if o is None and st.orelse:
                    out += self.block(st.orelse, e, g, depth)
                else:
                    out.append((e, g, o))
            return out
        raise Undecided(f"statement {type(st).__name__} at line {st.lineno}: {src(st)[:60]}")

    def _effect_callee(self, call: ast.Call, env: dict) -> Optional[FuncInfo]:
        """self.m(...) / super().m(...) resolved inside the package and allowed by the inline policy"""
        mod, cls = env.get("__module__"), env.get("__class__")
        if not mod or not cls:
            return None
        f = call.func
        if isinstance(f, ast.Attribute):
            if isinstance(f.value, ast.Name) and f.value.id == "self":
                fi = self.source.method(f"{mod}:{cls}", f.attr)
                if fi is not None and self.inline(fi.name):
                    return fi
            if isinstance(f.value, ast.Call) and dotted(f.value.func) == "super":
                mro = self.source.mro(f"{mod}:{cls}")
                for ci in mro[1:]:
                    if f.attr in ci.methods:
                        fi = ci.methods[f.attr]
                        return fi if self.inline(fi.name) else None
        return None

    def _call_effects(self, fi: FuncInfo, call: ast.Call, env: dict, guards: list, depth: int):
        args = [self.expr(a, env, depth) for a in call.args]
        kwargs = {k.arg: self.expr(k.value, env, depth) for k in call.keywords if k.arg}
        params = [p for p in fi.params() if p not in ("self", "cls")]
        bound: dict = {"__use_defaults__": True}
        for i, p in enumerate(params):
            if i < len(args):
                bound[p] = args[i]
            elif p in kwargs:
                bound[p] = kwargs[p]
        outer = {k: v for k, v in env.items() if k.startswith("self.")}
        out = []
        for p in self.paths(fi, bound, outer, depth + 1):
            if p.raised is not None:
                continue
            e2 = dict(env)
            for k, v in p.env.items():
                if k.startswith("self."):
                    e2[k] = v
            self._rebind_closures(e2)
            out.append((e2, guards + p.guards, None))
        if not out:
            raise Undecided(f"call {fi.name}: no normal path")
        return out

    def _rebind_closures(self, env: dict) -> None:
        # closures capture the *variable*, so they must see the updated env copy
        for k, v in list(env.items()):
            if isinstance(v, Closure) and v.finfo is None and isinstance(v.node, (ast.FunctionDef, ast.Lambda)):
                env[k] = Closure(v.node, env, None, v.selfcls)

    def assign(self, target: ast.expr, v: Any, env: dict) -> None:
        if isinstance(target, ast.Name):
            env[target.id] = v
        elif isinstance(target, (ast.Tuple, ast.List)):
            n = len(target.elts)
            if isinstance(v, (tuple, list)):
                if len(v) != n:
                    raise Undecided(f"unpack arity {n} vs {len(v)} in {src(target)}")
                for t, x in zip(target.elts, v):
                    self.assign(t, x, env)
            elif isinstance(v, sp.Expr):
                for i, t in enumerate(target.elts):
                    self.assign(t, self.index(v, i), env)
            else:
                raise Undecided(f"unpack of {v!r}")
        elif isinstance(target, ast.Attribute):
            d = dotted(target)
            if d is None:
                raise Undecided(f"store to {src(target)}")
            env[d] = v
        elif isinstance(target, ast.Subscript):
            d = dotted(target.value)
            if d is not None and isinstance(env.get(d), list):
                idx = self._const_index(target.slice, env)
                if idx is not None:
                    lst = list(env[d])
                    lst[idx] = v
                    env[d] = lst
                    return
            raise Undecided(f"subscript store {src(target)}")
        else:
            raise Undecided(f"assignment target {src(target)}")

    # ---- expressions ---------------------------------------------------
    def index(self, v: Any, i: int) -> Any:
        if isinstance(v, (tuple, list)):
            return v[i]
        if isinstance(v, sp.Symbol):
            return self.sym(f"{v.name}[{i}]")
        if isinstance(v, sp.Expr):
            return sp.Function("getitem")(v, sp.Integer(i))
        raise Undecided(f"index of {v!r}")

    def _const_index(self, sl: ast.expr, env: dict) -> Optional[int]:
        if isinstance(sl, ast.Constant) and isinstance(sl.value, int):
            return sl.value
        if isinstance(sl, ast.UnaryOp) and isinstance(sl.op, ast.USub) and isinstance(sl.operand, ast.Constant):
            return -sl.operand.value
        return None

    def cond(self, test: ast.expr, env: dict, depth: int) -> Any:
        """True/False when statically known, else a label (sympy relational or Opaque)."""
        if isinstance(test, ast.Compare) and len(test.ops) == 1 and isinstance(test.ops[0], (ast.Is, ast.IsNot)):
            if isinstance(test.comparators[0], ast.Constant) and test.comparators[0].value is None:
                d = dotted(test.left)
                if d is not None and d in env:
                    isnone = env[d] is None
                    return isnone if isinstance(test.ops[0], ast.Is) else (not isnone)
                return Opaque(src(test))
        if isinstance(test, ast.Constant) and isinstance(test.value, bool):
            return test.value
        if isinstance(test, ast.Name) and isinstance(env.get(test.id), bool):
            return env[test.id]
        if isinstance(test, ast.UnaryOp) and isinstance(test.op, ast.Not):
            c = self.cond(test.operand, env, depth)
            if isinstance(c, bool):
                return not c
            if isinstance(c, sp.Basic) and getattr(c, "is_Relational", False):
                try:
                    return c.negated          # `not a < b` is the relational a >= b (the same guard with the branches exchanged)
                except Exception:
                    pass
            return Opaque(src(test))
        try:
            v = self.expr(test, env, depth)
            if v is sp.true:
                return True
            if v is sp.false:
                return False
            return v
        except Undecided:
            return Opaque(src(test))

    def binop(self, op: ast.operator, a: Any, b: Any) -> Any:
        if isinstance(a, (tuple, list)) and isinstance(b, (tuple, list)) and isinstance(op, ast.Add):
            return type(a)(list(a) + list(b))
        if isinstance(op, ast.Mult) and isinstance(a, (tuple, list)) and isinstance(b, sp.Integer):
            return type(a)(list(a) * int(b))
        if isinstance(op, ast.Mult) and isinstance(b, (tuple, list)) and isinstance(a, sp.Integer):
            return type(b)(list(b) * int(a))
        if not isinstance(a, sp.Basic) or not isinstance(b, sp.Basic):
            raise Undecided(f"arithmetic on {type(a).__name__}, {type(b).__name__}")
        if isinstance(op, ast.Add):
            if not self.keep_reg:
                if is_tiny(b):
                    self.dropped_regularisers.append(str(b))
                    return a
                if is_tiny(a):
                    self.dropped_regularisers.append(str(a))
                    return b
            return a + b
        if isinstance(op, ast.Sub):
            if not self.keep_reg and is_tiny(b):
                self.dropped_regularisers.append(str(b))
                return a
            return a - b
        if isinstance(op, ast.Mult):
            return a * b
        if isinstance(op, ast.Div):
            return a / b
        if isinstance(op, ast.Pow):
            return sp.Pow(a, b)
        if isinstance(op, ast.FloorDiv):
            return sp.floor(a / b)
        if isinstance(op, ast.Mod):
            return sp.Mod(a, b)
        if isinstance(op, ast.MatMult):
            return sp.Function("MATMUL")(a, b)
        raise Undecided(f"operator {type(op).__name__}")

    def expr(self, n: ast.expr, env: dict, depth: int = 0) -> Any:
        if isinstance(n, ast.Constant):
            if n.value is None:
                return None
            if isinstance(n.value, str):
                return Opaque(n.value)
            return lit(n.value)
        if isinstance(n, ast.Name):
            if n.id in env:
                return env[n.id]
            if n.id in ("True", "False"):
                return sp.true if n.id == "True" else sp.false
            g = self._module_global(env, n.id, depth)
            if g is not None:
                return g
            return self.sym(n.id)
        if isinstance(n, ast.Attribute):
            d = dotted(n)
            if d is not None:
                if d in env:
                    return env[d]
                if d in ("np.pi", "numpy.pi", "math.pi"):
                    return sp.pi
                if d in ("np.inf", "numpy.inf", "math.inf"):
                    return sp.oo
                if d in ("np.newaxis",):
                    return None
                c = self._class_const(env, d, depth)
                if c is not None:
                    return c
                # attribute of a known value
                base = dotted(n.value)
                if base is not None and base in env and n.attr in ("real",):
                    return env[base]
                return self.sym(d)
            v = self.expr(n.value, env, depth)
            if n.attr in ("real", "T"):
                return v if n.attr == "real" else sp.Function("T_")(v)
            if isinstance(v, sp.Basic):
                return sp.Function(f"attr_{n.attr}")(v)
            raise Undecided(f"attribute {n.attr} of {v!r}")
        if isinstance(n, ast.UnaryOp):
            v = self.expr(n.operand, env, depth)
            if isinstance(n.op, ast.USub):
                return -v
            if isinstance(n.op, ast.UAdd):
                return v
            if isinstance(n.op, ast.Not):
                if v is sp.true or v is sp.false:
                    return sp.Not(v)
                return sp.Function("NOT")(v) if isinstance(v, sp.Basic) else Opaque(src(n))
            if isinstance(n.op, ast.Invert):
                return sp.Function("INVERT")(v)
        if isinstance(n, ast.BinOp):
            return self.binop(n.op, self.expr(n.left, env, depth), self.expr(n.right, env, depth))
        if isinstance(n, (ast.Tuple, ast.List)):
            vals = [self.expr(e, env, depth) for e in n.elts]
            return tuple(vals) if isinstance(n, ast.Tuple) else list(vals)
        if isinstance(n, ast.Subscript):
            return self.subscript(n, env, depth)
        if isinstance(n, ast.Compare):
            return self.compare(n, env, depth)
        if isinstance(n, ast.BoolOp):
            vals = [self.cond(v, env, depth) for v in n.values]
            if all(isinstance(v, bool) for v in vals):
                return sp.true if (all(vals) if isinstance(n.op, ast.And) else any(vals)) else sp.false
            fn = sp.Function("AND" if isinstance(n.op, ast.And) else "OR")
            args = []
            for v in vals:
                if isinstance(v, bool):
                    v = sp.true if v else sp.false
                if not isinstance(v, sp.Basic):
                    return Opaque(src(n))
                args.append(v)
            return fn(*args)
        if isinstance(n, ast.IfExp):
            c = self.cond(n.test, env, depth)
            if c is True:
                return self.expr(n.body, env, depth)
            if c is False:
                return self.expr(n.orelse, env, depth)
            a, b = self.expr(n.body, env, depth), self.expr(n.orelse, env, depth)
            cc = c if isinstance(c, sp.Basic) else sp.Symbol("cond_" + str(abs(hash(src(n.test))) % 10**6))
            if isinstance(a, sp.Basic) and isinstance(b, sp.Basic):
                return ITE(cc, a, b)
            raise Undecided(f"conditional expression with non-term arms: {src(n)[:60]}")
        if isinstance(n, ast.Lambda):
            return Closure(n, env, None, env.get("__class__"))
        if isinstance(n, ast.Call):
            return self.call(n, env, depth)
        if isinstance(n, (ast.ListComp, ast.GeneratorExp)):
            return self.comprehension(n, env, depth)
        if isinstance(n, ast.JoinedStr):
            return Opaque("fstring")
        if isinstance(n, ast.Dict):
            return Opaque("dict")
        if isinstance(n, ast.Starred):
            return self.expr(n.value, env, depth)
        raise Undecided(f"expression {type(n).__name__}: {src(n)[:60]}")

    def comprehension(self, n, env: dict, depth: int) -> Any:
        e2 = dict(env)
        for gen in n.generators:
            # enumerate(x) / plain iteration: bind targets to fresh symbols
            for t in ast.walk(gen.target):
                if isinstance(t, ast.Name):
                    e2[t.id] = self.sym(t.id)
        elt = self.expr(n.elt, e2, depth)
        if not isinstance(elt, sp.Basic):
            raise Undecided("comprehension element is not a term")
        return sp.Function("COMP")(elt)

    def compare(self, n: ast.Compare, env: dict, depth: int) -> Any:
        if len(n.ops) == 1 and isinstance(n.ops[0], (ast.Is, ast.IsNot)):
            c = self.cond(n, env, depth)
            if isinstance(c, bool):
                return sp.true if c else sp.false
            return sp.Symbol("is_" + str(abs(hash(src(n))) % 10**6))
        left = self.expr(n.left, env, depth)
        parts = []
        for op, comp in zip(n.ops, n.comparators):
            right = self.expr(comp, env, depth)
            if not isinstance(left, sp.Basic) or not isinstance(right, sp.Basic):
                return sp.Symbol("cmp_" + str(abs(hash(src(n))) % 10**6))
            fn = {ast.Lt: "LT", ast.LtE: "LE", ast.Gt: "GT", ast.GtE: "GE", ast.Eq: "EQ", ast.NotEq: "NE",
                  ast.In: "IN", ast.NotIn: "NOTIN"}.get(type(op))
            if fn is None:
                raise Undecided(f"comparison {type(op).__name__}")
            parts.append(sp.Function(fn)(left, right))
            left = right
        return parts[0] if len(parts) == 1 else sp.Function("AND")(*parts)

    def subscript(self, n: ast.Subscript, env: dict, depth: int) -> Any:
        v = self.expr(n.value, env, depth)
        sl = n.slice
        idx = self._const_index(sl, env)
        if idx is not None:
            if isinstance(v, (tuple, list)):
                return v[idx]
            return self.index(v, idx)
        # pure broadcasting subscript [None, :, None, ...] or [..., None] -> identity
        elts = sl.elts if isinstance(sl, ast.Tuple) else [sl]
        if all(self._is_bcast(e) for e in elts):
            return v
        # symbolic index i
        if isinstance(sl, ast.Name) and isinstance(v, sp.Basic):
            i = self.expr(sl, env, depth)
            if isinstance(v, sp.Symbol) and isinstance(i, sp.Symbol):
                return self.sym(f"{v.name}[{i.name}]")
            return sp.Function("getitem")(v, i)
        if isinstance(v, sp.Basic):
            return sp.Function("getitem")(v, sp.Symbol("idx_" + "".join(ch if ch.isalnum() else "_" for ch in src(sl))))
        raise Undecided(f"subscript {src(n)[:60]}")

    @staticmethod
    def _is_bcast(e: ast.expr) -> bool:
        if isinstance(e, ast.Constant) and (e.value is None or e.value is Ellipsis):
            return True
        if isinstance(e, ast.Slice) and e.lower is None and e.upper is None and e.step is None:
            return True
        if isinstance(e, ast.Attribute) and dotted(e) == "np.newaxis":
            return True
        return False

    def _module_global(self, env: dict, name: str, depth: int) -> Any:
        mod = env.get("__module__")
        if mod and mod in self.source.modules:
            g = self.source.modules[mod].globals.get(name)
            if g is not None and isinstance(g, ast.Constant) and isinstance(g.value, (int, float)):
                return lit(g.value)
        return None

    def _class_const(self, env: dict, d: str, depth: int) -> Any:
        parts = d.split(".")
        if len(parts) == 2:
            base, attr = parts
            mod = env.get("__module__")
            cls = env.get("__class__")
            cands = []
            if base in ("cls", "self") and cls:
                cands.append(cls)
            else:
                cands.append(base)
            for c in cands:
                if mod and mod in self.source.modules and c in self.source.modules[mod].classes:
                    for ci in self.source.mro(f"{mod}:{c}"):
                        if attr in ci.consts:
                            k = ci.consts[attr]
                            if isinstance(k, ast.Constant) and isinstance(k.value, (int, float)):
                                return lit(k.value)
        return None

    # ---- calls ---------------------------------------------------------
    def call(self, n: ast.Call, env: dict, depth: int) -> Any:
        d = dotted(n.func)
        # shape / type casts that do not change values: x.view(T), x.astype(T), x.copy(), x.item()
        if isinstance(n.func, ast.Attribute) and n.func.attr in ("view", "astype", "copy", "item") \
                and not (d and d.split(".")[0] in ("np", "numpy", "copy")):
            return self.expr(n.func.value, env, depth)
        args = [self.expr(a, env, depth) for a in n.args]
        kwargs = {k.arg: self.expr(k.value, env, depth) for k in n.keywords if k.arg}
        if d is not None:
            short = d.split(".")[-1]
            # local closure / lambda
            if d in env and isinstance(env[d], Closure):
                return self.apply(env[d], args, kwargs, depth)
            if d in IDENTITY_CALLS or (d.startswith("np.") and short in ("array", "asarray", "asanyarray")):
                if not args:
                    raise Undecided(f"call {d}() without args")
                return args[0]
            if d.split(".")[0] in ("np", "numpy", "math") and short in NP_FUNCS:
                if not isinstance(args[0], sp.Basic):
                    raise Undecided(f"{d} of non-term")
                return NP_FUNCS[short](args[0])
            if d == "abs":
                return sp.Abs(args[0])
            if d == "pow":
                return sp.Pow(args[0], args[1])
            if d in ("min", "np.minimum", "np.min") and len(args) >= 2:
                return sp.Min(*args) if all(isinstance(a, sp.Basic) for a in args) else self._unint(d, args, kwargs)
            if d in ("max", "np.maximum", "np.max") and len(args) >= 2:
                return sp.Max(*args) if all(isinstance(a, sp.Basic) for a in args) else self._unint(d, args, kwargs)
            if d in ("np.where", "numpy.where") and len(args) == 3:
                c, a, b = args
                if not isinstance(c, sp.Basic):
                    c = sp.Symbol("cond")
                return WHERE(c, a, b)
            if d in ("np.sum", "sum", "numpy.sum"):
                a0 = args[0]
                if isinstance(a0, sp.Basic) and a0.func == sp.Function("COMP"):
                    return SUM(a0.args[0])
                if isinstance(a0, sp.Basic):
                    extra = [v for v in args[1:2] if isinstance(v, sp.Basic)] if "axis" not in kwargs else []      # np.sum(a, k) == np.sum(a, axis=k)
                    return SUM(a0, *extra, *[v for v in kwargs.values() if isinstance(v, sp.Basic)])
                if isinstance(a0, (list, tuple)) and all(isinstance(x, sp.Basic) for x in a0):
                    return sp.Add(*a0)
            if d in ("len",):
                return sp.Function("len")(args[0]) if isinstance(args[0], sp.Basic) else Opaque("len")
            if d in ("int",):
                return args[0]
            if d in ("tuple", "list") and args and isinstance(args[0], (tuple, list)):
                return tuple(args[0]) if d == "tuple" else list(args[0])
            if d == "np.isscalar":
                return sp.Symbol("isscalar_" + "".join(ch if ch.isalnum() else "_" for ch in src(n.args[0])))
            # package helper imported by name (gammaSq, boostVelocity ...)
            mod = env.get("__module__")
            if mod and "." not in d:
                tgt = self.source.resolve_import(mod, d)
                if tgt is None and d in self.source.modules[mod].funcs:
                    tgt = f"{mod}:{d}"
                if tgt and self.source.has_func(tgt) and depth < self.max_depth and self.inline(tgt):
                    return self.apply_func(self.source.func(tgt), args, kwargs, depth)
            # self.method(...)
            parts = d.split(".")
            if len(parts) == 2 and parts[0] in ("self", "cls") and env.get("__class__") and mod:
                fi = self.source.method(f"{mod}:{env['__class__']}", parts[1])
                if fi is not None and depth < self.max_depth and self.inline(fi.name):
                    return self.apply_func(fi, args, kwargs, depth)
            if len(parts) == 2 and mod and parts[0] in self.source.modules[mod].classes:
                fi = self.source.method(f"{mod}:{parts[0]}", parts[1])
                if fi is not None and depth < self.max_depth and self.inline(fi.name):
                    return self.apply_func(fi, args, kwargs, depth)
            return self._unint(d, args, kwargs)
        # call on a non-dotted callee: e.g. self.freeEnergyHigh(T).veffValue handled by Attribute;
        # here: (expr)(args)
        f = self.expr(n.func, env, depth)
        if isinstance(f, Closure):
            return self.apply(f, args, kwargs, depth)
        if isinstance(f, sp.Basic):
            return sp.Function("CALL")(f, *[a for a in args if isinstance(a, sp.Basic)])
        raise Undecided(f"call of {src(n.func)[:40]}")

    def _unint(self, d: str, args: list, kwargs: dict) -> sp.Expr:
        name = d
        if name.startswith("self."):
            name = name[5:]
        targs = []
        # bind keywords to positions through the package signature (f(a, vp=b) and f(a, b) are the same application)
        args = list(args)
        kwargs = dict(kwargs)
        if kwargs:
            from .nf import package_sig
            params = package_sig(self.source, d.split(".")[-1]) or SCIPY_SIGS.get(d.split(".")[-1])
            if params:
                while len(args) < len(params) and params[len(args)] in kwargs:
                    args.append(kwargs.pop(params[len(args)]))
        for a in list(args) + [kwargs[k] for k in sorted(kwargs)]:
            if isinstance(a, sp.Basic):
                targs.append(a)
            elif isinstance(a, (tuple, list)) and all(isinstance(x, sp.Basic) for x in a):
                targs.append(sp.Tuple(*a))
            elif a is None:
                targs.append(sp.Symbol("None"))
            elif isinstance(a, Opaque):
                targs.append(sp.Symbol("str_" + "".join(ch if ch.isalnum() else "_" for ch in a.text)[:30]))
            elif isinstance(a, Closure):
                targs.append(sp.Symbol("closure"))
            else:
                targs.append(sp.Symbol("obj"))
        return sp.Function(name)(*targs)

    def apply(self, c: Closure, args: list, kwargs: dict, depth: int) -> Any:
        if depth >= self.max_depth + 4:
            raise Undecided("inlining depth exceeded")
        node = c.node
        a = node.args
        params = [x.arg for x in a.posonlyargs + a.args]
        env = dict(c.env)
        defaults = [None] * (len(params) - len(a.defaults)) + list(a.defaults)
        for i, (p, dflt) in enumerate(zip(params, defaults)):
            if i < len(args):
                env[p] = args[i]
            elif p in kwargs:
                env[p] = kwargs[p]
            elif dflt is not None:
                env[p] = self.expr(dflt, c.env, depth)
            else:
                env[p] = self.sym(p)
        if isinstance(node, ast.Lambda):
            return self.expr(node.body, env, depth + 1)
        res = self.block(node.body, env, [], depth + 1)
        rets = [(g, o.value) for _, g, o in res if isinstance(o, _Ret)]
        if len(rets) == 1:
            return rets[0][1]
        if len(rets) == 0:
            return None
        # several return branches: fold into nested ITE when guards are terms
        return self._fold(rets)

    def _fold(self, rets: list) -> Any:
        # rets: list of (guards, value) in syntactic order; produce ITE chain on first differing guard
        if len(rets) == 1:
            return rets[0][1]
        g0 = rets[0][0]
        if not g0:
            return rets[0][1]
        first = g0[0]
        t = [(g[1:], v) for g, v in rets if g and g[0].node is first.node and g[0].polarity]
        f = [(g[1:], v) for g, v in rets if g and g[0].node is first.node and not g[0].polarity]
        if not t or not f or len(t) + len(f) != len(rets):
            raise Undecided("cannot fold multi-branch inlined function")
        ct = first.term if isinstance(first.term, sp.Basic) else sp.Symbol("cond_" + str(abs(hash(first.text())) % 10**6))
        a, b = self._fold(t), self._fold(f)
        if isinstance(a, sp.Basic) and isinstance(b, sp.Basic):
            return ITE(ct, a, b)
        raise Undecided("cannot fold non-term branches")

    def apply_func(self, fi: FuncInfo, args: list, kwargs: dict, depth: int) -> Any:
        params = [p for p in fi.params() if p not in ("self", "cls")]
        bound = {}
        for i, p in enumerate(params):
            if i < len(args):
                bound[p] = args[i]
            elif p in kwargs:
                bound[p] = kwargs[p]
        bound["__use_defaults__"] = True
        ps = self.returns(fi, bound, None) if depth + 1 <= self.max_depth else None
        if ps is None:
            raise Undecided("depth")
        # re-run with depth accounting
        ps = [p for p in self.paths(fi, bound, None, depth + 1) if p.raised is None]
        if len(ps) == 1:
            return ps[0].value
        return self._fold([(p.guards, p.value) for p in ps])


class _Ret:
    def __init__(self, value: Any):
        self.value = value


class _Raise:
    def __init__(self, text: str):
        self.text = text


# --------------------------------------------------------------------------
# deciding identities
# --------------------------------------------------------------------------


def is_zero(e: sp.Expr, seed: int = 0, budget_s: float = 20.0, allow_numeric: bool = True,
            ranges: Optional[dict] = None) -> tuple[Optional[bool], str]:
    """Decide e == 0.  Returns (verdict, how).  verdict None = undecided."""
    import random
    import signal

    e = sp.sympify(e)
    if e == 0:
        return True, "syntactic"

    class _TO(Exception):
        pass

    def handler(signum, frame):
        raise _TO()

    steps = [
        ("expand", lambda x: sp.expand(x)),
        ("together+cancel", lambda x: sp.cancel(sp.together(x))),
        ("simplify", lambda x: sp.simplify(x)),
        ("powsimp+simplify", lambda x: sp.simplify(sp.powsimp(sp.expand_power_base(x, force=True), force=True))),
        ("trigsimp", lambda x: sp.trigsimp(sp.expand_trig(x))),
        ("factor", lambda x: sp.factor(x)),
    ]
    old = signal.signal(signal.SIGALRM, handler)
    try:
        per = max(2, int(budget_s / len(steps)))
        for name, fn in steps:
            try:
                signal.alarm(per)
                r = fn(e)
                signal.alarm(0)
                if r == 0:
                    return True, f"cas-proof({name})"
            except _TO:
                continue
            except Exception:
                signal.alarm(0)
                continue
    finally:
        signal.alarm(0)
        signal.signal(signal.SIGALRM, old)
    # randomised zero test / refutation with high precision.  Applications of
    # uninterpreted functions (and their derivatives) are independent atoms of the
    # term algebra: each distinct application becomes a fresh symbol.
    atoms = sorted({f for f in e.atoms(sp.Function) if isinstance(f, sp.core.function.AppliedUndef)}
                   | set(e.atoms(sp.Derivative)), key=lambda a: (-len(str(a)), str(a)))
    if atoms:
        rep = {}
        for i, a in enumerate(atoms):
            rep[a] = sp.Symbol(f"atom{i}__", positive=True)
        e = e.xreplace(rep)
        if e == 0:
            return True, "syntactic(atoms)"
        try:
            if sp.cancel(sp.together(e)) == 0:
                return True, "cas-proof(atoms,cancel)"
        except Exception:
            pass
    syms = sorted(e.free_symbols, key=lambda s: s.name)
    if any(isinstance(f, sp.core.function.AppliedUndef) for f in e.atoms(sp.Function)):
        return None, "uninterpreted functions remain; no numeric test"
    rnd = random.Random(seed + 12345)
    nz = 0
    tested = 0
    for _ in range(8):
        subs = {}
        for s in syms:
            if ranges and s in ranges:
                lo, hi = ranges[s]
                k = rnd.randint(1, 96)
                subs[s] = sp.Rational(lo) + (sp.Rational(hi) - sp.Rational(lo)) * sp.Rational(k, 97)
            elif s.is_positive:
                subs[s] = sp.Rational(rnd.randint(11, 97), rnd.randint(11, 97))
            else:
                subs[s] = sp.Rational(rnd.randint(11, 97), rnd.randint(11, 97)) * rnd.choice([1, 1, -1])
        try:
            val = sp.N(e.subs(subs), 50)
            if val.has(sp.nan, sp.zoo, sp.oo) or not val.is_number:
                continue
            tested += 1
            if abs(val) > sp.Float(10) ** (-35):
                nz += 1
                witness = {str(k): str(v) for k, v in subs.items()}
                return False, f"refuted at {witness}: residual {sp.N(val, 8)}"
        except Exception:
            continue
    if tested >= 4 and nz == 0 and allow_numeric:
        return True, f"zero-test({tested},50)"
    return None, "could not decide"
